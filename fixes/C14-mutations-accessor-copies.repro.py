# /venv/bin/python fixes/C14-mutations-accessor-copies.repro.py   -> the core set of *1 in the LOADED catalogue changes
from aldy.gene import Gene
from aldy.solutions import SolvedAllele

g = Gene('/repo/aldy/tests/resources/toy.yml', genome='hg19')
print('before', sorted(map(str, g.alleles['1'].func_muts)))
SolvedAllele(g, '1', '1.002').mutations()
print('after ', sorted(map(str, g.alleles['1'].func_muts)))
