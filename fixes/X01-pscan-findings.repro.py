"""Reproduction of the X01 findings against the real code (run: cd /verif && /venv/bin/python fixes/X01-pscan-findings.repro.py).

Every case writes a small Pharmacoscan probe table for a SHIPPED pharmacoscan database, loads it with the real
aldy.sam.Sample (kind "pscan") and prints the evidence aldy derives next to what the statement requires.
With ALDY_SRC pointing at a tree patched with fixes/X01-pscan-all.diff every line prints `ok`.
"""
import os
import sys
import tempfile

sys.path.insert(0, os.path.dirname(os.path.dirname(os.path.abspath(__file__))))
from harness import aldyenv, genes  # noqa: E402
from harness.checks.x01 import write_table  # noqa: E402

aldyenv.setup()
from aldy.gene import Gene, Mutation  # noqa: E402
from aldy.profile import Profile  # noqa: E402
from aldy.sam import Sample  # noqa: E402

tmp = tempfile.mkdtemp()


def load(gene, rows):
    path = os.path.join(tmp, "t.txt")
    write_table(path, [dict(chrom=gene.chr, start1=s, stop1=e, ref=r, alt=a, gt=g) for s, e, r, a, g in rows])
    return Sample(gene, Profile("user_provided", cn_solution=["1", "1"]), path).coverage


def show(title, rows, got, want):
    print(title)
    for r in rows:
        print("    row  Start=%d Stop=%d REF=%s ALT=%s call=%s" % r)
    print("    aldy:     ", got)
    print("    statement:", want, "   ->", "ok" if got == want else "DIFFERS")


def site(cov, pos):
    return {op: len(v) for op, v in sorted(cov._coverage.get(pos, {}).items())}


g = Gene(os.path.join(genes.genes_dir(), "pharmacoscan", "cyp2d6.yml"), genome="hg38")
ins = sorted((p, op) for p, op in g.mutations if op.startswith("ins"))[0]
sub = sorted((p, op) for p, op in g.mutations if len(op) == 3 and g[p] == op[0])[0]
dele = sorted((p, op) for p, op in g.mutations if op.startswith("del"))[0]

# 1. a catalogued insertion, heterozygous
p, op = ins
x = op[3:]
rows = [(p + 1, p + 2, "-", x, f"-/{x}")]
c = load(g, rows)
show(f"1. catalogued insertion {p}:{op} of pharmacoscan/cyp2d6 (hg38), call -/{x}", rows,
     {"coverage": c[Mutation(p, op)], "reference": c.total(Mutation(p, op)) - c[Mutation(p, op)]}, {"coverage": 10, "reference": 10})

# 2. the same deletion written with an anchor base (prefix) instead of '-'
p, op = dele
d = op[3:]
a = g[p - 1]
rows = [(p, p + len(d), a + d, a, f"{a + d}/{a}")]
c = load(g, rows)
show(f"2a. catalogued deletion {p}:{op} written anchored ({a + d} -> {a}), heterozygous", rows, site(c, p), {"_": 10, op: 10})
p, op = ins
a = g[p]
rows = [(p + 1, p + 1, a, a + x, f"{a}/{a}")]
c = load(g, rows)
show(f"2b. insertion probe written anchored ({a} -> {a + x}), HOMOZYGOUS REFERENCE call", rows, site(c, p + 1), {"_": 20})

# 3. substring: a reference call on a row whose ALT contains the REF text
p, op = sub
b = g[p]
o = op[2]
rows = [(p + 1, p + 1, b, o + b, f"{b}/{b}")]
c = load(g, rows)
show(f"3. row {b} -> {o + b} at {p}, call {b}/{b} (reference): '{b}' in '{o + b}' is a substring test", rows, site(c, p), {"_": 20})

# 4. two rows at one site: the two substitutions of a tri-allelic site, sample carries one of each
g6 = Gene(os.path.join(genes.genes_dir(), "pharmacoscan", "g6pd.yml"), genome="hg19")
by = {}
for p, op in g6.mutations:
    if len(op) == 3 and g6[p] == op[0]:
        by.setdefault(p, []).append(op)
p = sorted(q for q, v in by.items() if len(v) > 1)[0]
o1, o2 = sorted(by[p])[:2]
call = f"{o1[2]}/{o2[2]}"
rows = [(p + 1, p + 1, g6[p], o1[2], call), (p + 1, p + 1, g6[p], o2[2], call)]
c = load(g6, rows)
show(f"4. tri-allelic site {p} of pharmacoscan/g6pd (hg19) probed by two rows, sample {call}", rows, site(c, p), {o1: 10, o2: 10})

# 5. one multi-ALT row, both alternatives called
rows = [(p + 1, p + 1, g6[p], f"{o1[2]}//{o2[2]}", call)]
c = load(g6, rows)
show(f"5. the same site as ONE multi-ALT row {g6[p]} -> {o1[2]}//{o2[2]}, call {call}", rows, site(c, p), {o1: 10, o2: 10})
