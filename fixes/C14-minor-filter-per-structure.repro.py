# /venv/bin/python fixes/C14-minor-filter-per-structure.repro.py   -> the refinement of candidate A=[*1,*1] depends on the order of the list
import collections
from aldy.gene import Gene; from aldy.profile import Profile; from aldy.coverage import Coverage
from aldy.solutions import CNSolution, MajorSolution, SolvedAllele; from aldy.minor import estimate_minor
g = Gene('/repo/aldy/tests/resources/toy.yml', genome='hg19')
t = {p: {'_': [(60, 60)] * 40} for p in (100000104, 100000110, 100000118, 100000147, 100000150)}
t[100000114] = {'_': [(60, 60)] * 30, 'T>A': [(60, 60)] * 10}          # *1.002's silent variant at 25 %
mk = lambda st, al: MajorSolution(0, collections.Counter(SolvedAllele(g, a) for a in al), CNSolution(g, 0, st), [])
for names, L in (('A', [mk(['1','1'], ['1','1'])]), ('A,B', [mk(['1','1'], ['1','1']), mk(['1'], ['1'])]), ('B,A', [mk(['1'], ['1']), mk(['1','1'], ['1','1'])])):
    r = estimate_minor(g, Coverage(g, Profile('x'), None, t, None, {}), L, 'any')
    print(names, [([sa.minor for sa in s.solution], round(s.score, 3)) for s in r if len(s.solution) == 2])
