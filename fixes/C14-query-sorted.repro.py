# for s in 0 1 2; do PYTHONHASHSEED=$s /venv/bin/python fixes/C14-query-sorted.repro.py; done   -> order of the key mutations of CYP2C19*9.002 changes
import logbook, os
from aldy.gene import Gene
from aldy.query import query
g = Gene('/repo/aldy/resources/genes/cyp2c19.yml', genome='hg19')
minor = sorted(m for al in g.alleles.values() for m in al.minors)[-1]
h = logbook.TestHandler()
with h.applicationbound():
    query(g, minor)
print('PYTHONHASHSEED', os.environ.get('PYTHONHASHSEED'), minor, [r.message for r in h.records if 'Key mutations' in r.message])
