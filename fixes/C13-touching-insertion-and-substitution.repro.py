import sys, yaml, os, tempfile, collections
sys.path.insert(0,'/verif')
from harness import aldyenv, evidence; aldyenv.setup()
from aldy.gene import Gene
from aldy.profile import Profile
from aldy.solutions import CNSolution, MajorSolution, SolvedAllele
from aldy.minor import estimate_minor
y=yaml.safe_load(open('/repo/aldy/tests/resources/toy.yml'))
print([k for k in y['alleles']][:12])
seq=y['reference']['seq'].replace('\n','')
print(seq[117:122])
y['alleles']['TOY*9.001']={'mutations':[[119,'insTT','-'],[119,f'{seq[118]}>A' if seq[118]!='A' else f'{seq[118]}>C','-']]}
d=tempfile.mkdtemp(); p=os.path.join(d,'t.yml'); yaml.safe_dump(y,open(p,'w'))
for genome in ('hg19','hg38'):
    g=Gene(p,genome=genome)
    a=[k for k in g.alleles if k.startswith('9') or '9' in k]
    print(genome, g.strand, a, {k:[str(m) for m in v.neutral_muts] for k,v in g.alleles[a[0]].minors.items()} if a else None)
    if not a: 
        # neutral-only allele merges into *1 as a minor
        mn=[(k,mi) for k,al in g.alleles.items() for mi,mm in al.minors.items() if any('ins' in m.op for m in mm.neutral_muts) and len(mm.neutral_muts)==2]
        print(mn)
from harness.checks import c04
for ins_pos, snp_pos in ((119,119),(119,120)):
    y=yaml.safe_load(open('/repo/aldy/tests/resources/toy.yml'))
    y['alleles']['TOY*9.001']={'mutations':[[ins_pos,'insTT','-'],[snp_pos,f'{seq[snp_pos-1]}>{"A" if seq[snp_pos-1]!="A" else "C"}','-']]}
    p=os.path.join(d,f't{snp_pos}.yml'); yaml.safe_dump(y,open(p,'w'))
    for genome in ('hg19','hg38'):
        g=Gene(p,genome=genome)
        bag=[("1","1.001"),("9","9.001")]
        table=evidence.plant(g,bag,depth=20)
        cov=evidence.make_coverage(g,c04._profile(),table)
        msol=c04.make_major_sol(g,["1","1"],["1","9"])
        try:
            with aldyenv.quiet_stderr():
                res=c04.run_minor(g,cov,msol)
            print(ins_pos,snp_pos,genome,g.strand,[( [(sa.minor,[str(m) for m in sa.added],[str(m) for m in sa.missing]) for sa in s.solution], round(s.score,2)) for s in res])
        except Exception as ex:
            print(ins_pos,snp_pos,genome,g.strand,"RAISED",type(ex).__name__,str(ex)[:100])
