# for s in 0 1 2 3 4; do PYTHONHASHSEED=$s /venv/bin/python fixes/C14-tie-break-sorted.repro.py; done   -> score 1.5 / 1.500001
import collections, os
from aldy.gene import Gene, Mutation; from aldy.profile import Profile; from aldy.coverage import Coverage
from aldy.solutions import CNSolution, MajorSolution, SolvedAllele; from aldy.minor import estimate_minor
g = Gene('/repo/aldy/tests/resources/toy.yml', genome='hg19')
t = {p: {'_': [(60, 60)] * 40} for p in (100000104, 100000114, 100000118, 100000147, 100000150)}
t[100000110] = {'_': [(60, 60)] * 20, 'delAC': [(60, 60)] * 20}        # one of the two core variants of *2 on one copy
ms = MajorSolution(0, collections.Counter(SolvedAllele(g, a) for a in ['1', '1']), CNSolution(g, 0, ['1', '1']), [Mutation(100000110, 'delAC')])
r = estimate_minor(g, Coverage(g, Profile('x'), None, t, None, {}), [ms], 'any')
print('PYTHONHASHSEED', os.environ.get('PYTHONHASHSEED'), [([(sa.minor, [str(m) for m in sa.added]) for sa in s.solution], repr(s.score)) for s in r])
