"""Check context: accumulates TLC statistics, implementation executions, samples,
violations and known findings; writes the evidence file and decides the exit code.

Exit codes: 0 property held on everything explored (known findings printed),
1 violation (a line `VIOLATION property=<id> replay=<path>`), 2 machinery failure.
"""
import hashlib
import json
import os
import sys
import time
import traceback

from . import tlc

VERIF = tlc.VERIF
EVIDENCE_DIR = os.path.join(VERIF, "evidence")
REPLAY_DIR = os.path.join(VERIF, "replay")
FINDINGS = os.path.join(VERIF, "known_findings.json")


class MachineryError(Exception):
    pass


def load_findings():
    with open(FINDINGS) as f:
        out = list(json.load(f)["findings"])
    d = os.path.join(VERIF, "known_findings.d")
    if os.path.isdir(d):
        for fn in sorted(os.listdir(d)):
            if fn.endswith(".json"):
                with open(os.path.join(d, fn)) as f:
                    out += json.load(f)["findings"]
    return out


class Ctx:
    def __init__(self, prop, tier, seed):
        self.prop = prop
        self.tier = tier
        self.seed = seed
        self.t0 = time.time()
        self.states = 0
        self.transitions = 0
        self.traces = 0  # implementation executions validated against the spec
        self.evaluations = 0
        self.nontrivial_keys = set()
        self.samples = []
        self.mc_runs = []
        self.parts = {}  # free-form per-part coverage
        self.violations = []  # (clause, fingerprint, replay path)
        self.known = []
        self.undecided = 0
        self.canaries = [0, 0]  # planted, rejected
        self.assumptions = []
        self.exhaustive = False
        self.rule = ""
        self.trusted = []
        self._findings = [f for f in load_findings() if f["property"] == prop]
        self._known_printed = set()

    # ---------------------------------------------------------------- TLC
    def mc(self, module, cfg=None, expect_ok=True, label=None, **kw):
        """Run an exhaustive (or simulated) TLC model-checking job on the spec alone.

        A violation of a spec-level invariant is a *design* finding about the model and
        is reported as machinery failure unless the caller handles it (expect_ok=False).
        """
        r = tlc.run(module, cfg, **kw)
        self.states += r.distinct
        self.transitions += r.generated
        self.mc_runs.append(dict(r.summary(), module=label or os.path.basename(module), cfg=os.path.basename(cfg) if cfg else None))
        if expect_ok and not r.ok:
            raise MachineryError(
                f"spec-level check {module} failed: {r.violated}\n{r.error_text[:3000]}"
            )
        return r

    def trace_batch(self, module, cfg, rows, label=None, timeout=1800, env=None, heap="8g"):
        """Validate a batch of recorded implementation events with a trace spec.

        rows: list of JSON-able dicts (one event per row).  The trace spec prints
        <<"V", id, clause, ...>> for every rejected case and <<"V", "DONE", n>> at the
        end; its POSTCONDITION requires that every row was consumed.
        Returns list of (id, clause, detail) rejections.
        """
        d = tlc.scratch()
        path = os.path.join(d, f"trace_{label or 'b'}_{len(os.listdir(d))}.ndjson")
        tlc.write_ndjson(path, rows)
        e = {"TRACE_FILE": path}
        if env:
            e.update(env)
        try:
            r = tlc.run(module, cfg, workers=1, env=e, timeout=timeout, heap=heap)
        except tlc.TlcError:
            if os.environ.get("VERIF_KEEP"):
                import shutil

                shutil.copy(path, os.path.join("/tmp", "verif_failed_" + os.path.basename(path)))
            raise
        self.states += r.distinct
        self.transitions += r.generated
        self.mc_runs.append(dict(r.summary(), module=label or os.path.basename(module), rows=len(rows)))
        if not r.ok:
            raise MachineryError(
                f"trace batch {module} did not complete: {r.violated}\n{r.error_text[:3000]}"
            )
        done = [p for p in r.prints if len(p) >= 3 and p[1] == "DONE"]
        if not done or done[-1][2] != len(rows):
            raise MachineryError(
                f"trace batch {module}: consumed {done[-1][2] if done else '?'} of {len(rows)} rows"
            )
        try:
            os.unlink(path)
        except OSError:
            pass
        return [p[1:] for p in r.prints if p[1] != "DONE"]

    def trace_batches(self, module, cfg, rows, label=None, chunk=500, jobs=12, timeout=1800, group=None):
        """Validate independent cases in parallel TLC processes (each -workers 1).
        group: optional function row -> key; rows of one group stay in one chunk, in order."""
        import concurrent.futures

        chunks = []
        if group is None:
            chunks = [rows[i : i + chunk] for i in range(0, len(rows), chunk)]
        else:
            cur, cur_keys = [], None
            last = object()
            for r in rows:
                k = group(r)
                if k != last and len(cur) >= chunk:
                    chunks.append(cur)
                    cur = []
                cur.append(r)
                last = k
            if cur:
                chunks.append(cur)
        if not chunks:
            return []
        out = []
        with concurrent.futures.ThreadPoolExecutor(max_workers=jobs) as ex:
            futs = [ex.submit(self.trace_batch, module, cfg, ch, f"{label or 'b'}{i}", timeout) for i, ch in enumerate(chunks)]
            for f in futs:
                out += f.result()
        return out

    # ---------------------------------------------------------------- accounting
    def count(self, n=1, key=None, nontrivial=True):
        self.evaluations += n
        if key is not None and nontrivial:
            self.nontrivial_keys.add(key)

    def sample(self, s, cap=6):
        if len(self.samples) < cap:
            self.samples.append(s)

    # ---------------------------------------------------------------- verdicts
    def violation(self, clause, fingerprint, case, detail=""):
        """Report a violation of the property.  `fingerprint` identifies the specific
        input shape / call site (matched against known_findings.json)."""
        for f in self._findings:
            if f.get("status") == "known" and f["clause"] == clause and _fp_match(f["fingerprint"], fingerprint):
                key = f["id"]
                if key not in self._known_printed:
                    self._known_printed.add(key)
                    print(f"KNOWN-FINDING: property={self.prop} {f['id']}: {f['what']}")
                self.known.append({"id": f["id"], "clause": clause, "fingerprint": fingerprint})
                return False
        blob = json.dumps(
            {"property": self.prop, "clause": clause, "fingerprint": fingerprint, "detail": detail, "case": case},
            sort_keys=True,
            default=str,
            indent=1,
        )
        sha = hashlib.sha1(blob.encode()).hexdigest()[:12]
        d = os.path.join(REPLAY_DIR, self.prop)
        os.makedirs(d, exist_ok=True)
        path = os.path.join(d, f"{sha}.json")
        with open(path, "w") as f:
            f.write(blob)
        if len(self.violations) < 25:
            print(f"VIOLATION property={self.prop} replay={path}")
            print(f"  clause={clause} fingerprint={fingerprint} {str(detail)[:300]}")
        self.violations.append({"clause": clause, "fingerprint": fingerprint, "replay": path})
        return True

    def canary(self, rejected):
        self.canaries[0] += 1
        if rejected:
            self.canaries[1] += 1

    # ---------------------------------------------------------------- finish
    def finish(self):
        if self.canaries[0] != self.canaries[1] and not self.violations:
            raise MachineryError(
                f"{self.canaries[0] - self.canaries[1]} of {self.canaries[0]} corrupted canary cases were ACCEPTED: the check is vacuous"
            )
        wall = time.time() - self.t0
        cov = {
            "states": max(self.states, 0),
            "transitions": max(self.transitions, 0),
            "traces_validated_against_impl": self.traces,
            "evaluations": self.evaluations,
            "distinct_nontrivial": len(self.nontrivial_keys),
            "rule": self.rule,
            "samples": self.samples or ["(none)"],
            "exhaustive": self.exhaustive,
            "tlc_runs": self.mc_runs,
            "undecided_in_fixed_point_band": self.undecided,
            "canaries_planted": self.canaries[0],
            "canaries_rejected": self.canaries[1],
            "known_findings_hit": self.known[:20],
            "known_findings_hit_count": len(self.known),
            "trusted_base": self.trusted,
            "parts": self.parts,
        }
        ev = {
            "property_id": self.prop,
            "tier": self.tier,
            "seed": self.seed,
            "level": "model_checking",
            "coverage": cov,
            "assumptions": self.assumptions,
            "wall_s": round(wall, 2),
            "violations": len(self.violations),
        }
        os.makedirs(EVIDENCE_DIR, exist_ok=True)
        with open(os.path.join(EVIDENCE_DIR, f"{self.prop}.json"), "w") as f:
            json.dump(ev, f, indent=1, default=str)
        print(
            f"[{self.prop}] tier={self.tier} seed={self.seed} states={self.states} transitions={self.transitions} "
            f"impl_traces={self.traces} evaluations={self.evaluations} nontrivial={len(self.nontrivial_keys)} "
            f"known={len(self.known)} violations={len(self.violations)} wall={wall:.1f}s"
        )
        return 1 if self.violations else 0


def _fp_match(pattern, fp):
    """A finding's fingerprint is a dict of required key -> value (or list of values)."""
    if isinstance(pattern, dict) and isinstance(fp, dict):
        for k, v in pattern.items():
            if k not in fp:
                return False
            if isinstance(v, list):
                if fp[k] not in v:
                    return False
            elif fp[k] != v:
                return False
        return True
    return pattern == fp


def run_check(prop, fn, tier, seed):
    tlc.scratch()  # created BEFORE any worker is forked: workers inherit it (they leave through os._exit and would leak their own)
    ctx = Ctx(prop, tier, seed)
    try:
        fn(ctx)
        return ctx.finish()
    except (MachineryError, tlc.TlcError) as ex:
        print(f"MACHINERY-FAILURE property={prop}: {ex}", file=sys.stderr)
        return 2
    except Exception as ex:
        text = "".join(traceback.format_exception(type(ex), ex, ex.__traceback__))
        traceback.print_exc()
        # Safety net: an exception RAISED INSIDE the code under test (innermost frame in the aldy source tree) on an input a
        # check generated is a violation, not a machinery failure (the checks catch these themselves where they expect
        # them; on the unchanged tree no exception escapes at all).  Worker exceptions arrive as text (RemoteTraceback).
        files = [ln.strip() for ln in text.splitlines() if ln.strip().startswith('File "')]
        src = os.path.realpath(os.environ.get("ALDY_SRC", "/repo"))
        inner = files[-1] if files else ""
        remote = [i for i, ln in enumerate(text.splitlines()) if "The above exception was the direct cause" in ln]
        if remote:  # the frames of the worker come first
            head = [ln.strip() for ln in text.splitlines()[: remote[0]] if ln.strip().startswith('File "')]
            inner = head[-1] if head else inner
        if inner.startswith(f'File "{src}/aldy/') and "/aldy/tests/" not in inner:
            try:
                ctx.violation("CodeUnderTestRaised", {"clause": "CodeUnderTestRaised", "exception": type(ex).__name__, "where": inner[:200]},
                              {"traceback": text[-4000:]}, f"the code under test raised {type(ex).__name__}: {ex} at {inner}")
                return ctx.finish()
            except Exception:  # noqa: BLE001
                traceback.print_exc()
        print(f"MACHINERY-FAILURE property={prop}: unexpected exception", file=sys.stderr)
        return 2
