"""Entry point: bin/check <ID> <quick|thorough>  |  bin/check <ID> --replay <path>"""
import importlib
import os
import sys

from . import core


def main(argv):
    if len(argv) < 2:
        print("usage: check <ID> <quick|thorough> | check <ID> --replay <path>", file=sys.stderr)
        return 2
    prop = argv[0].upper()
    seed = int(os.environ.get("VERIF_SEED", "0") or 0)
    mod = importlib.import_module(f"harness.checks.{prop.lower()}")
    if argv[1] == "--replay":
        return mod.replay(argv[2])
    tier = argv[1]
    if os.environ.get("VERIF_TIER") in ("quick", "thorough") and tier not in ("quick", "thorough"):
        tier = os.environ["VERIF_TIER"]
    assert tier in ("quick", "thorough"), tier
    return core.run_check(prop, lambda ctx: mod.run(ctx), tier, seed)


if __name__ == "__main__":
    sys.exit(main(sys.argv[1:]))
