"""Entry point: bin/check <ID> <quick|thorough>  |  bin/check <ID> --replay <path>"""
import importlib
import os
import sys

from . import core


def main(argv):
    if len(argv) < 2:
        print("usage: check <ID> <quick|thorough> | check <ID> --replay <path>", file=sys.stderr)
        return 2
    prop = argv[0].upper()
    seed = int(os.environ.get("VERIF_SEED", "0") or 0)
    try:
        mod = importlib.import_module(f"harness.checks.{prop.lower()}")
    except ModuleNotFoundError as ex:
        print(f"MACHINERY-FAILURE property={prop}: {ex}", file=sys.stderr)
        return 2
    if argv[1] == "--replay":
        try:
            return mod.replay(argv[2])
        except Exception as ex:  # a broken replay is a machinery failure (2), never a verdict
            import traceback

            traceback.print_exc()
            print(f"MACHINERY-FAILURE property={prop}: replay raised {type(ex).__name__}", file=sys.stderr)
            return 2
    tier = argv[1]
    if os.environ.get("VERIF_TIER") in ("quick", "thorough") and tier not in ("quick", "thorough"):
        tier = os.environ["VERIF_TIER"]
    if tier not in ("quick", "thorough"):
        print(f"MACHINERY-FAILURE property={prop}: unknown tier {tier!r}", file=sys.stderr)
        return 2
    return core.run_check(prop, lambda ctx: mod.run(ctx), tier, seed)


if __name__ == "__main__":
    sys.exit(main(sys.argv[1:]))
