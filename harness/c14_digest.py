"""Canonical deep structural digests of loaded Gene / Coverage / Sample objects (C14, harness-side, trusted base).

`digest(obj)` walks plain attributes only (never calls an aldy accessor) and is independent of
PYTHONHASHSEED and of dict/set iteration order: dicts and sets are hashed as SORTED collections of
(key digest, value digest), lists/tuples in order, floats by repr, objects as (class name, __dict__).
`gene_digest(gene)` -> {"all": hex, "parts": {attribute: hex}}; `coverage_digest(cov)` likewise over the
evidence tables (_coverage, _indels, _cnv_coverage, _region_coverage, profile parameters and, when a Sample is
attached, its name and read phases).
"""
import enum
import hashlib
import itertools

_PLAIN = (int, str, float, bool, type(None), bytes)


_PLAIN_T = frozenset(_PLAIN)
_np = None


def _plain(o):
    if isinstance(o, _PLAIN):
        return True
    if type(o) is tuple:
        return all(_plain(x) for x in o)
    return False


def _all_plain(vals):
    """C-speed test: every value is a plain scalar or a flat tuple of plain scalars."""
    ts = set(map(type, vals))
    if ts <= _PLAIN_T:
        return True
    if ts <= (_PLAIN_T | {tuple}):
        flat = itertools.chain.from_iterable(v for v in vals if type(v) is tuple)
        return set(map(type, flat)) <= _PLAIN_T
    return False


def _h(b):
    return hashlib.sha1(b).digest()


def _d(o, depth=0):
    """-> 20 digest bytes of the canonical form of o."""
    if depth > 40:
        raise RecursionError("digest: structure too deep (cycle?)")
    if isinstance(o, enum.Enum):
        return _h(b"E" + type(o).__name__.encode() + b"." + o.name.encode())
    if isinstance(o, _PLAIN):
        return _h(type(o).__name__.encode() + b":" + repr(o).encode())
    if isinstance(o, tuple) and hasattr(o, "_fields"):  # namedtuple (Mutation, GRange)
        if _plain(tuple(o)):
            return _h(b"N" + type(o).__name__.encode() + repr(tuple(o)).encode())
        return _h(b"N" + type(o).__name__.encode() + b"".join(_d(x, depth + 1) for x in o))
    if isinstance(o, (list, tuple)):
        if _plain(tuple(o)) if len(o) < 64 else all(isinstance(x, _PLAIN) for x in o):
            return _h((b"L" if isinstance(o, list) else b"T") + repr(list(o)).encode())
        return _h((b"L" if isinstance(o, list) else b"T") + b"".join(_d(x, depth + 1) for x in o))
    if isinstance(o, dict):
        if o and all(type(k) is int for k in o):
            items = sorted(o.items())
            if _all_plain(o.values()):
                return _h(b"Di" + repr(items).encode())
            return _h(b"Di" + b"".join(repr(k).encode() + _d(v, depth + 1) for k, v in items))
        if o and len(o) <= 64 and all(type(k) is str for k in o) and all(
            isinstance(v, _PLAIN) or (type(v) in (list, tuple) and _all_plain(v)) for v in o.values()
        ):
            return _h(b"Ds" + repr(sorted((k, type(v).__name__, v) for k, v in o.items())).encode())
        parts = sorted(_d(k, depth + 1) + _d(v, depth + 1) for k, v in o.items())
        return _h(b"D" + b"".join(parts))
    if isinstance(o, (set, frozenset)):
        return _h(b"S" + b"".join(sorted(_d(x, depth + 1) for x in o)))
    global _np
    if _np is None:
        try:
            import numpy

            _np = numpy
        except ImportError:  # pragma: no cover
            _np = False
    if _np:
        if isinstance(o, _np.ndarray):
            return _h(b"A" + str(o.dtype).encode() + str(o.shape).encode() + o.tobytes())
        if isinstance(o, _np.generic):
            return _d(o.item(), depth + 1)
    if hasattr(o, "__dict__"):
        return _h(b"O" + type(o).__name__.encode() + _d(vars(o), depth + 1))
    return _h(b"R" + repr(o).encode())


def digest(o):
    return _d(o).hex()[:16]


def _combine(parts):
    return hashlib.sha1("|".join(f"{k}={v}" for k, v in sorted(parts.items())).encode()).hexdigest()[:16]


def gene_digest(gene):
    parts = {k: digest(v) for k, v in vars(gene).items()}
    return {"all": _combine(parts), "parts": parts}


COV_FIELDS = ("_coverage", "_indels", "_cnv_coverage", "_region_coverage")


def coverage_digest(cov):
    parts = {k: digest(getattr(cov, k, None)) for k in COV_FIELDS}
    prof = getattr(cov, "profile", None)
    parts["profile"] = digest(vars(prof)) if prof is not None else "-"
    sam = getattr(cov, "sam", None)
    if sam is not None:
        parts["sam.name"] = digest(getattr(sam, "name", None))
        parts["sam.phases"] = digest(getattr(sam, "phases", None))
        parts["sam.flags"] = digest([getattr(sam, "is_long_read", None), getattr(sam, "min_cov", None)])
    return {"all": _combine(parts), "parts": parts}


def diff_parts(a, b):
    """Names of the parts that differ between two digests of the same kind."""
    ks = set(a["parts"]) | set(b["parts"])
    return sorted(k for k in ks if a["parts"].get(k) != b["parts"].get(k))


class Snapshotter:
    """Per-process cache: the canonical digest is recomputed only when a fast content fingerprint (sha1 of the
    pickle of the same fields) changed.  Equal pickle bytes imply equal content, so this is exact; unequal bytes
    only cost a recomputation."""

    def __init__(self):
        self._cache = {}

    @staticmethod
    def _fast(fields):
        import pickle

        try:
            return hashlib.sha1(pickle.dumps(fields, protocol=4)).digest()
        except Exception:
            return None

    def _get(self, key, fields, full):
        f = self._fast(fields)
        hit = self._cache.get(key)
        if f is not None and hit is not None and hit[0] == f:
            return hit[1]
        d = full()
        self._cache[key] = (f, d)
        return d

    def gene(self, gene):
        return self._get(("g", id(gene)), vars(gene), lambda: gene_digest(gene))

    def coverage(self, cov):
        sam = getattr(cov, "sam", None)
        fields = [getattr(cov, k, None) for k in COV_FIELDS] + [vars(cov.profile) if getattr(cov, "profile", None) is not None else None]
        if sam is not None:
            fields += [getattr(sam, "name", None), getattr(sam, "phases", None), getattr(sam, "is_long_read", None), getattr(sam, "min_cov", None)]
        return self._get(("c", id(cov)), fields, lambda: coverage_digest(cov))
