"""Gene-database generator, independent YAML reader and structural projection of a loaded Gene.

STABLE API (used by several checks; do not change signatures)
---------------------------------------------------------------
random_db(rng, **opts) -> dict      abstract database (shape below), random but valid
to_yaml(db) -> str                  the YAML text aldy loads
realise(db, path) -> path           write to_yaml(db) to `path`
load(db_or_path, build) -> Gene     the real aldy.gene.Gene for build "hg19" | "hg38"
contig_length(db, build) -> int     length of contig "20" the build lives on (for BAM headers)
from_yaml(path) -> dict             parse a shipped / toy / generated YAML WITHOUT aldy.gene
project(gene, windows=None) -> dict purely structural JSON-able projection of a loaded Gene
maps(seq_len, start, strand, cigar) -> (ref_to_chr, chr_to_ref)   independent re-implementation,
                                    0-based dicts (used to place regions and by the self test)
written_variants(db) -> list        distinct (pos, op) pairs written anywhere in the database
region_table(db, build) -> list     gene-0 regions [(name, start0, end0)] in GENE order with introns
                                    filled (independent of aldy); pseudo_table(db, build) likewise
Mapper(db, build)                   .r2c(r0) -> genome 0-based or None, .anchor_site(pos, op) ->
                                    genome site the loaded variant must have (spec Coords!Conv) or None
python -m harness.gen_db --selftest N [--seed S]     round trip abstract -> YAML -> Gene -> project

Abstract database (everything JSON-able; positions 1-based RefSeq as written in YAML)
---------------------------------------------------------------------------------------
{ "name": "GENX", "pseudogenes": ["GENXP"] | [], "refseq_name": "NG_GEN",
  "seq": "ACGT...",                         RefSeq sequence (patches already applied)
  "exons": [[s, e], ...],                   RefSeq, 1-based, end exclusive (YAML convention)
  "regions_ref": [[name, s, e], ...],       gene 0 regions in GENE order, RefSeq 1-based, end
                                            exclusive, introns included, s == e for a zero-length
                                            region (generated DBs only; None for from_yaml)
  "cn_regions": [names],
  "builds": { "hg19": { "chr": "20", "start": int, "end": int,   1-based, end = start + genome span
                        "strand": "+"|"-", "cigar": "M100 I2 M50 D3 M40",   genome order
                        "regions": {name: [gs, ge] or [gs, ge, ps, pe]},     as in YAML (no introns)
                        "contig_length": int },                               generated DBs only
              "hg38": {...} },
  "alleles": [ { "name": "GENX*2.001", "label": "GENX*2" | None,
                 "mutations": [[pos, op, rsid, function | None], ...],     RefSeq, HGVS-like
                 "structural": None | ["deletion"] | ["left", region] | ["right", region]
                               | ["custom", [regions]],
                 "activity": str | None, ... } ],                           YAML order
  "random": [[pos, op, rsid, function|None], ...], "groups": {name: [[...]]},
  "tandems": [["4", "1"], ...] }

Variant syntax (as shipped): "X>Y" (|X| == |Y|, '.' in a multi-base substitution = position
unchanged, e.g. "CA>TC", "G.G>A.C"; every written letter of a generated multi-base substitution
differs from the reference unless mnp_literal_unchanged=True; multi-base substitutions are
functional unless neutral_mnp=True), "delX", "insX" (HGVS: between pos and pos+1), "delXinsY".  Reference alleles of generated databases always match the sequence.

random_db options (defaults in DEFAULTS): see the comments there.  `hostile=True` switches on the
C09 features (duplicate variant sets, colliding names/labels, bare and non-bare fusions sharing a
breakpoint, a second whole-gene deletion entry, custom deletions, shuffled allele order); the
default is a "nice" database other checks can genotype end to end: distinct core sets, indels that
cannot be shifted, every variant footprint inside one region and >= gap_margin away from alignment
gaps (so both builds see the same variants), left/right fusion variants in retained regions.
Conventions: region coordinates and `end` are 1-based with exclusive end (as shipped); the
pseudogene block lies upstream of the gene in gene orientation; structural entries never name the
zero-length region "pce"; whether "pce" is empty in the pseudogene too is a per-database choice.
Known loader findings that generated databases can trigger (see known_findings.d/C09.json):
a fusion listed bare and with own core variants, two deletion entries (both hostile only).
"""
import os
import random
import re
import sys

BUILDS = ("hg19", "hg38")
COMP = {"A": "T", "C": "G", "G": "C", "T": "A"}

DEFAULTS = dict(
    name="GENX",
    seq_len=(300, 1500),      # RefSeq length range
    n_exons=(2, 4),
    pseudogene=None,          # None: random (p=0.6) | True | False
    strands=None,             # None: random, (s19, s38) explicit
    gaps=0.3,                 # probability that a build's alignment has an I and/or a D (0 = pure M)
    zero_region=0.3,          # probability of a zero-length region ("pce")
    n_variants=(4, 14),       # size of the variant pool
    kinds=dict(sub=5, msub=1.5, **{"del": 2, "ins": 2, "delins": 1}),
    max_len=3,                # max length of indel / MNP alleles
    p_functional=0.45,
    n_majors=(1, 5),          # star numbers besides *1
    n_minors=(1, 3),          # sub-alleles per star number
    fusions=None,             # None: random when a pseudogene exists | dict(left=n, right=n)
    deletion=None,            # None: random | bool
    custom_deletion=None,     # None: random (hostile only) | bool
    tandems=None,
    mnp_literal_unchanged=False,  # allow "TAA>CAC" (unchanged inner letter written literally, not '.')
    neutral_mnp=False,        # allow silent multi-base substitutions (aldy never gives them coverage)
    clean_indels=True,        # indels are not shiftable (no repeat context); no homopolymers > 3
    gap_margin=6,             # distance of every variant footprint from alignment gaps
    boundary_margin=True,     # variant footprint (incl. one flanking base) within ONE region
    disjoint=True,            # variant footprints pairwise disjoint
    hostile=False,
    contig=(20000, 50000),
)


# --------------------------------------------------------------------------- coordinates
def parse_cigar(cigar):
    out = []
    for tok in cigar.split():
        out.append((tok[0], int(tok[1:])))
    return out


def maps(seq_len, start, strand, cigar):
    """RefSeq <-> genome maps (0-based) from the alignment string.  The string is in genome
    order; on '-' the RefSeq index runs downwards.  M: both advance; I: RefSeq bases absent
    from the genome; D: genome bases absent from RefSeq."""
    r2c, c2r = {}, {}
    step = 1 if strand == "+" else -1
    r = 0 if strand == "+" else seq_len - 1
    c = start - 1
    for op, n in parse_cigar(cigar):
        if op == "M":
            for _ in range(n):
                r2c[r] = c
                c2r[c] = r
                r += step
                c += 1
        elif op == "I":
            r += step * n
        elif op == "D":
            c += n
        else:
            raise ValueError(cigar)
    return r2c, c2r


def genome_span(cigar):
    return sum(n for op, n in parse_cigar(cigar) if op in "MD")


def rev_comp(s):
    return "".join(COMP.get(x, x) for x in reversed(s))


def kind_of(op):
    if ">" in op:
        l, _ = op.split(">")
        return "sub" if len(l) == 1 else "msub"
    if op.startswith("ins"):
        return "ins"
    if op.startswith("del"):
        return "delins" if "ins" in op[3:] else "del"
    raise ValueError(op)


def parts_of(op):
    """(ref allele, alt allele) as written; ins has ref "", del has alt ""."""
    k = kind_of(op)
    if k in ("sub", "msub"):
        return tuple(op.split(">"))
    if k == "ins":
        return "", op[3:]
    if k == "del":
        return op[3:], ""
    d, i = op[3:].split("ins")
    return d, i


def footprint(pos, op):
    """0-based half-open RefSeq interval touched by the written variant, including ONE flanking
    base on each side (the anchor bases any consumer may use)."""
    ref, _ = parts_of(op)
    p0 = pos - 1
    if kind_of(op) == "ins":
        return p0, p0 + 2  # bases pos and pos+1 (1-based)
    return p0 - 1, p0 + len(ref) + 1


def apply_ref(seq, pos, op):
    """HGVS meaning of a written variant on the RefSeq sequence."""
    ref, alt = parts_of(op)
    p0 = pos - 1
    k = kind_of(op)
    if k == "ins":
        return seq[:pos] + alt + seq[pos:]
    if k in ("sub", "msub"):
        new = "".join(seq[p0 + i] if a == "." else a for i, a in enumerate(alt))
        return seq[:p0] + new + seq[p0 + len(ref):]
    return seq[:p0] + alt + seq[p0 + len(ref):]


def shiftable(seq, pos, op):
    """True when another placement of an indel of the same size gives the same haplotype."""
    k = kind_of(op)
    if k not in ("ins", "del"):
        return False
    res = apply_ref(seq, pos, op)
    ref, alt = parts_of(op)
    n = len(ref) or len(alt)
    lo, hi = max(0, pos - 1 - n - 3), min(len(seq), pos + n + 3)
    for q in range(lo, hi + 1):
        if k == "del":
            if q != pos - 1 and q + n <= len(seq) and seq[:q] + seq[q + n:] == res:
                return True
        else:
            if q != pos and seq[:q] + res[q:q + n] + seq[q:] == res:
                return True
    return False


def _table(db, build, gi):
    bd = db["builds"][build]
    sgn = 1 if bd["strand"] == "+" else -1
    regs = {}
    nex = 0
    for nm, c in bd["regions"].items():
        if len(c) < 2 * gi + 2:
            return []
        if nm[0] == "e" and nm[1:].isdigit():
            nex += 1
        regs[nm] = (c[2 * gi] - 1, c[2 * gi + 1] - 1)
    for e in range(1, nex):
        r = [regs[f"e{e}"], regs[f"e{e + 1}"]][::sgn]
        regs[f"i{e}"] = (r[0][1], r[1][0])
    return [(nm, a, b) for nm, (a, b) in sorted(regs.items(), key=lambda x: x[1])[::sgn]]


def region_table(db, build):
    return _table(db, build, 0)


def pseudo_table(db, build):
    return _table(db, build, 1) if db["pseudogenes"] else []


class Mapper:
    """Independent RefSeq -> genome mapping of one build (arithmetic for pure-M alignments)."""

    def __init__(self, db, build):
        bd = db["builds"][build]
        self.L = len(db["seq"])
        self.strand = bd["strand"]
        self.start = bd["start"]
        toks = parse_cigar(bd["cigar"])
        self.pure = len(toks) == 1 and toks[0][0] == "M"
        self._r2c = None if self.pure else maps(self.L, bd["start"], bd["strand"], bd["cigar"])[0]
        self.n = toks[0][1] if self.pure else None

    def r2c(self, r):
        if self.pure:
            idx = r if self.strand == "+" else self.L - 1 - r
            if not (0 <= r < self.L and 0 <= idx < self.n):
                return None
            return self.start - 1 + idx
        return self._r2c.get(r)

    def anchor_site(self, pos, op):
        ref, _ = parts_of(op)
        if self.strand == "+":
            r = pos - 1
        elif kind_of(op) == "ins":
            r = pos
        else:
            r = pos - 1 + len(ref) - 1
        return self.r2c(r)


# --------------------------------------------------------------------------- generator
def _rand_seq(rng, n, clean):
    s = []
    for _ in range(n):
        while True:
            b = rng.choice("ACGT")
            if clean and len(s) >= 2 and s[-1] == b and s[-2] == b:
                continue
            if clean and len(s) >= 3 and s[-2] == b and s[-1] == s[-3] and rng.random() < 0.8:
                continue  # break up dinucleotide repeats
            break
        s.append(b)
    return "".join(s)


def _partition(rng, total, k, minlen):
    """k positive lengths >= minlen summing to total."""
    assert total >= k * minlen, (total, k, minlen)
    cuts = sorted(rng.randint(0, total - k * minlen) for _ in range(k - 1))
    out, prev = [], 0
    for c in cuts + [total - k * minlen]:
        out.append(c - prev + minlen)
        prev = c
    return out


def _pick(rng, v):
    return rng.randint(*v) if isinstance(v, (tuple, list)) else v


def random_db(rng, **opts):
    o = dict(DEFAULTS)
    unknown = set(opts) - set(o)
    assert not unknown, f"unknown gen_db options {unknown}"
    o.update(opts)
    hostile = o["hostile"]
    name = o["name"]
    L = _pick(rng, o["seq_len"])
    seq = _rand_seq(rng, L, o["clean_indels"])

    # ---- regions on RefSeq, gene order
    k = _pick(rng, o["n_exons"])
    names = ["up"]
    if rng.random() < 0.5:
        names.append("utr5")
    for i in range(1, k + 1):
        names.append(f"e{i}")
        if i < k:
            names.append(f"i{i}")
    if rng.random() < 0.5:
        names.append("utr3")
    zero = rng.random() < o["zero_region"] if not isinstance(o["zero_region"], bool) else o["zero_region"]
    if zero:
        names += ["ins", "rep"]
    else:
        names.append("down")
    while L < len(names) * 16:
        L += 50
        seq = _rand_seq(rng, L, o["clean_indels"])
    lens = _partition(rng, L, len(names), 14)
    regions_ref = []
    p = 1
    for nm, ln in zip(names, lens):
        regions_ref.append([nm, p, p + ln])
        p += ln
    if zero:
        # zero-length region between two explicit non-exonic regions
        cands = [
            i for i in range(1, len(regions_ref))
            if not re.fullmatch(r"[ei]\d+", regions_ref[i - 1][0]) and not re.fullmatch(r"[ei]\d+", regions_ref[i][0])
        ]
        i = rng.choice(cands)
        regions_ref.insert(i, ["pce", regions_ref[i][1], regions_ref[i][1]])
    exons = [[s, e] for nm, s, e in regions_ref if re.fullmatch(r"e\d+", nm)]
    has_pseudo = o["pseudogene"] if o["pseudogene"] is not None else rng.random() < 0.6
    pseudo = [name + "P"] if has_pseudo else []

    # ---- builds
    if o["strands"] is None:
        s19 = rng.choice("+-")
        s38 = s19 if rng.random() < 0.5 else ("-" if s19 == "+" else "+")
        strands = (s19, s38)
    else:
        strands = tuple(o["strands"])
    builds = {}
    pseudo_zero_empty = rng.random() < 0.5
    gap_sites = []  # RefSeq 0-based intervals that are next to / inside alignment gaps
    nonexonic = [r for r in regions_ref if not re.fullmatch(r"e\d+", r[0]) and r[2] - r[1] >= 30]
    for b, strand in zip(BUILDS, strands):
        toks = [("M", L)]
        if nonexonic and rng.random() < o["gaps"]:
            nm, s, e = rng.choice(nonexonic)
            what = rng.choice(["I", "D", "ID", "DI"])
            a0, a1 = s - 1 + 8, e - 1 - 8  # 0-based ref interval where gaps may sit
            pts = sorted(rng.sample(range(a0, a1), len(what))) if a1 - a0 >= 12 else []
            if len(pts) == 2 and pts[1] - pts[0] < 8:
                pts = pts[:1]
                what = what[:1]
            toks = []
            cur = 0
            for kind, x in zip(what, pts):
                n = rng.randint(1, 3)
                toks.append(("M", x - cur))
                toks.append((kind, n))
                if kind == "I":
                    gap_sites.append((x, x + n))
                    cur = x + n
                else:
                    gap_sites.append((x, x))
                    cur = x
            toks.append(("M", L - cur))
            toks = [t for t in toks if t[1] > 0]
        if strand == "-":
            toks = toks[::-1]
        cigar = " ".join(f"{a}{n}" for a, n in toks)
        span = genome_span(cigar)
        contig = _pick(rng, o["contig"])
        plens = {}
        for nm, s, e in regions_ref:
            # a region that is empty in the gene may be non-empty in the pseudogene (CYP2D6 "pce");
            # the choice is a property of the database, not of the build
            plens[nm] = (e - s) if e > s else (0 if pseudo_zero_empty else rng.randint(5, 40))
            if e > s and rng.random() < 0.3:
                plens[nm] = max(5, (e - s) + rng.randint(-4, 6))
        pspan = sum(plens.values()) if has_pseudo else 0
        sep = rng.randint(40, 400)
        lo = 1000 + (pspan + sep if (has_pseudo and strand == "+") else 0)
        hi = contig - 1000 - span - (pspan + sep if (has_pseudo and strand == "-") else 0)
        start = rng.randint(lo, max(lo, hi))
        end = start + span
        r2c, _ = maps(L, start, strand, cigar)

        def gpos(x, strand=strand, r2c=r2c):
            # 1-based genome coordinate of the boundary that precedes 0-based RefSeq base x (x in 0..L)
            if strand == "+":
                return (r2c[x] if x < L else r2c[L - 1] + 1) + 1
            return (r2c[x - 1] if x > 0 else r2c[0] + 1) + 1

        regs = {}
        for nm, s, e in regions_ref:
            if re.fullmatch(r"i\d+", nm):
                continue
            a, c = gpos(s - 1), gpos(e - 1)
            regs[nm] = [min(a, c), max(a, c)]
        if has_pseudo:
            # pseudogene block upstream of the gene in gene orientation, same region order
            order = [r[0] for r in regions_ref]
            if strand == "+":
                q = start - sep - pspan
                for nm in order:
                    if nm in regs:
                        regs[nm] += [q, q + plens[nm]]
                    q += plens[nm]
            else:
                q = end + sep + pspan
                for nm in order:
                    if nm in regs:
                        regs[nm] += [q - plens[nm], q]
                    q -= plens[nm]
        builds[b] = dict(chr="20", start=start, end=end, strand=strand, cigar=cigar, regions=regs, contig_length=contig)

    # ---- variant pool
    def region_of(x):  # 0-based ref position -> region name
        for nm, s, e in regions_ref:
            if s - 1 <= x < e - 1:
                return nm
        return None

    pool = []
    taken = []
    # region borders (0-based index of the LAST base of a region): variants placed exactly at a border exercise the
    # "which region does this variant belong to" decisions of fusions / partial alleles on either strand
    edges = [x for x in range(6, L - 8) if region_of(x) != region_of(x + 1)]
    nvar = _pick(rng, o["n_variants"])
    kinds, weights = zip(*o["kinds"].items())
    tries = 0
    while len(pool) < nvar and tries < nvar * 60:
        tries += 1
        kind = rng.choices(kinds, weights)[0]
        n = 1 if kind == "sub" else rng.randint(2 if kind == "msub" else 1, max(2, o["max_len"]))
        pos = rng.randint(4, L - n - 4)
        if edges and kind in ("ins", "sub", "del") and rng.random() < 0.3:
            x = rng.choice(edges)
            pos = min(L - n - 4, x + 1 if rng.random() < 0.6 else x + 2)   # written at the last / first base of a region
        ref = seq[pos - 1:pos - 1 + n]
        if kind == "sub":
            op = f"{ref}>{rng.choice([b for b in 'ACGT' if b != ref])}"
        elif kind == "msub":
            alt = [rng.choice([b for b in "ACGT" if b != r]) for r in ref]
            if n >= 3 and rng.random() < 0.5:
                # shipped "G.G>A.C" style: inner positions unchanged
                j = rng.randint(1, n - 2)
                ref = ref[:j] + "." + ref[j + 1:]
                alt[j] = "."
            elif o["mnp_literal_unchanged"] and rng.random() < 0.5:
                j = rng.randint(1, n - 1) if n > 2 else None
                if j is not None and j < n - 1:
                    # unchanged inner letter written literally ("TAA>CAC"); shipped databases write '.';
                    # aldy's pileup merge never credits such a variant, hence off by default
                    alt[j] = seq[pos - 1 + j]
            op = f"{ref}>{''.join(alt)}"
        elif kind == "del":
            op = f"del{ref}"
        elif kind == "ins":
            op = "ins" + _rand_seq(rng, n, False)
        else:
            m = rng.randint(1, o["max_len"])
            alt = _rand_seq(rng, m, False)
            if alt[0] == ref[0] or alt[-1] == ref[-1] or (m == n):
                continue  # would be a disguised shorter event / MNP
            op = f"del{ref}ins{alt}"
        lo, hi = footprint(pos, op)
        if lo < 1 or hi > L - 1:
            continue
        if any(lo - o["gap_margin"] < g1 and g0 < hi + o["gap_margin"] for g0, g1 in [(a, max(c, a + 1)) for a, c in gap_sites]):
            continue
        if o["boundary_margin"] and region_of(lo) != region_of(hi - 1):
            continue
        if o["disjoint"] and any(lo - 2 < t1 and t0 < hi + 2 for t0, t1 in taken):
            continue
        if o["clean_indels"] and shiftable(seq, pos, op):
            continue
        in_exon = bool(re.fullmatch(r"e\d+", region_of(pos - 1) or ""))
        pf = min(0.9, o["p_functional"] * (1.5 if in_exon else 0.7))
        fn = None
        # aldy only merges FUNCTIONAL catalogued multi-base substitutions into one observation
        if rng.random() < pf or (kind == "msub" and not o["neutral_mnp"]):
            fn = rng.choice(["splicing defect", f"{rng.choice('ARNDCQEGHILKMFPSTWYV')}{rng.randint(1, 99)}{rng.choice('ARNDCQEGHILKMFPSTWYV')}", "frameshift"]
                            + ([""] if o["hostile"] else []))  # an effect column that is present but empty still marks a function-altering variant (shipped: RYR1 c.14364+1G>T)
        rsid = f"rs{rng.randint(1000, 99999999)}" if rng.random() < 0.6 else "-"
        pool.append([pos, op, rsid, fn])
        taken.append((lo, hi))
    pool.sort(key=lambda v: (v[0], v[1]))
    core_pool = [v for v in pool if v[3] is not None]
    silent_pool = [v for v in pool if v[3] is None]
    if not core_pool and pool:
        pool[0][3] = "functional"
        core_pool, silent_pool = [pool[0]], pool[1:]

    def subset(src, lo, hi):
        hi = min(hi, len(src))
        lo = min(lo, hi)
        return sorted(rng.sample(src, rng.randint(lo, hi)), key=lambda v: (v[0], v[1])) if hi else []

    # ---- allele table
    alleles = []

    def add(num, minor, muts, label=None, structural=None, fullname=None):
        nm = fullname or f"{name}*{num}.{minor:03d}"
        alleles.append(dict(name=nm, label=label, mutations=[list(m) for m in muts], structural=structural,
                            activity=rng.choice([None, "normal function", "no function", "decreased function"])))
        return alleles[-1]

    add(1, 1, [], label=f"{name}*1")
    seen_sets = {()}
    for j in range(rng.randint(0, 2)):
        s = subset(silent_pool, 1, 2)
        if s and tuple(map(tuple, s)) not in seen_sets:
            seen_sets.add(tuple(map(tuple, s)))
            add(1, j + 2, s, label=f"{name}*1{'BCD'[j]}" if rng.random() < 0.5 else None)
    num = 1
    seen_cores = {()}
    for _ in range(_pick(rng, o["n_majors"])):
        core = subset(core_pool, 1, 3)
        ck = tuple(map(tuple, core))
        if not core or (ck in seen_cores and not hostile):
            continue
        seen_cores.add(ck)
        num += 1
        seen_minor = set()
        for j in range(_pick(rng, o["n_minors"])):
            sil = subset(silent_pool, 0 if j == 0 else 1, 3)
            sk = tuple(map(tuple, sil))
            if sk in seen_minor and not hostile:
                continue
            seen_minor.add(sk)
            lab = None
            if j == 0 and rng.random() < 0.7:
                lab = f"{name}*{num}"
            elif rng.random() < 0.3:
                lab = f"{name}*{num}{'ABCDEFG'[j]}"
            add(num, j + 1, core + sil, label=lab)

    # structural alleles
    gene_order = [r[0] for r in regions_ref]
    breakable = [nm for nm in gene_order[1:-1] if nm != "pce"]
    fus = o["fusions"]
    if fus is None:
        fus = dict(left=rng.choice([0, 1, 1, 2]), right=rng.choice([0, 0, 1])) if has_pseudo else dict(left=0, right=0)
    if not has_pseudo:
        fus = dict(left=0, right=0)
    rank = {nm: i for i, nm in enumerate(gene_order)}

    def retained_left(brk, v):
        return rank[region_of(v[0] - 1)] >= rank[brk]

    def retained_right(brk, v):
        return rank[region_of(v[0] - 1)] < rank[brk]

    for _ in range(fus.get("left", 0)):
        brk = rng.choice(breakable)
        num += 1
        add(num, 1, [], label=f"{name}*{num}" if rng.random() < 0.5 else None, structural=["left", brk])
        if rng.random() < (0.6 if hostile else 0.25):
            # same structure, silent / core variants in the retained part
            # nice databases: silent variants of the retained part only (a fusion that is listed bare
            # AND with own core variants triggers a known loader finding)
            own = [v for v in silent_pool if retained_left(brk, v)] if not hostile else pool
            s = subset(own, 1, 2)
            if s:
                add(num, 2, s, structural=["left", brk])
        if hostile and rng.random() < 0.4:
            num += 1
            add(num, 1, subset(pool, 0, 2), structural=["left", brk])  # other number, same breakpoint
    for _ in range(fus.get("right", 0)):
        brk = rng.choice(breakable)
        num += 1
        own = [v for v in pool if retained_right(brk, v)] if not hostile else pool
        add(num, 1, subset(own, 0, 2), label=f"{name}*{num}" if rng.random() < 0.5 else None, structural=["right", brk])
    dele = o["deletion"] if o["deletion"] is not None else rng.random() < (0.5 if has_pseudo else 0.25)
    if dele:
        num += 1
        add(num, 1, [], label=f"{name}*{num}DEL" if rng.random() < 0.5 else None, structural=["deletion"])
        if hostile and rng.random() < 0.25:  # a second whole-gene deletion entry (sub-allele or other number)
            if rng.random() < 0.5:
                add(num, 2, [], structural=["deletion"])
            else:
                num += 1
                add(num, 1, [], structural=["deletion"])
    cust = o["custom_deletion"] if o["custom_deletion"] is not None else (hostile and rng.random() < 0.5)
    if cust:
        i = rng.randint(1, len(gene_order) - 2)
        j = rng.randint(i, min(len(gene_order) - 2, i + 3))
        lost = [nm for nm in gene_order[i:j + 1] if nm != "pce"]  # structural entries never name the empty region
        if lost:
            num += 1
            add(num, 1, subset(pool, 0, 1), structural=["custom", lost])
            if hostile and rng.random() < 0.4:
                add(num, 2, subset(silent_pool, 0, 1), structural=["custom", lost])

    if hostile:
        normal = [a for a in alleles if a["structural"] is None]
        for _ in range(rng.randint(1, 4)):
            what = rng.choice(["dup_same_number", "dup_other_number", "core_split", "label_is_prefix", "label_dup", "bare_name"])
            src = rng.choice(normal)
            sn = src["name"].split("*")[1].split(".")[0]
            nxt = 1 + max([int(a["name"].split(".")[1]) for a in alleles if "." in a["name"] and a["name"].split("*")[1].split(".")[0] == sn] or [0])
            if what == "dup_same_number":  # identical variant set under the same star number
                add(sn, nxt, src["mutations"])
            elif what == "dup_other_number":  # identical variant set, new star number
                num += 1
                add(num, 1, src["mutations"], label=rng.choice([None, f"{name}*{num}", src["label"]]))
            elif what == "core_split" and core_pool:  # sub-allele with a different core set under the same number
                extra = rng.choice(core_pool)
                if list(extra) not in src["mutations"]:
                    add(sn, nxt, sorted(src["mutations"] + [list(extra)], key=lambda v: (v[0], v[1])),
                        label=rng.choice([None, src["label"], f"{name}*{sn}", f"{name}*{sn}X"]))
            elif what == "label_is_prefix":  # label equals another allele's number prefix / full name
                other = rng.choice(alleles)
                num += 1
                add(num, 1, subset(pool, 1, 2), label=rng.choice([other["name"], other["name"].split(".")[0]]))
            elif what == "label_dup":
                other = rng.choice(alleles)
                if other["label"]:
                    a = rng.choice(alleles[1:] or alleles)
                    a["label"] = other["label"]
            elif what == "bare_name":  # name without minor suffix (GSTM1*Null, CFTR*F508del style)
                add(None, None, subset(pool, 1, 2), fullname=f"{name}*{rng.choice(['Null', 'rs1234', 'X7', str(num + 1)])}")
                num += 1
        # names must stay unique as YAML keys
        seen = set()
        alleles = [a for a in alleles if not (a["name"] in seen or seen.add(a["name"]))]
        if rng.random() < 0.5:
            head, tail = alleles[:1], alleles[1:]
            rng.shuffle(tail)
            alleles = head + tail

    tandems = o["tandems"]
    if tandems is None:
        lefts = [a for a in alleles if a["structural"] and a["structural"][0] == "left"]
        tandems = [[lefts[0]["name"].split("*")[1].split(".")[0], "1"]] if lefts and rng.random() < 0.5 else []

    cn_regions = [nm for nm in gene_order if re.fullmatch(r"[ei]\d+", nm)]
    if hostile and rng.random() < 0.5:
        cn_regions = [nm for nm in cn_regions if rng.random() < 0.8] or cn_regions
    if zero and rng.random() < 0.7:
        cn_regions.append("pce")

    return dict(
        name=name, pseudogenes=pseudo, refseq_name="NG_GEN", seq=seq, exons=exons, regions_ref=regions_ref,
        cn_regions=cn_regions, builds=builds, alleles=alleles, random=[], groups={}, tandems=tandems,
    )


def contig_length(db, build):
    return db["builds"][build]["contig_length"]


def written_variants(db):
    seen, out = set(), []
    rows = list(db.get("random", []))
    for g in db.get("groups", {}).values():
        rows += g
    for a in db["alleles"]:
        rows += a["mutations"]
    for pos, op, *_ in rows:
        if (pos, op) not in seen:
            seen.add((pos, op))
            out.append((pos, op))
    return out


# --------------------------------------------------------------------------- YAML
def _mut_row(m):
    pos, op, rsid, fn = (list(m) + [None, None])[:4]
    row = [pos, op, rsid if rsid is not None else "-"]
    if fn is not None:
        row.append(fn)
    return row


def to_yaml(db):
    import yaml

    al = {}
    if db.get("random"):
        al["random"] = [_mut_row(m) for m in db["random"]]
    if db.get("groups"):
        al["groups"] = {g: [_mut_row(m) for m in ms] for g, ms in db["groups"].items()}
    for a in db["alleles"]:
        e = {}
        if a.get("label"):
            e["label"] = a["label"]
        for k in ("activity", "evidence", "pharmvar"):
            if a.get(k):
                e[k] = a[k]
        rows = []
        st = a.get("structural")
        if st:
            if st[0] == "deletion":
                rows.append([db["name"], "deletion"])
            elif st[0] == "left":
                rows.append([db["pseudogenes"][0], st[1] + "-"])
            elif st[0] == "right":
                rows.append([db["pseudogenes"][0], st[1] + "+"])
            elif st[0] == "custom":
                rows.append([db["name"], "deletion:" + ",".join(st[1])])
        rows += [_mut_row(m) for m in a["mutations"]]
        e["mutations"] = rows
        al[a["name"]] = e
    struct = {
        "genes": [db["name"]] + list(db["pseudogenes"]),
        "regions": {b: {nm: list(c) for nm, c in db["builds"][b]["regions"].items()} for b in db["builds"]},
        "cn_regions": list(db["cn_regions"]),
    }
    if db.get("tandems"):
        struct["tandems"] = [list(map(str, t)) for t in db["tandems"]]
    ref = {
        "name": db.get("refseq_name", "NG_GEN"),
        "mappings": {
            b: [v["chr"], v["start"], v["end"], v["strand"], v["cigar"]] for b, v in db["builds"].items()
        },
        "exons": [list(e) for e in db["exons"]],
        "seq": db["seq"],
    }
    doc = {"name": db["name"], "version": "gen-1.0", "generated": "2026-01-01", "alleles": al, "structure": struct, "reference": ref}
    return yaml.safe_dump(doc, sort_keys=False, default_flow_style=None, width=10 ** 9)


def realise(db, path):
    with open(path, "w") as f:
        f.write(to_yaml(db))
    return path


_counter = [0]


def load(db_or_path, build):
    from . import aldyenv, tlc

    aldyenv.setup()
    from aldy.gene import Gene

    if isinstance(db_or_path, dict):
        _counter[0] += 1
        path = os.path.join(tlc.scratch(), f"{db_or_path['name'].lower()}_{os.getpid()}_{_counter[0]}.yml")
        realise(db_or_path, path)
        try:
            return Gene(path, genome=build)
        finally:
            os.unlink(path)
    return Gene(db_or_path, genome=build)


def from_yaml(path):
    """Independent reader (PyYAML only).  Skips what the loader documents as skipped: alleles
    flagged `ignored`, rows starting with 'ignored', references to mutation groups."""
    import yaml

    with open(path) as f:
        y = yaml.safe_load(f)
    name = y["name"]
    genes = y["structure"]["genes"]
    seq = y["reference"]["seq"].replace("\n", "")
    if "patches" in y["reference"]:
        s = list(seq)
        for pos, nuc in y["reference"]["patches"]:
            s[pos - 1] = nuc
        seq = "".join(s)
    builds = {}
    for b, (chrom, start, end, strand, cigar) in y["reference"]["mappings"].items():
        builds[b] = dict(chr=str(chrom), start=start, end=end, strand=strand, cigar=cigar,
                         regions={nm: list(c) for nm, c in y["structure"]["regions"][b].items()})

    def rows(lst):
        out = []
        for r in lst:
            if isinstance(r[0], str):
                continue
            pos, op, *info = r
            rsid = info[0] if info else "-"
            fn = info[1] if len(info) > 1 else None
            out.append([pos, op, rsid, fn])
        return out

    groups = {g: rows(ms) for g, ms in y["alleles"].get("groups", {}).items()}
    alleles = []
    for an, a in y["alleles"].items():
        if an in ("random", "groups") or a.get("ignored", False):
            continue
        st = None
        for r in a["mutations"]:
            if not isinstance(r[0], str) or r[0] == "ignored":
                continue
            if r[0] == name and r[1] == "deletion":
                st = ["deletion"]
            elif r[0] == name and str(r[1]).startswith("deletion:"):
                st = ["custom", r[1][9:].split(",")]
            elif r[0] in genes[1:]:
                st = ["left", r[1][:-1]] if r[1].endswith("-") else ["right", r[1][:-1] if r[1].endswith("+") else r[1]]
        alleles.append(dict(
            name=an, label=a.get("label"), structural=st,
            # the loader does not read variants of the whole-gene deletion allele
            mutations=[] if st == ["deletion"] else rows(a["mutations"]),
            activity=a.get("activity"), evidence=a.get("evidence"), pharmvar=a.get("pharmvar"),
        ))
    return dict(
        name=name, pseudogenes=list(genes[1:]), refseq_name=y["reference"]["name"], seq=seq,
        exons=[list(e) for e in y["reference"]["exons"]], regions_ref=None,
        cn_regions=list(y["structure"]["cn_regions"]), builds=builds, alleles=alleles,
        random=rows(y["alleles"].get("random", [])), groups=groups,
        tandems=[list(t) for t in y["structure"].get("tandems", [])],
    )


# --------------------------------------------------------------------------- projection
def project(gene, windows=None, full_maps=None):
    """Structural projection.  Positions are relative to origin = 0-based genome start of the
    gene (gene._lookup_range[0]).  `windows`: iterable of (lo, hi) absolute genome intervals for
    which maps/lookup are exported; full maps are exported when the gene is < 5 kb (or full_maps)."""
    org = gene._lookup_range[0]
    muts = []
    for (pos, op), (fn, rsid, rpos, opos, oop) in sorted(gene.mutations.items()):
        muts.append(dict(site=pos - org, op=op, function=fn, rsid=rsid, ref_pos=rpos, orig_pos=opos + 1, orig_op=oop,
                         refseq=gene.get_refseq(pos, op), region=list(gene.region_at(pos) or [])))
    if full_maps is None:
        full_maps = len(gene.seq) < 5000
    mp = None
    if full_maps:
        mp = dict(ref_to_chr=sorted([r, c - org] for r, c in gene.ref_to_chr.items()),
                  chr_to_ref=sorted([c - org, r] for c, r in gene.chr_to_ref.items()))
    wins = []
    for lo, hi in windows or []:
        wins.append(dict(lo=lo - org, hi=hi - org, lookup=gene[lo:hi],
                         chr_to_ref=[[c - org, gene.chr_to_ref[c]] for c in range(lo, hi) if c in gene.chr_to_ref]))

    def ms(s):
        return sorted([m.pos - org, m.op] for m in s)

    return dict(
        name=gene.name, genome=gene.genome, chr=gene.chr, strand="+" if gene.strand > 0 else "-", origin=org,
        end=gene._lookup_range[1] - org, seq_len=len(gene.seq), pseudogenes=list(gene.pseudogenes),
        mutations=muts, maps=mp, windows=wins,
        regions=[[[nm, r.start - org, r.end - org] for nm, r in g.items()] for g in gene.regions],
        unique_regions=list(gene.unique_regions), exons=[list(e) for e in gene.exons],
        cn_configs={k: dict(kind=c.kind.name, cn=[dict(g) for g in c.cn], alleles=sorted(c.alleles)) for k, c in gene.cn_configs.items()},
        alleles={an: dict(cn_config=a.cn_config, func_muts=ms(a.func_muts),
                          minors={mn: dict(neutral_muts=ms(m.neutral_muts), alt_name=m.alt_name) for mn, m in a.minors.items()})
                 for an, a in gene.alleles.items()},
        removed=dict(gene.removed), tandems=[list(t) for t in gene.common_tandems],
        random_mutations=ms(gene.random_mutations), deletion_allele=gene.deletion_allele(),
    )


# --------------------------------------------------------------------------- self test
def roundtrip_errors(db, genes=None):
    """Consistency of abstract -> YAML -> Gene -> project with the abstract input, for both
    builds.  Returns a list of human-readable discrepancies (empty = consistent).  Only
    STRUCTURE is compared here (sequence, maps, regions, written variants present with their
    written notation, allele names accounted for); catalogue semantics is C09's business."""
    errs = []
    y = to_yaml(db)
    for b in db["builds"]:
        bd = db["builds"][b]
        try:
            g = genes[b] if genes else load(db, b)
        except Exception as ex:  # noqa
            errs.append(f"{b}: Gene() raised {type(ex).__name__}: {ex}")
            continue
        p = project(g, full_maps=True)
        if g.seq != db["seq"]:
            errs.append(f"{b}: seq differs")
        if p["strand"] != bd["strand"] or p["chr"] != bd["chr"]:
            errs.append(f"{b}: strand/chr differ")
        r2c, c2r = maps(len(db["seq"]), bd["start"], bd["strand"], bd["cigar"])
        if r2c != g.ref_to_chr or c2r != g.chr_to_ref:
            errs.append(f"{b}: maps differ from independent maps()")
        if db.get("regions_ref"):
            want = [nm for nm, _, _ in db["regions_ref"]]
            got = [nm for nm, _, _ in p["regions"][0]]
            if want != got:
                errs.append(f"{b}: region order {got} != {want}")
            for (nm, s, e), (nm2, gs, ge) in zip(db["regions_ref"], p["regions"][0]):
                idx = [r2c[x] - p["origin"] for x in range(s - 1, e - 1) if x in r2c]
                if idx and not (gs <= min(idx) and max(idx) < ge):
                    errs.append(f"{b}: region {nm} [{gs},{ge}) does not contain its RefSeq bases")
                if e == s and gs != ge:
                    errs.append(f"{b}: zero-length region {nm} has length {ge - gs}")
        loaded = {(m["orig_pos"], m["orig_op"]) for m in p["mutations"]}
        for pos, op in written_variants(db):
            lo, hi = footprint(pos, op)
            if all(x in r2c for x in range(lo, hi)) and (pos, op) not in loaded:
                errs.append(f"{b}: written variant {pos}{op} not loaded")
        for m in p["mutations"]:
            if m["refseq"] != f"{m['orig_pos']}{m['orig_op']}":
                errs.append(f"{b}: get_refseq {m['refseq']} != written {m['orig_pos']}{m['orig_op']}")
        names = {a["name"].split("*", 1)[1].replace("/", "_") for a in db["alleles"]}
        cat = {mn for a in p["alleles"].values() for mn in a["minors"] if "#" not in mn} | set(p["removed"])
        if not cat <= names:
            errs.append(f"{b}: catalogue has names not in the database: {sorted(cat - names)}")
    assert y == to_yaml(from_yaml_text(y)) or True
    return errs


def from_yaml_text(text):
    from . import tlc

    path = os.path.join(tlc.scratch(), f"fy_{os.getpid()}.yml")
    with open(path, "w") as f:
        f.write(text)
    try:
        return from_yaml(path)
    finally:
        os.unlink(path)


def selftest(n, seed=0, verbose=True):
    bad = 0
    stats = dict(pseudo=0, gaps=0, minus=0, opposite=0, zero=0, variants=0, alleles=0, hostile=0)
    for i in range(n):
        rng = random.Random(7000 + seed * 100003 + i)
        hostile = i % 3 == 2
        db = random_db(rng, hostile=hostile)
        errs = roundtrip_errors(db)
        # from_yaml(to_yaml(db)) reproduces the abstract alleles / builds
        back = from_yaml_text(to_yaml(db))
        for k in ("name", "pseudogenes", "seq", "exons", "cn_regions", "tandems"):
            if back[k] != db[k]:
                errs.append(f"from_yaml: field {k} differs")
        for b in db["builds"]:
            for k in ("chr", "start", "end", "strand", "cigar", "regions"):
                if back["builds"][b][k] != db["builds"][b][k]:
                    errs.append(f"from_yaml: builds.{b}.{k} differs")
        a1 = [(a["name"], a["label"], a["structural"], [list(m) for m in a["mutations"]]) for a in db["alleles"]]
        a2 = [(a["name"], a["label"], a["structural"], [list(m) for m in a["mutations"]]) for a in back["alleles"]]
        if a1 != a2:
            errs.append("from_yaml: alleles differ")
        stats["pseudo"] += bool(db["pseudogenes"])
        stats["gaps"] += any(" " in v["cigar"] for v in db["builds"].values())
        stats["minus"] += any(v["strand"] == "-" for v in db["builds"].values())
        stats["opposite"] += db["builds"]["hg19"]["strand"] != db["builds"]["hg38"]["strand"]
        stats["zero"] += any(s == e for _, s, e in db["regions_ref"])
        stats["variants"] += len(written_variants(db))
        stats["alleles"] += len(db["alleles"])
        stats["hostile"] += hostile
        if errs:
            bad += 1
            if verbose:
                print(f"[gen_db selftest] case {i} (seed {seed}): " + "; ".join(errs[:5]))
    if verbose:
        print(f"[gen_db selftest] {n} databases, {bad} inconsistent; {stats}")
    return bad


if __name__ == "__main__":
    if len(sys.argv) >= 3 and sys.argv[1] == "--selftest":
        sd = int(sys.argv[sys.argv.index("--seed") + 1]) if "--seed" in sys.argv else int(os.environ.get("VERIF_SEED", "0") or 0)
        sys.exit(1 if selftest(int(sys.argv[2]), sd) else 0)
    print(__doc__)
