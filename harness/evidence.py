"""Synthetic variant evidence (Coverage objects) planted from allele multisets, with noise
and low-quality observations.  Harness code (trusted base); works from a loaded Gene."""
import collections

GOOD = (60, 60)
LOW_BASE = (60, 5)
LOW_MAP = (5, 60)


def catalogue_sites(gene):
    return sorted({pos for pos, _ in gene.mutations})


def cfg_cn_at(gene, cfg, pos):
    r = gene.region_at(pos)
    if not r:
        return 0
    return gene.cn_configs[cfg].cn[r[0]][r[1]]


def struct_cn_at(gene, struct, pos):
    return sum(cfg_cn_at(gene, c, pos) for c in struct)


def allele_variants(gene, major, minor=None):
    m = set(gene.alleles[major].func_muts)
    if minor:
        m |= set(gene.alleles[major].minors[minor].neutral_muts)
    return m


def plant(gene, bag, depth=20, extra_variants=None, sites=None):
    """bag: list of (major, minor-or-None).  Returns {pos: {op: count}}: every copy
    contributes `depth` observations at every catalogued site it has gene copies at."""
    table = collections.defaultdict(lambda: collections.defaultdict(int))
    sites = sites if sites is not None else catalogue_sites(gene)
    extra_variants = extra_variants or [set() for _ in bag]
    for (major, minor), extra in zip(bag, extra_variants):
        muts = allele_variants(gene, major, minor) | set(extra)
        by_pos = collections.defaultdict(list)
        for m in muts:
            by_pos[m.pos].append(m.op)
        for pos in sites:
            if not gene.has_coverage(major, pos):
                continue
            ops = by_pos.get(pos, [])
            non_ins = [o for o in ops if not o.startswith("ins")]
            for o in ops:
                if o.startswith("ins"):
                    table[pos][o] += depth
            if non_ins:
                table[pos][non_ins[0]] += depth
            else:
                table[pos]["_"] += depth
    return {p: dict(v) for p, v in table.items()}


def perturb(rng, table, level=0.3, drop=0.0, spurious=0.0, gene=None):
    """Multiplicative noise on every count; optionally drop an op / add a spurious op."""
    out = {}
    for pos, ops in table.items():
        out[pos] = {}
        for op, n in ops.items():
            if drop and rng.random() < drop:
                continue
            f = 1.0 + rng.uniform(-level, level)
            out[pos][op] = max(0, int(round(n * f)))
        if spurious and rng.random() < spurious:
            ref = gene[pos] if gene is not None else "A"
            alt = rng.choice([b for b in "ACGT" if b != ref])
            out[pos][f"{ref}>{alt}"] = rng.randint(1, 6)
    return out


class FakeSam:
    """Stands for the Sample a Coverage belongs to: only what the stages read (phase records, fusion counter)."""

    def __init__(self, phases):
        self.phases = phases
        self._fusion_counter = {}
        self.name = "verif"
        self.is_long_read = False


def plant_phases(rng, gene, bag_variants, sites, per_copy=12, noise=0.0, majors=None):
    """Fragment phase records {name: {pos: op}} for haplotype copies carrying `bag_variants[k]`:
    each fragment covers 1-4 neighbouring catalogued sites and shows the copy's allele there.
    majors[k] = the copy's major allele: a fused copy yields no observation (not even a reference one) at a
    site of a region it does not retain - its reads align to the pseudogene there."""
    all_sites = sorted(sites)
    out = {}
    if len(all_sites) < 2:
        return out
    for k, vs in enumerate(bag_variants):
        by = {m.pos: m.op for m in vs}
        sites = [p for p in all_sites if majors is None or gene.has_coverage(majors[k], p)]
        for f in range(per_copy):
            if not sites:
                break
            i = rng.randrange(len(sites))
            w = sites[i : i + rng.choice([1, 2, 2, 3, 4])]
            rec = {p: by.get(p, "_") for p in w}
            if noise and rng.random() < noise:
                p = rng.choice(w)
                rec[p] = "_" if rec[p] != "_" else rng.choice(["A>C", "G>T", "_"])
            out[f"c{k}f{f}"] = rec
    return out


def make_coverage(gene, profile, table, low=None, indels=None, extra=None, sam=None):
    """table: {pos: {op: n_good}}, low: {pos: {op: (n_lowbase, n_lowmap)}},
    extra: {pos: {op: [(mapq, baseq), ...]}} arbitrary observations."""
    from aldy.coverage import Coverage

    cov = collections.defaultdict(dict)
    for pos, ops in table.items():
        for op, n in ops.items():
            cov[pos][op] = [GOOD] * n
    for pos, ops in (low or {}).items():
        for op, (nb, nm) in ops.items():
            cov[pos].setdefault(op, [])
            cov[pos][op] = cov[pos][op] + [LOW_BASE] * nb + [LOW_MAP] * nm
    for pos, ops in (extra or {}).items():
        for op, quals in ops.items():
            cov[pos].setdefault(op, [])
            cov[pos][op] = cov[pos][op] + [tuple(q) for q in quals]
    return Coverage(gene, profile, sam, dict(cov), indels, {})


def realistic_indels(table):
    """The form real pileups have: a catalogued deletion/insertion is counted in the indel
    support table (reads without, reads with); the pileup itself holds "-" observations on the
    deleted bases and no insertion entries.  Returns (table2, indel_table)."""
    t2, ind = {}, {}
    for pos, ops in table.items():
        t2[pos] = {}
        depth = sum(n for o, n in ops.items() if not o.startswith("ins"))
        for o, n in ops.items():
            if o.startswith("del") and "ins" not in o:
                ind[pos, o] = (max(0, depth - n), n)
                t2[pos]["-"] = t2[pos].get("-", 0) + n
            elif o.startswith("ins"):
                ind[pos, o] = (max(0, depth - n), n)
            else:
                t2[pos][o] = t2[pos].get(o, 0) + n
    return t2, (ind or None)
