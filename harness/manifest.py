"""Generates /verif/MANIFEST.json from the table below:  /venv/bin/python -m harness.manifest"""
import json
import os

VERIF = os.path.dirname(os.path.dirname(os.path.abspath(__file__)))

CHECKS = {
    "C05": dict(
        technique="TLC exhaustive model checking of ILPEnum.tla + trace validation of real lpinterface runs (ILPEnumTrace.tla) + replay of TLC-emitted helper cases",
        text="TLC explores every model over 3 binaries/objective 0..2 with every solver tie-break against the 8 enumeration invariants and termination; "
        "recorded yields of the real enumeration loop on random aldy-shaped models are replayed as ILPEnum steps with feasible set/objective recomputed inside TLC; "
        "the two linearisation helpers are checked exhaustively for 1-4 terms through the real API.",
        design_ref="DESIGN.md §4 C05",
        note="Trusted: TLC, the model builder in harness/checks/c05.py, CBC as shipped. Independent-solver (SCIP/HiGHS) comparison and global optimality of "
        "the large models built for shipped samples are outside this technique (DESIGN §5).",
        engine="ILPEnum",
    ),
}

ENGINES = [
    dict(name="ILPEnum", path="spec/ILPEnum.tla", serves_properties=["C05"], kind_free_text="TLA+ spec of lpinterface.solutions(); mc/MC_ILPEnum, trace/ILPEnumTrace"),
    dict(name="Linearise", path="spec/Linearise.tla", serves_properties=["C05"], kind_free_text="TLA+ constant-level spec of prod/abssum helpers + case emitter"),
]

ALL = [f"C{i:02d}" for i in range(1, 20)]


def build():
    checks = []
    for pid in sorted(CHECKS):
        c = CHECKS[pid]
        checks.append(
            {
                "property_id": pid,
                "quick_cmd": f"bin/check {pid} quick",
                "thorough_cmd": f"bin/check {pid} thorough",
                "evidence_file": f"evidence/{pid}.json",
                "replay_cmd_template": f"bin/check {pid} --replay {{path}}",
                "engine": c.get("engine", ""),
                "level_claimed": {"category": "model_checking", "text": c["text"], "design_ref": c["design_ref"]},
                "level_note": c["note"],
                "technique": c["technique"],
            }
        )
    na = [
        {"property_id": p, "reason": "check not built yet in this round (planned, see DESIGN.md §7); not claimed until it is"}
        for p in ALL
        if p not in CHECKS
    ]
    return {
        "version": 1,
        "setup_cmd": "bin/setup",
        "hooks": {
            "guard": "ALDY_VERIF",
            "enable": "checks export ALDY_VERIF=1 (bin/check); aldy is imported from /repo's working tree (editable install), Cython parts rebuilt by harness/aldyenv.py when stale",
            "baseline_off_cmd": "cd /repo && env -u ALDY_VERIF /venv/bin/python -m pytest -ra -q -p no:cacheprovider --timeout=900",
            "source_commits": [],
            "add_only": True,
        },
        "engines": ENGINES,
        "checks": checks,
        "not_applicable": na,
        "notes": "Single entry point bin/check <ID> <quick|thorough|--replay path>. Known findings: known_findings.json. Design: DESIGN.md.",
    }


if __name__ == "__main__":
    with open(os.path.join(VERIF, "MANIFEST.json"), "w") as f:
        json.dump(build(), f, indent=1)
    print("MANIFEST.json written:", len(build()["checks"]), "checks")
