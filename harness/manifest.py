"""Generates /verif/MANIFEST.json from the table below:  /venv/bin/python -m harness.manifest"""
import json
import os

VERIF = os.path.dirname(os.path.dirname(os.path.abspath(__file__)))

CHECKS = {
    "C17": dict(
        technique="TLA+ spec of the debug-dump round trip (DumpReplay.tla: Snapshot/Restore, Reads(stage)); TLC exhaustive (MC_DumpReplay incl. dropped-component and hazard configs); DumpTrace.tla validation of real runs: the archive is produced by the real CLI --debug path and then genotyped again",
        text="TLC shows that SameResult follows from RestoreIsSnapshotInverse and that omitting any dump component changes a result; for simulated samples (indels, structures, several solutions, parameters, profile options, multi-gene archives) and NA10860 (thorough) the evidence restored from the real archive is compared field by field with the evidence of the original run and the two results/outputs are compared.",
        design_ref="DESIGN.md §4 C17",
        note="Trusted: TLC, harness/gen_reads.py, harness/pipeline.py. Stage purity is assumed (supported by C14). Long-read fusion counter restoration is compared but never exercised.",
        engine="DumpReplay",
    ),
    "C06": dict(
        technique="TLA+ spec of the pileup with an operational (CIGAR walk, one action per operation) and a declarative (spans) definition related by TLC (Pileup.tla, MC_Pileup); TLC-emitted read pool written to real BAMs and loaded by the real Sample / fed to _parse_read; PileupTrace.tla validation of random read sets and NA10860 windows",
        text="TLC proves operational = declarative, depth conservation, order independence, split invariance, phase-record soundness and quality keeping for every CIGAR of up to 3-4 operations over {M,I,D,S,H,=,X}, flags and 2-3 reads in every order; the real Coverage table, totals, phases and eligibility for the same reads and for random read sets on both strands (plus NA10860 windows) are validated against the spec.",
        design_ref="DESIGN.md §4 C06",
        note="Trusted: TLC, harness/gen_reads.py (BAM writer). The comparison with htslib's own pileup is replaced by the spec's declarative spans. N/P CIGAR operations, CRAM and long-read remapping are out of scope.",
        engine="Pileup",
    ),
    "C07": dict(
        technique="TLA+ spec of depth normalisation over read sets (Depth.tla, MC_Depth: scale invariance, gene linearity, self-profile = 2, empty neutral region rejected); DepthTrace.tla validation of families of simulated BAMs (R, Dup(k,R), gene-only multiples) with BAM and YAML profiles",
        text="TLC checks the algebraic invariants on every small read multiset; families of real runs (sample, k-fold duplicates, gene-only multiples, self-profile, custom / empty neutral regions, profile from BAM or from the YAML written by the profile command) are validated: recorded region sums, neutral sums, profile values and normalised depths equal the spec's Norm and satisfy the relations between runs.",
        design_ref="DESIGN.md §4 C07",
        note="Trusted: TLC, harness/gen_reads.py. 'Structure does not depend on depth' is checked as equality of estimate_cn between R and Dup(k,R); optimality of that structure is C03.",
        engine="Depth",
    ),
    "C08": dict(
        technique="TLA+ spec of the coordinate maps and per-kind strand conversion (Coords.tla); TLC exhaustive check of the sequence-level theorem (MC_Coords); TLC-emitted cases replayed into the real Gene loader; CoordsTrace.tla validation of every shipped variant x build and of generated databases, incl. the anchors handed to indelpost / long-read keys",
        text="TLC proves on all short sequences/alignment strings/variants that applying the loaded variant to the genome-oriented reference equals applying the written variant to RefSeq; the same theorem, reference-allele match, map inverse, notation round trip and insertion-anchor agreement are validated by TLC for all 4,620 shipped (variant, build) pairs and thousands of generated databases loaded by the real code.",
        design_ref="DESIGN.md §4 C08",
        note="Trusted: TLC, harness/gen_db.py (generator + independent YAML reader + projection). Variants touching an alignment gap are undecided (none in shipped data).",
        engine="Coords",
    ),
    "C09": dict(
        technique="TLA+ state machine of the catalogue loader (CatalogueBuild.tla: ReadAlleles, BuildConfigs, GroupMajors, BuildPartials, DedupMinors); TLC exhaustive over small allele tables (MC_Catalogue); replay of TLC tables into the real loader and CatalogueTrace.tla validation of all shipped databases x builds and hostile generated databases",
        text="The loader's phases are specified and model-checked against the catalogue invariants (reachable, majors distinct, core iff functional, minors distinct, config exists, partial keeps retained, build independent); the projected catalogue of the real Gene loader is validated by TLC against the invariants and against the spec's partition for shipped and generated hostile databases.",
        design_ref="DESIGN.md §4 C09",
        note="Trusted: TLC, harness/gen_db.py. Allele name strings are checked for uniqueness/resolvability only.",
        engine="CatalogueBuild",
    ),
    "C10": dict(
        technique="TLA+ state machine of genotype() over stage oracles (Pipeline.tla); TLC exhaustive (MC_Pipeline); trace validation (PipelineTrace.tla) of real genotype() runs whose stage returns are recorded and replayed as Pipeline actions; spec -> code replay: the stage-result universe of the model (gen/PipelineGen.tla) scripted into the real genotype() through stubbed stage oracles",
        text="Every recorded real run on simulated noisy samples is explained step by step by the spec's actions: structures processed best first, major scores carry the structure difference, the refinement receives exactly the within-gap candidates, minor scores carry the major difference and are rescaled, the report is exactly the argmin band, best first, chains consistent, errors mean no report. The same validation runs on 1,400 (quick) / 15,000 (thorough) of the 149,877 stage-result scripts of the MC universe executed by the real genotype() and estimate_minor with scripted stage oracles.",
        design_ref="DESIGN.md §4 C10",
        note="Trusted: TLC, harness/pipeline.py recorders, harness/gen_reads.py, harness/gen_db.py. Candidates within 3e-4 of a threshold are undecided.",
        engine="Pipeline",
    ),
    "C11": dict(
        technique="TLA+ spec of the diplotype heuristic as phase actions + the property as postconditions (Diplotype.tla); TLC exhaustive over all bags/orders of 0-6 alleles (MC_Diplotype); TLC-emitted universe and random bags run through the real estimate_diplotype and validated by DiplotypeTrace.tla against the postconditions",
        text="TLC checks the postconditions on the spec's own algorithm for every order of every small bag; ~22k (quick) real estimate_diplotype calls are validated against the same postconditions (each copy once, both haplotypes non-empty, deletion shown, names are majors, tandems adjacent, natural order, order-free for <= 2).",
        design_ref="DESIGN.md §4 C11",
        note="Trusted: TLC, harness/toygen.py. profile.display_format name rendering is not exercised.",
        engine="Diplotype",
    ),
    "C12": dict(
        technique="TLA+ spec of the writers and their parse-back (Output.tla); TLC exhaustive (MC_Output); TLC-emitted solution lists and random lists written by the real writers, parsed by a minimal TSV/VCF reader and validated by OutputTrace.tla",
        text="Parse-back identities are model-checked on the spec's writers; the text produced by the real write_decomposition / write_vcf / simple output for thousands of solution lists (added, lost, indel variants, differing solutions) is validated against Rows/GT/MA/MI/REF-ALT computed by the spec.",
        design_ref="DESIGN.md §4 C12",
        note="Trusted: TLC, the minimal file parser in harness/checks/c12.py. Two VCF-writer defects pinned by the recorded NA10860.vcf.expected are known findings.",
        engine="Output",
    ),
    "C16": dict(
        technique="TLA+ spec of VCF records -> evidence (VcfInput.tla); TLC exhaustive over all short records and genotypes (MC_VcfInput); every MC file written as a real tabix VCF and loaded by the real Sample, validated by VcfTrace.tla; shipped and generated catalogues written as standard VCF records incl. genotype() end to end",
        text="All small records x genotypes x pairs are model-checked against support-proportional / reference-reduced / ignored-are-no-ops / re-expression; the real loader's Coverage for the same files and for every catalogued allele of shipped/generated genes is validated by TLC, including the final call reference/allele.",
        design_ref="DESIGN.md §4 C16",
        note="Trusted: TLC, harness VCF writer, harness/gen_db.py. Left-normalised equivalents of indels in repeats are not asserted.",
        engine="VcfInput",
    ),
    "C01": dict(
        technique="TLA+ spec of the planted-genotype contract (Planted.tla on top of CNModel: the precondition 'the planted structure is an optimal explanation of the recorded depths' is decided by TLC, then the reported solutions must contain the planted structure, major alleles and variant multiset); PlantedTrace.tla validation of real genotype() runs on error-free reads simulated from random catalogued genotypes; the same runs are validated as Pipeline behaviours by PipelineTrace.tla",
        text="Each case = a random admissible multiset of 1-4 catalogued alleles (default, fused, whole-gene deletion, extra copies; SNP/MNP/insertion/deletion alleles) of generated databases on + and - strand builds, simulated error-free as tiled reads, genotyped end to end by the real genotype(); TLC decides precondition and conclusion per run (ties are NA, never alarms) and rejects planted canaries.",
        design_ref="DESIGN.md §4 C01",
        note="Trusted: TLC, harness/gen_reads.py (cross-checked by C06/C07), harness/gen_db.py. Alleles defined by delXinsY or neutral multi-base substitutions are not planted (outside the property's variant kinds); one known finding (two catalogued indels within 25 bp on one haplotype).",
        engine="Planted",
    ),
    "C13": dict(
        technique="TLA+ spec of one abstract catalogue and one abstract evidence table transported to two genome builds of opposite strand and different offset (BuildIndep.tla instantiating CNModel/MajorModel/MinorModel per build); TLC exhaustive (MC_BuildIndep + hazard configs that must violate BuildFree); BuildTrace.tla validation of paired real runs (stage calls and genotype()) on both builds, every stage event also validated by CNTrace/MajorTrace/MinorTrace",
        text="TLC checks BuildFree / AnchorAgrees / RegionOrderIsGeneOrder over all small evidence tables of a catalogue mapped to + and - strand builds; families of real executions (RefSeq-level evidence placed on each build independently of aldy; simulated alignments against each build; shipped hg19/hg38 and generated opposite-strand databases) are validated pairwise: structures, major/minor alleles, scores and added/lost variants in RefSeq terms must coincide.",
        design_ref="DESIGN.md §4 C13",
        note="Trusted: TLC, harness/gen_db.py Mapper (independent transport), harness/gen_reads.py. Alignment-level minor scores with phasing on are UNDECIDED inside a stated band.",
        engine="BuildIndep",
    ),
    "C14": dict(
        technique="TLA+ spec of operation histories over a loaded database, evidence and a write-only debug store (History.tla: operations as pure functions); TLC exhaustive over histories of length <= 5 (MC_History + five hazard configs that must violate the named property); TLC-generated histories (HistoryGen) replayed into the real code (fresh processes with other hash seeds, multi-gene runs, accessors, writers, query) and validated by HistoryTrace.tla with deep digests after every operation",
        text="TLC checks Deterministic, DbUntouched, EvUntouched, MultiIsUnionOfSingles, RefinementIndependent, StoreIsWriteOnly and EqualsFreshLoad on all histories of 16 operations up to length 4-5; all spec-enumerated length-2 histories and sampled length 3-6 histories over simulated, synthetic and real-data worlds are executed against real aldy, every result compared with the first result of the same call and every live Gene/Coverage digested against a fresh load; candidate-list orderings/subsets for the minor stage.",
        design_ref="DESIGN.md §4 C14",
        note="Trusted: TLC, harness/c14_digest.py (hash-seed independent digests), harness/c14_world.py. Hash seeds 0-7 only; two by-design dependencies of the refinement on co-candidates are known findings.",
        engine="History",
    ),
    "C19": dict(
        technique="TLA+ state machine of the no-data guards over routes and output kinds (Guards.tla); TLC exhaustive (MC_Guards) incl. design-level counterexamples realised as BAMs; GuardsTrace.tla validation of real genotype() runs on simulated no-data samples",
        text="TLC explores guards x routes x outputs x facts; real runs on BAMs that avoid the locus, cover it below the minimum, cover only the pseudogene or avoid the neutral region (BAM profile, named profile, user structure; aldy/vcf/simple outputs; multi-gene) are validated against NoCallFromNoData, ErrorIsExplained, SimpleOutputEmptyLine, PseudogeneOnlyIsDeletion.",
        design_ref="DESIGN.md §4 C19",
        note="Trusted: TLC, harness/gen_reads.py, facts recomputed by the harness from the reads it wrote. Depths within 3% of the minimum are excluded.",
        engine="Guards",
    ),
    "C02": dict(
        technique="TLA+ semantic model of the major stage (MajorModel.tla + Filter.tla); TLC trace validation (MajorTrace.tla) brute-forcing every admissible allele multiset for each recorded real estimate_major call; encoding layer MajorEncoding.tla (refinement + per-constraint witnesses replayed into the code)",
        text="Every recorded call of the real estimate_major (planted/noisy evidence over the toy gene and shipped catalogues, rule-witness tables, gap 0/.1/.5) is validated by TLC against the "
        "property-level definition: filters and candidates recomputed from raw counts, all admissible multisets enumerated, score = fit error + penalties, optimal, complete within gap (exact ties included), no repeats, carried-xor-novel.",
        design_ref="DESIGN.md §4 C02",
        note="Trusted: TLC, harness/evidence.py (planting), harness/project.py (structural projection). Cases with > 5000 candidate multisets are skipped and counted. Fixed-point 1e-4 with explicit error band; filter ties (float dependent) are UNDECIDED.",
        engine="MajorModel",
    ),
    "C03": dict(
        technique="TLA+ semantic model of the structure stage (CNModel.tla, CNRoute.tla); TLC trace validation (CNTrace.tla, CNRouteTrace.tla) enumerating every explanation (slot pair x extra copies x pseudogene copies) for each recorded real solve_cn_model / estimate_cn call; encoding layer CNEncoding.tla (refinement + per-constraint witnesses replayed into the code)",
        text="Every recorded call of the real solve_cn_model on planted+noisy region depths (toy, CYP2A6, CYP2D6, GSTM1; M 3-6; gap 0/.1/.3; long-read fusion support; small cn_max) is validated by TLC: "
        "well-formedness, score = objective of the best explanation, optimality, within-gap, no repeat, unreported-contains-reported; user-supplied / default / male-X routes validated against CNRoute.",
        design_ref="DESIGN.md §4 C03",
        note="Trusted: TLC, harness/project.py. Fixed-point band ~5e-4 of the score is UNDECIDED.",
        engine="CNModel",
    ),
    "C04": dict(
        technique="TLA+ semantic model of the minor stage (MinorModel.tla); TLC trace validation (MinorTrace.tla) checking safety rules on every reported allele, score-is-objective (modulo the homozygous-fill post-processing) and, on enumerable universes, optimality over all admissible assignments; encoding layer MinorEncoding.tla (refinement + per-constraint witnesses replayed into the code)",
        text="Every recorded call of the real estimate_minor (toy gene: noisy tables, 1-3 copies, all assignments enumerated in TLC; shipped genes: noise-free pairs and rule-witness tables) is validated against the property-level rules "
        "(refines major, core kept, add only with copies and reads, carried has reads, one per site, supported is carried), the objective, optimality and reproduction of planted variants.",
        design_ref="DESIGN.md §4 C04",
        note="Trusted: TLC, harness/evidence.py, harness/project.py. Read-phase term not exercised by synthetic evidence; optimality on shipped-gene noisy instances is not enumerated.",
        engine="MinorModel",
    ),
    "C15": dict(
        technique="TLC exhaustive model checking of Filter.tla (MC_Filter: low-quality steps are stutter steps of the filtered view) + metamorphic trace validation (FilterTrace.tla) of real estimate_major/estimate_minor runs, each event also validated in full by MajorTrace/MinorTrace",
        text="TLC checks that AddLowQ/RemoveLowQ steps never change Passes/FCov/Obs for all small sites; families of real runs (base evidence, then random low-quality additions/removals/changes) are validated: results and scores identical, every reported variant passes the filters recomputed by the spec from logged raw evidence.",
        design_ref="DESIGN.md §4 C15",
        note="Trusted: TLC, harness/evidence.py, harness/project.py (good/low classification mirrors the documented thresholds).",
        engine="Filter",
    ),
    "C18": dict(
        technique="TLA+ spec of typed parameter update through three routes + round trip (Params.tla); TLC exhaustive (MC_Params) ; every emitted (route, parameter, spelling) transition replayed into the real code and validated by ParamsTrace.tla",
        text="All 5,556 spec-emitted cases (28 parameters x spellings x CLI/API/options routes, overrides, write-then-load) are executed against the real Profile / genotype() / main() paths and judged by ParamsTrace and by direct comparison.",
        design_ref="DESIGN.md §4 C18",
        note="Trusted: TLC, harness/checks/c18.py capture of the Profile object. Values the property does not pin (float for int parameter etc.) are marked unspecified and never alarm.",
        engine="Params",
    ),
    "C05": dict(
        technique="TLC exhaustive model checking of ILPEnum.tla + trace validation of real lpinterface runs (ILPEnumTrace.tla) + replay of TLC-emitted helper cases",
        text="TLC explores every model over 3 binaries/objective 0..2 with every solver tie-break against the 8 enumeration invariants and termination; "
        "recorded yields of the real enumeration loop on random aldy-shaped models are replayed as ILPEnum steps with feasible set/objective recomputed inside TLC; "
        "the two linearisation helpers are checked exhaustively for 1-4 terms through the real API.",
        design_ref="DESIGN.md §4 C05",
        note="Trusted: TLC, the model builder in harness/checks/c05.py, CBC as shipped. Independent-solver (SCIP/HiGHS) comparison and global optimality of "
        "the large models built for shipped samples are outside this technique (DESIGN §5).",
        engine="ILPEnum",
    ),
}

ENGINES = [
    dict(name="PscanInput", path="spec/PscanInput.tla", serves_properties=[], kind_free_text="EXTENSION beyond the listed properties (bin/check X01 quick|thorough, not a registered check): TLA+ spec of the Pharmacoscan probe-table input route (Sample._load_pscan), modelled on C16; mc/MC_PscanInput (+ hazard cfg), gen/PscanInputGen, trace/PscanTrace; five defects of that route recorded in known_findings.d/X01.json with proposed repairs in fixes/X01-*.diff (not applied: no listed property covers the route)"),
    dict(name="Planted", path="spec/Planted.tla", serves_properties=["C01"], kind_free_text="TLA+ planted-genotype contract over CNModel; trace/PlantedTrace (+ trace/PipelineTrace on the same runs)"),
    dict(name="BuildIndep", path="spec/BuildIndep.tla", serves_properties=["C13"], kind_free_text="TLA+ two-build transport of one abstract catalogue/evidence through the three stage models; mc/MC_BuildIndep (+ hazard and probe configs), trace/BuildTrace"),
    dict(name="History", path="spec/History.tla", serves_properties=["C14"], kind_free_text="TLA+ operation histories (purity, isolation, determinism); mc/MC_History (+ 5 hazard configs), gen/HistoryGen, trace/HistoryTrace"),
    dict(name="Aldy", path="spec/Aldy.tla", serves_properties=["C10", "C19"], kind_free_text="TLA+ composition of Guards and Pipeline by joint actions; mc/MC_Aldy (+ anti-vacuity configs), run by C10 thorough"),
    dict(name="DumpReplay", path="spec/DumpReplay.tla", serves_properties=["C17"], kind_free_text="TLA+ dump snapshot/restore; mc/MC_DumpReplay, trace/DumpTrace"),
    dict(name="Pileup", path="spec/Pileup.tla", serves_properties=["C06"], kind_free_text="TLA+ pileup (operational + declarative); PileupDefs, mc/MC_Pileup, gen/PileupGen, trace/PileupTrace"),
    dict(name="Depth", path="spec/Depth.tla", serves_properties=["C07"], kind_free_text="TLA+ depth normalisation; mc/MC_Depth, trace/DepthTrace"),
    dict(name="Coords", path="spec/Coords.tla", serves_properties=["C08"], kind_free_text="TLA+ coordinate maps / strand conversion; mc/MC_Coords, gen/CoordsGen, trace/CoordsTrace"),
    dict(name="CatalogueBuild", path="spec/CatalogueBuild.tla", serves_properties=["C09"], kind_free_text="TLA+ loader state machine; mc/MC_Catalogue, gen/CatalogueGen, trace/CatalogueTrace"),
    dict(name="Pipeline", path="spec/Pipeline.tla", serves_properties=["C10"], kind_free_text="TLA+ genotype() state machine; mc/MC_Pipeline, trace/PipelineTrace"),
    dict(name="Diplotype", path="spec/Diplotype.tla", serves_properties=["C11"], kind_free_text="TLA+ diplotype heuristic + postconditions; mc/MC_Diplotype, gen/DiplotypeGen, trace/DiplotypeTrace"),
    dict(name="Output", path="spec/Output.tla", serves_properties=["C12"], kind_free_text="TLA+ writers and parse-back; mc/MC_Output, gen/OutputGen, trace/OutputTrace"),
    dict(name="VcfInput", path="spec/VcfInput.tla", serves_properties=["C16"], kind_free_text="TLA+ VCF record -> evidence; mc/MC_VcfInput, gen/VcfInputGen, trace/VcfTrace"),
    dict(name="Guards", path="spec/Guards.tla", serves_properties=["C19"], kind_free_text="TLA+ no-data guards; mc/MC_Guards, trace/GuardsTrace"),
    dict(name="MajorModel", path="spec/MajorModel.tla", serves_properties=["C02", "C15"], kind_free_text="TLA+ semantic layer of major.py; trace/MajorTrace"),
    dict(name="Filter", path="spec/Filter.tla", serves_properties=["C15", "C02", "C04"], kind_free_text="TLA+ spec of the quality/threshold filters; mc/MC_Filter, trace/FilterTrace"),
    dict(name="CNModel", path="spec/CNModel.tla", serves_properties=["C03"], kind_free_text="TLA+ semantic layer of cn.py (+ CNRoute.tla); trace/CNTrace, trace/CNRouteTrace"),
    dict(name="MinorModel", path="spec/MinorModel.tla", serves_properties=["C04", "C15"], kind_free_text="TLA+ semantic layer of minor.py; trace/MinorTrace"),
    dict(name="MajorEncoding", path="spec/MajorEncoding.tla", serves_properties=["C02"], kind_free_text="TLA+ encoding layer of major.py (one operator per documented ILP constraint, switchable); mc/MC_MajorEncoding proves refinement of MajorModel and finds a distinguishing input per rule (witness/Major), replayed into estimate_major"),
    dict(name="CNEncoding", path="spec/CNEncoding.tla", serves_properties=["C03"], kind_free_text="TLA+ encoding layer of cn.py; mc/MC_CNEncoding refinement of CNModel + per-rule witnesses (witness/CN) replayed into solve_cn_model"),
    dict(name="MinorEncoding", path="spec/MinorEncoding.tla", serves_properties=["C04"], kind_free_text="TLA+ encoding layer of minor.py (incl. read-phase term); mc/MC_MinorEncoding refinement of MinorModel + per-rule witnesses (witness/Minor) replayed into estimate_minor"),
    dict(name="Params", path="spec/Params.tla", serves_properties=["C18"], kind_free_text="TLA+ spec of Profile.update and its routes; mc/MC_Params, gen/ParamsGen, trace/ParamsTrace"),
    dict(name="ILPEnum", path="spec/ILPEnum.tla", serves_properties=["C05"], kind_free_text="TLA+ spec of lpinterface.solutions(); mc/MC_ILPEnum, trace/ILPEnumTrace"),
    dict(name="Linearise", path="spec/Linearise.tla", serves_properties=["C05"], kind_free_text="TLA+ constant-level spec of prod/abssum helpers + case emitter"),
]

ALL = [f"C{i:02d}" for i in range(1, 20)]


def build():
    checks = []
    for pid in sorted(CHECKS):
        c = CHECKS[pid]
        checks.append(
            {
                "property_id": pid,
                "quick_cmd": f"bin/check {pid} quick",
                "thorough_cmd": f"bin/check {pid} thorough",
                "evidence_file": f"evidence/{pid}.json",
                "replay_cmd_template": f"bin/check {pid} --replay {{path}}",
                "engine": c.get("engine", ""),
                "level_claimed": {"category": "model_checking", "text": c["text"], "design_ref": c["design_ref"]},
                "level_note": c["note"],
                "technique": c["technique"],
            }
        )
    na = [
        {"property_id": p, "reason": "check not built yet in this round (planned, see DESIGN.md §7); not claimed until it is"}
        for p in ALL
        if p not in CHECKS
    ]
    return {
        "version": 1,
        "setup_cmd": "bin/setup",
        "hooks": {
            "guard": "ALDY_VERIF",
            "enable": "checks export ALDY_VERIF=1 (bin/check); aldy is imported from /repo's working tree (editable install), Cython parts rebuilt by harness/aldyenv.py when stale",
            "baseline_off_cmd": "cd /repo && env -u ALDY_VERIF /venv/bin/python -m pytest -ra -q -p no:cacheprovider --timeout=900",
            "source_commits": [],
            "add_only": True,
        },
        "engines": ENGINES,
        "checks": checks,
        "not_applicable": na,
        "notes": "Single entry point bin/check <ID> <quick|thorough|--replay path>. Known findings: known_findings.json + known_findings.d/*.json. Design: DESIGN.md. Extension (not a listed property): bin/check X01 (Pharmacoscan input route).",
    }


if __name__ == "__main__":
    with open(os.path.join(VERIF, "MANIFEST.json"), "w") as f:
        json.dump(build(), f, indent=1)
    print("MANIFEST.json written:", len(build()["checks"]), "checks")
