"""C19 -- no genotype is reported from no data.

Spec: spec/Guards.tla (one genotype() run restricted to the no-data guards, the structure
routes, the error path and the output file; semantic layer MustFail / NoCall / Explained /
SimpleLine / PseudoDel is the property, the action layer follows the code).
  MC  : spec/mc/MC_Guards_*.cfg -- exhaustive over facts x routes x output kinds x single/multi
        gene.  The code as shipped violates NoCallFromNoData on the user-structure route and
        SimpleOutputEmptyLine (design-level counterexamples, stored as witness inputs and replayed
        into the real code); with the three repairs switched on every invariant holds.
  (B) : BAMs written with harness/gen_reads.py over generated genes (toy_yaml both strands, with
        and without pseudogene; gen_db genes with pseudogene, both builds / strands) and one
        shipped gene at real coordinates (named profile): reads avoid the locus, lie only between
        gene and pseudogene, cover the locus below min_avg_coverage (and --param variations), cover
        only the pseudogene, avoid / barely touch the neutral region, or are a normal control.
        Each is run through the real aldy.genotype.genotype() (harness/pipeline.py) with a BAM as
        profile, a named profile, and a user-supplied structure, for the three output formats, and
        as multi-gene runs.  The facts are computed here from the reads that were written;
        spec/trace/GuardsTrace.tla judges every run with the property layer of Guards.
"""
import json
import os
import random
import re
import zlib

from .. import aldyenv, gen_db, gen_reads, par, pipeline, tlc
from ..core import MachineryError

READ_LEN = 60
OUTKINDS = ("aldy", "vcf", "simple")
WITNESS_DIR = os.path.join(tlc.VERIF, "witness", "Guards")

# scenario -> in quick tier?
SCENARIOS = {
    "empty": True, "nolocus": True, "spacer": True,
    "low-1.0": True, "low-1.2": False, "low-1.5": False, "low-1.875": True,
    "d4-min5": True, "d4-min3": True, "low1.5-min1": True, "all-low1.5-min1": False,
    "pseudo": True, "noneutral": True, "neutral-low": True,
    "normal": True, "variant": False,
}
LOW_STEP = {"1.0": 60, "1.2": 50, "1.5": 40, "1.875": 32}


# --------------------------------------------------------------------------- genes
def _workdir():
    d = os.path.join(tlc.scratch(), f"c19_{os.getpid()}")
    os.makedirs(d, exist_ok=True)
    return d


def spec_id(spec):
    return "/".join(f"{k}={spec[k]}" for k in sorted(spec))


def build_gene(spec):
    """-> (gene, gene_db argument for genotype(), genome, contig length)"""
    d = _workdir()
    if spec["kind"] == "toy":
        text, _ = gen_reads.toy_yaml(spec["s19"], spec["s38"], seed=spec["seed"], pseudogene=spec["pseudo"],
                                     name=spec.get("name", "TOYS"), gene_start=spec.get("gstart", 5001),
                                     pseudo_start=spec.get("pstart", 8001))
        path = os.path.join(d, f"{spec.get('name', 'TOYS').lower()}_{spec['seed']}_{int(spec['pseudo'])}_{'pm'[spec['s19'] == '-']}{'pm'[spec['s38'] == '-']}.yml")
        with open(path, "w") as f:
            f.write(text)
        return gen_reads.load_gene(path, spec["genome"]), path, spec["genome"], 20000
    if spec["kind"] == "db":
        db = gen_db.random_db(random.Random(spec["seed"]), pseudogene=True, deletion=True, name=f"GEN{spec['seed']}")
        path = os.path.join(d, f"gen{spec['seed']}.yml")
        gen_db.realise(db, path)
        return gen_db.load(path, spec["genome"]), path, spec["genome"], gen_db.contig_length(db, spec["genome"])
    raise ValueError(spec)


def gene_specs(rng, quick):
    specs = [
        {"kind": "toy", "s19": "+", "s38": "-", "seed": 1, "pseudo": True, "genome": "hg19"},
        {"kind": "toy", "s19": "+", "s38": "-", "seed": 2, "pseudo": True, "genome": "hg38"},
        {"kind": "toy", "s19": "-", "s38": "+", "seed": 3, "pseudo": False, "genome": "hg19"},
    ]
    n = 3 if quick else 24
    seeds = rng.sample(range(1000), n)
    for i, s in enumerate(seeds):
        specs.append({"kind": "db", "seed": s, "genome": ("hg19", "hg38")[i % 2]})
    if not quick:
        for s in range(4, 8):
            specs.append({"kind": "toy", "s19": rng.choice("+-"), "s38": rng.choice("+-"), "seed": s, "pseudo": s % 2 == 0,
                          "genome": rng.choice(["hg19", "hg38"])})
    return specs


# --------------------------------------------------------------------------- reads
def _copy(intervals):
    return gen_reads.Copy([gen_reads.Segment(a, b, []) for a, b in intervals if b > a], "plain", False, [])


def uniform(ctg, intervals, depth_per_copy, prefix, rng, read_len=READ_LEN, copies=2):
    """`copies` reference copies tiled at integer depth over the intervals (gen_reads.tile)."""
    out = []
    for c in range(copies):
        out += gen_reads.tile(_copy(intervals), ctg, read_len, depth_per_copy, prefix=f"{prefix}{c}", offset=rng.randrange(read_len))
    return out


def sparse(ctg, a, b, step, prefix, read_len=READ_LEN):
    """Reads of read_len every `step` bases inside [a, b): depth read_len/step over what they cover."""
    out = []
    for k, s in enumerate(range(a, b, step)):
        e = min(s + read_len, b)
        if e - s >= 20:
            out.append(gen_reads.Read(f"{prefix}.{k}", s, [(0, e - s)], ctg[s:e], [40] * (e - s), 60, 0))
    return out


def minus(intervals, holes):
    out = []
    for a, b in intervals:
        cur = a
        for ha, hb in sorted(holes):
            if hb <= cur or ha >= b:
                continue
            if ha > cur:
                out.append((cur, ha))
            cur = max(cur, hb)
        if cur < b:
            out.append((cur, b))
    return out


def layout(gene, contig_len):
    w = gene.get_wide_region()
    blocks = []
    for g, d in enumerate(gene.regions):
        iv = [(r.start, r.end) for r in d.values() if r.end > r.start]
        blocks.append((min(a for a, _ in iv), max(b for _, b in iv)))
    spacer = None
    if len(blocks) > 1:
        lo, hi = sorted(blocks)
        if hi[0] - lo[1] >= 100:
            spacer = (lo[1] + 8, hi[0] - 8)
    return {"S": w.start, "E": w.end, "blocks": blocks, "spacer": spacer, "pad": 300}


def scenario_reads(name, gene, ctg, L, cnr, rng, depth):
    """-> (reads, params) or None when the scenario does not exist for this gene."""
    lay = layout(gene, L)
    S, E, pad = lay["S"], lay["E"], lay["pad"]
    whole = [(50, L - 50)]
    locus = (max(50, S - pad), min(L - 50, E + pad))
    far = minus(whole, [locus])
    neutral_hole = (cnr.start - 250, cnr.end + 250)
    params = {}
    dele = gene.deletion_allele()
    if name == "empty":
        a = 50 if S - pad > 900 and cnr.start > 900 else None
        if a is None:
            # a corner that is neither locus nor neutral
            cands = minus(whole, [locus, neutral_hole])
            cands = [c for c in cands if c[1] - c[0] >= 400]
            if not cands:
                return None
            a = cands[-1][0] + 20
        return uniform(ctg, [(a, a + 300)], depth, "e", rng), params
    if name == "nolocus":
        return uniform(ctg, far, depth, "f", rng), params
    if name == "spacer":
        if not lay["spacer"]:
            return None
        reads = uniform(ctg, far, depth, "f", rng)
        a, b = lay["spacer"]
        reads += uniform(ctg, [(a, b)], depth, "s", rng, read_len=30 if b - a < 200 else READ_LEN)
        return reads, params
    if name.startswith("low-"):
        reads = uniform(ctg, far, depth, "f", rng)
        return reads + sparse(ctg, locus[0], locus[1], LOW_STEP[name[4:]], "l"), params
    if name in ("d4-min5", "d4-min3"):
        reads = uniform(ctg, far, depth, "f", rng) + uniform(ctg, [locus], 2, "l", rng)
        params["min_avg_coverage"] = 5.0 if name == "d4-min5" else 3.0
        return reads, params
    if name == "low1.5-min1":
        reads = uniform(ctg, far, depth, "f", rng) + sparse(ctg, locus[0], locus[1], 40, "l")
        params["min_avg_coverage"] = 1.0
        return reads, params
    if name == "all-low1.5-min1":
        params["min_avg_coverage"] = 1.0
        return sparse(ctg, 50, L - 50, 40, "a"), params
    if name == "pseudo":
        if len(gene.regions) < 2 or not dele:
            return None
        reads = []
        for i in range(2):
            c = gen_reads.haplotype(gene, ctg, dele, (), background=True, contig_len=L)
            reads += gen_reads.tile(c, ctg, READ_LEN, depth, prefix=f"p{i}", offset=rng.randrange(READ_LEN))
        return reads, params
    if name == "noneutral":
        return uniform(ctg, minus(whole, [neutral_hole]), depth, "g", rng), params
    if name == "neutral-low":
        reads = uniform(ctg, minus(whole, [neutral_hole]), depth, "g", rng)
        return reads + sparse(ctg, neutral_hole[0] + 30, neutral_hole[1] - 30, 60, "n"), params
    if name in ("normal", "variant"):
        vs = ()
        if name == "variant":
            names = [a for a in sorted(gene.alleles) if gene.alleles[a].cn_config == "1" and gene.alleles[a].func_muts]
            if not names:
                return None
            vs = gen_reads.allele_variants(gene, rng.choice(names))
        reads = []
        for i, v in enumerate((vs, ())):
            c = gen_reads.haplotype(gene, ctg, "1", v, background=True, contig_len=L)
            reads += gen_reads.tile(c, ctg, READ_LEN, depth, prefix=f"h{i}", offset=rng.randrange(READ_LEN))
        return reads, params
    raise ValueError(name)


# --------------------------------------------------------------------------- facts (independent of aldy)
_ALIGNED = (0, 2, 7, 8)  # M D = X: what Coverage.total() counts at a position


def compute_facts(gene, reads, cnr, min_avg):
    """Facts of an alignment file, from the reads written into it.

    eligible read  : has a CIGAR and a sequence, not supplementary, not hard-clipped, on the gene's contig
                     (sam.py:164-175) and touching the wide region (sam._in_region: start <= E and end >= S)
    locusReads     : eligible reads overlapping a gene or pseudogene region
    covSum, covN   : aligned bases of the eligible reads / number of distinct positions they cover
                     (coverage.average_coverage() = covSum / (covN + 0.1))
    neutral*       : reads touching the neutral region (sam._load_cn_region), their aligned bases
                     (coverage.diploid_avg_coverage sums all of them), the bases inside the region
    """
    w = gene.get_wide_region()
    S, E = w.start, w.end
    regs = [(g, a, b) for g, _, a, b in gen_reads.region_intervals(gene)]
    depth = {}
    f = {"locusReads": 0, "geneReads": 0, "pseudoReads": 0, "covSum": 0, "neutralReads": 0, "neutralBases": 0, "neutralIn": 0,
         "neutralLen": cnr.end - cnr.start, "eligible": 0}
    for r in reads:
        ctg_name = r.contig or gene.chr
        if not r.cigar or (r.flag & 0x800):
            continue
        a, b = r.start, r.end()
        if ctg_name == cnr.chr and a <= cnr.end and b >= cnr.start:
            pos = a
            touched = False
            for op, n in r.cigar:
                if op in _ALIGNED:
                    f["neutralBases"] += n
                    f["neutralIn"] += max(0, min(pos + n, cnr.end) - max(pos, cnr.start))
                    pos += n
                    touched = True
                elif op == 3:
                    pos += n
            f["neutralReads"] += touched and a < cnr.end and b > cnr.start
        if ctg_name != gene.chr or not r.seq or any(op == 5 for op, _ in r.cigar):
            continue
        if not (a <= E and b >= S):
            continue
        f["eligible"] += 1
        pos = a
        for op, n in r.cigar:
            if op in _ALIGNED:
                for p in range(pos, pos + n):
                    depth[p] = depth.get(p, 0) + 1
                f["covSum"] += n
                pos += n
            elif op == 3:
                pos += n
        hit = {g for g, ra, rb in regs if a < rb and b > ra}
        f["locusReads"] += bool(hit)
        f["geneReads"] += 0 in hit
        f["pseudoReads"] += bool(hit - {0})
    f["covN"] = len(depth)
    pl = pb = pc = 0
    for g, ra, rb in regs:
        if g == 0:
            continue
        for p in range(ra, rb):
            pl += 1
            pb += depth.get(p, 0)
            pc += p in depth
    f.update(pseudoLen=pl, pseudoBases=pb, pseudoCovered=pc, minCenti=int(round(min_avg * 100)))
    f["avg"] = round(f["covSum"] / (f["covN"] + 0.1), 4)
    f["neutralDepth"] = round(f["neutralBases"] / max(1, f["neutralLen"]), 3)
    f = {k: int(v) if isinstance(v, bool) else v for k, v in f.items()}
    return f


def classify(f, route):
    if f["locusReads"] == 0:
        locus = "locus-empty" if f["covN"] == 0 else "locus-empty-spacer-only"
    elif f["avg"] < f["minCenti"] / 100.0:
        locus = "avg-below-min"
    elif f["geneReads"] == 0:
        locus = "pseudo-only"
    else:
        locus = "ok"
    if route == "user-structure":
        neutral = "unused"
    elif f["neutralReads"] == 0:
        neutral = "empty"
    elif f["neutralBases"] < 2 * f["neutralLen"]:
        neutral = "low"
    else:
        neutral = "ok"
    return locus, neutral


def margin_ok(f):
    """Cases whose average depth is within 3% of the threshold are not generated on purpose; a case that
    ends up there (edge effects) is dropped instead of being judged on a rounding difference."""
    m = f["minCenti"] / 100.0
    return f["covN"] == 0 or abs(f["avg"] - m) > 0.03 * m


# --------------------------------------------------------------------------- running the real code
def _dip_tokens(text):
    return re.findall(r"\*([^\s+/\[\]()]+)", text or "")


def project_output(kind, text, sample, gene_name):
    """-> (calls, lines, terminated): star-allele calls found in the output; for the simple format the
    tab-separated fields of the lines that belong to this gene (or that cannot be attributed)."""
    if kind == "aldy":
        return sum(1 for ln in text.splitlines() if ln.startswith("#Solution") or (ln and not ln.startswith("#"))), [], True
    if kind == "vcf":
        return sum(1 for ln in text.splitlines() if ln.startswith("#CHROM") or (ln and not ln.startswith("#"))), [], True
    terminated = text == "" or text.endswith("\n")
    raw = text.split("\n")
    if raw and raw[-1] == "":
        raw = raw[:-1]
    lines = []
    for i, ln in enumerate(raw):
        fs = ln.split("\t")
        mine = len(fs) >= 2 and fs[1] == gene_name
        foreign = len(fs) >= 2 and fs[0] == sample and fs[1] != gene_name and gene_name not in fs
        if mine or not foreign:
            lines.append((fs, i == len(raw) - 1))
    term = all((not last) or terminated for _, last in lines) if lines else True
    calls = sum(1 for fs, _ in lines for x in fs[2:] if x != "")
    return calls, [fs for fs, _ in lines], bool(term)


def outcome_row(kind, res, gene_name, sample, multi=False, logged=False, objs=None):
    if objs is None:
        objs = res["result_objs"] or []
    sols = []
    for s in objs:
        snap = pipeline.minor_snap(s)
        sols.append({"alleles": [c["major"] for c in snap["copies"]], "cn": list(snap["major"][2]),
                     "dip": _dip_tokens(snap["major_diplotype"]), "diplotype": snap["major_diplotype"]})
    calls, lines, term = project_output(kind, res["output"], sample, gene_name)
    err = res["error_type"]
    return {
        "err": err, "msg": bool(res["error"].strip()) if err else False,
        "raised": bool(err) and not multi, "logged": bool(logged),
        "nres": len(sols), "sols": [{k: v for k, v in s.items() if k != "diplotype"} for s in sols],
        "calls": calls, "lines": lines, "terminated": term, "sample": sample, "gene": gene_name,
    }, {"message": res["error"][:300], "diplotypes": [s["diplotype"] for s in sols], "output": res["output"][:600]}


def raised_in(res):
    evs = res["events"]
    if not evs:
        return "before-stages"
    last = evs[-1]
    return last["k"] if last.get("err") else "after-" + last["k"]


def run_case(gene_db, genome, bam, route, outkind, params, profile_bam, cnr, profile_name=None):
    kw = dict(params)
    kw["genome"] = genome
    if route == "bam-profile":
        prof, kw["cn_region"] = profile_bam, cnr
    elif route == "profile":
        prof = profile_name
    elif route == "user-structure":
        prof, kw["cn_solution"] = None, ["1", "1"]
    elif route == "user-structure+profile":
        prof, kw["cn_region"], kw["cn_solution"] = profile_bam, cnr, ["1", "1"]
    else:
        raise ValueError(route)
    with aldyenv.quiet_stderr():
        return pipeline.run_genotype(gene_db, bam, prof, out_name="x." + outkind, **kw)


def _spec_route(route):
    return "user-structure" if route.startswith("user-structure") else route


def _scenario_task(task):
    """One (gene, scenario): write the BAMs, run every route x output kind. -> list of (row, meta)."""
    spec, scen, seed, routes, depth = task
    gene, gene_db, genome, L = build_gene(spec)
    grng = random.Random(f"c19/{spec_id(spec)}")
    ctg = gen_reads.contig(gene, L, grng)
    try:
        cnr = gen_reads.default_neutral(gene, L)
    except AssertionError:
        return []
    d = _workdir()
    tag = f"{zlib.crc32(spec_id(spec).encode()) % 10**8}_{scen.replace('.', '_')}_{seed}"
    rng = random.Random(f"c19/{spec_id(spec)}/{scen}/{seed}")
    sr = scenario_reads(scen, gene, ctg, L, cnr, rng, depth)
    if sr is None:
        return []
    reads, params = sr
    bam = os.path.join(d, f"s{tag}.bam")
    gen_reads.write_bam(bam, gene.chr, L, reads)
    pbam = os.path.join(d, f"p{tag}.bam")
    gen_reads.write_bam(pbam, gene.chr, L, uniform(ctg, [(50, L - 50)], depth, "pr", random.Random(1)))
    from aldy.profile import Profile

    min_avg = params.get("min_avg_coverage", Profile("x").min_avg_coverage)
    facts = compute_facts(gene, reads, cnr, min_avg)
    out = []
    if not margin_ok(facts):
        return out
    sample = os.path.basename(bam).split(".")[0]
    for route in routes:
        for outkind in OUTKINDS:
            res = run_case(gene_db, genome, bam, route, outkind, params, pbam, cnr)
            orow, extra = outcome_row(outkind, res, gene.name, sample)
            row = {"input": "alignment", "route": _spec_route(route), "outkind": outkind, "multi": False, "delName": gene.deletion_allele() or ""}
            row.update({k: v for k, v in facts.items() if k not in ("avg", "neutralDepth", "eligible")})
            row.update(orow)
            meta = {"case": {"spec": spec, "scenario": scen, "seed": seed, "route": route, "outkind": outkind, "depth": depth},
                    "params": params, "facts": facts, "raised_in": raised_in(res), "observed": extra, "cn_region": str(cnr),
                    "layout": layout(gene, L)}
            out.append((row, meta))
    for p in (bam, bam + ".bai", pbam, pbam + ".bai"):
        try:
            os.unlink(p)
        except OSError:
            pass
    return out


# --------------------------------------------------------------------------- named profile, real coordinates
NAMED_GENE = "cyp2w1"          # chr7:1,017,834-1,031,276 (hg19): the shipped gene with the smallest coordinates
NAMED_SCEN = ("nolocus", "low-1.0", "low-1.875", "noneutral", "neutral-low", "normal")


def _named_task(task):
    """Shipped gene by NAME + named profile ("wgs" -> illumina; default neutral region CYP2D8 on chr22)."""
    scen, seed, profile_name = task
    from aldy.common import GRange
    from aldy.gene import Gene
    from aldy.profile import Profile
    from .. import genes

    gene = Gene(os.path.join(genes.genes_dir(), NAMED_GENE + ".yml"), genome="hg19")
    prof = Profile.load(gene, "illumina", None)
    cnr = GRange(prof.cn_region.chr, prof.cn_region.start, prof.cn_region.end)
    w = gene.get_wide_region()
    L = w.end + 3000
    s, e = gene._lookup_range
    ctg = "A" * s + gene._lookup_seq.replace("N", "A") + "A" * (L - e)
    rng = random.Random(f"c19/named/{scen}/{seed}")
    locus = (w.start - 300, w.end + 300)
    reads = []
    if scen == "nolocus":
        reads += uniform(ctg, [(w.start - 2500, w.start - 700), (w.end + 700, w.end + 2500)], 10, "f", rng, read_len=100)
    elif scen.startswith("low-"):
        reads += sparse(ctg, locus[0], locus[1], {"1.0": 60, "1.875": 32}[scen[4:]], "l")
    else:
        reads += uniform(ctg, [locus], 10, "g", rng, read_len=100)

    def nread(k, a, n):
        return gen_reads.Read(f"n{k}", a, [(0, n)], "A" * n, [40] * n, 60, 0, contig=cnr.chr)

    if scen == "neutral-low":
        reads += [nread(k, a, 60) for k, a in enumerate(range(cnr.start - 100, cnr.end + 100, 60))]
    elif scen != "noneutral":
        reads += [nread(k, a, 100) for k, a in enumerate(range(cnr.start - 200, cnr.end + 100, 5))]
    d = _workdir()
    bam = os.path.join(d, f"named_{scen.replace('.', '_').replace('-', '_')}_{seed}.bam")
    gen_reads.write_bam(bam, gene.chr, L, reads, extra_contigs=[(cnr.chr, cnr.end + 5000)])
    facts = compute_facts(gene, reads, cnr, prof.min_avg_coverage)
    out = []
    if not margin_ok(facts):
        return out
    sample = os.path.basename(bam).split(".")[0]
    for outkind in OUTKINDS:
        res = run_case(NAMED_GENE, "hg19", bam, "profile", outkind, {}, None, None, profile_name=profile_name)
        orow, extra = outcome_row(outkind, res, gene.name, sample)
        row = {"input": "alignment", "route": "profile", "outkind": outkind, "multi": False, "delName": gene.deletion_allele() or ""}
        row.update({k: v for k, v in facts.items() if k not in ("avg", "neutralDepth", "eligible")})
        row.update(orow)
        meta = {"case": {"named": True, "scenario": scen, "seed": seed, "route": "profile", "outkind": outkind, "profile": profile_name},
                "params": {}, "facts": facts, "raised_in": raised_in(res), "observed": extra, "cn_region": str(cnr)}
        out.append((row, meta))
    os.unlink(bam)
    os.unlink(bam + ".bai")
    return out


# --------------------------------------------------------------------------- multi-gene runs
MULTI_SPECS = (
    {"kind": "toy", "s19": "+", "s38": "-", "seed": 1, "pseudo": True, "genome": "hg19", "name": "TOYS", "gstart": 5001, "pstart": 8001},
    {"kind": "toy", "s19": "-", "s38": "+", "seed": 2, "pseudo": True, "genome": "hg19", "name": "TOYB", "gstart": 11001, "pstart": 14001},
)


def _multi_task(task):
    """genotype("a.yml,b.yml", ...): gene k of the pair has no read (which = 0 | 1 | 2 = both covered)."""
    which, route, outkind, seed = task
    import logbook
    from aldy.common import GRange

    L = 20000
    built = [build_gene(s) for s in MULTI_SPECS]
    genes_ = [b[0] for b in built]
    rng = random.Random(f"c19/multi/{which}/{seed}")
    ca = gen_reads.contig(genes_[0], L, random.Random(11))
    cb = gen_reads.contig(genes_[1], L, random.Random(12))
    ctg = ca[:10000] + cb[10000:]
    cnr = GRange("20", 18400, 18800)
    holes = []
    if which in (0, 1):
        w = genes_[which].get_wide_region()
        holes.append((w.start - 300, w.end + 300))
    reads = uniform(ctg, minus([(50, L - 50)], holes), 10, "m", rng)
    d = _workdir()
    bam = os.path.join(d, f"multi{which}_{route.replace('-', '')}_{outkind}_{seed}.bam")
    pbam = os.path.join(d, f"multip{which}_{route.replace('-', '')}_{outkind}_{seed}.bam")
    gen_reads.write_bam(bam, "20", L, reads)
    gen_reads.write_bam(pbam, "20", L, uniform(ctg, [(50, L - 50)], 10, "pr", random.Random(1)))
    handler = logbook.TestHandler()
    with handler.applicationbound():
        res = run_case(",".join(b[1] for b in built), "hg19", bam, route, outkind, {}, pbam, cnr)
    sample = os.path.basename(bam).split(".")[0]
    out = []
    for k, gene in enumerate(genes_):
        facts = compute_facts(gene, reads, cnr, 2.0)
        objs = [s for s in (res["result_objs"] or []) if s.major_solution.cn_solution.gene.name == gene.name]
        msgs = [r.message for r in handler.records if r.level >= logbook.WARNING and gene.name.upper() in str(r.message).upper()]
        failed = [m for m in msgs if "FAIL" in m.upper() or "ERROR" in m.upper()]
        # the error of the run as a whole (if any) is not this gene's; per gene: no result + a logged failure
        sub = dict(res)
        sub["error_type"] = res["error_type"] or ("AldyException" if failed and not objs else "")
        sub["error"] = res["error"] or " ".join(failed)
        next_msg = ""
        for i, r in enumerate(handler.records):
            if r.message in failed and i + 1 < len(handler.records):
                next_msg = str(handler.records[i + 1].message)
        if failed and not res["error_type"]:
            sub["error"] = next_msg or sub["error"]
        orow, extra = outcome_row(outkind, sub, gene.name, sample, multi=not res["error_type"], logged=bool(failed), objs=objs)
        row = {"input": "alignment", "route": _spec_route(route), "outkind": outkind, "multi": True, "delName": gene.deletion_allele() or ""}
        row.update({k2: v for k2, v in facts.items() if k2 not in ("avg", "neutralDepth", "eligible")})
        row.update(orow)
        if outkind != "simple":
            # aldy / vcf text of several genes is one stream: calls are attributed through the result objects
            row["calls"] = len(objs)
        meta = {"case": {"multi": True, "which": which, "gene_index": k, "route": route, "outkind": outkind, "seed": seed},
                "params": {}, "facts": facts, "raised_in": "multi", "observed": dict(extra, log=msgs[:4]), "cn_region": str(cnr)}
        out.append((row, meta))
    for p in (bam, bam + ".bai", pbam, pbam + ".bai"):
        os.unlink(p)
    return out


# --------------------------------------------------------------------------- TLC side
def parse_witness(error_text):
    """Initial `facts` record of a TLC counterexample."""
    i = error_text.find("facts = [")
    if i < 0:
        raise MachineryError("no facts record in the TLC counterexample")
    v, _ = tlc._parse_value(error_text, i + len("facts = "))
    last = re.findall(r"State \d+: <(\w+) line", error_text)
    return {"facts": v, "actions": last}


def model_check(ctx):
    quick = ctx.tier == "quick"
    wit = {}
    for cfg, inv in (("impl_nocall", "NoCallFromNoData"), ("impl_simple", "SimpleOutputEmptyLine"),
                     ("impl_simple_open", "SimpleLineOnceStarted"), ("fix1", "NoCallFromNoData")):
        r = ctx.mc("mc/MC_Guards", f"mc/MC_Guards_{cfg}.cfg", expect_ok=False, workers=1, label=f"MC_Guards({cfg}: expected counterexample)")
        if r.violated != inv:
            raise MachineryError(f"MC_Guards_{cfg}: expected a counterexample to {inv}, got {r.violated or 'none'}")
        wit[cfg] = dict(parse_witness(r.error_text), invariant=inv, cfg=cfg)
    ctx.mc("mc/MC_Guards", "mc/MC_Guards_impl_rest.cfg", label="MC_Guards(code as shipped: remaining invariants + termination)", coverage=not quick)
    r = ctx.mc("mc/MC_Guards", "mc/MC_Guards_fixed.cfg", label="MC_Guards(repaired: all invariants + termination)", coverage=not quick)
    if r.coverage:
        ctx.parts["mc_action_coverage(fixed)"] = {k: v[1] for k, v in r.coverage.items()}
    f = wit["impl_nocall"]["facts"]
    if not (f["route"] == "user-structure" and f["input"] == "alignment" and (f["locusReads"] == 0 or f["avg"] < f["min"])):
        raise MachineryError(f"unexpected NoCallFromNoData witness {f}")
    os.makedirs(WITNESS_DIR, exist_ok=True)
    for cfg, w in wit.items():
        with open(os.path.join(WITNESS_DIR, f"{w['invariant']}.{cfg}.json"), "w") as fh:
            json.dump(w, fh, indent=1, sort_keys=True)
    ctx.parts["design_level_counterexamples"] = {cfg: {"invariant": w["invariant"], "facts": w["facts"], "actions": w["actions"][1:]} for cfg, w in wit.items()}
    return wit


def witness_tasks(wit, depth):
    """Realise the design-level counterexamples as inputs of the real code (binding A for the witnesses)."""
    toy = {"kind": "toy", "s19": "+", "s38": "-", "seed": 1, "pseudo": True, "genome": "hg19"}
    tasks = []
    for cfg, w in wit.items():
        f = w["facts"]
        if f["locusReads"] == 0 and f["avg"] == 0:
            scen = "empty" if f["neutralReads"] == 0 else "nolocus"
        elif f["locusReads"] == 0:
            scen = "spacer"
        elif f["neutralReads"] == 0:
            scen = "noneutral"
        elif f["avg"] < f["min"]:
            scen = "low-1.0"
        else:
            scen = "normal"
        route = "user-structure" if f["route"] == "user-structure" else "bam-profile"
        tasks.append((toy, scen, 7000, (route,), depth))
    return tasks


# --------------------------------------------------------------------------- validation
def fingerprint(row, meta, clause):
    locus, neutral = classify(meta["facts"], row["route"])
    if row["outkind"] != "simple":
        line = "n/a"
    elif not row["lines"]:
        line = "missing"
    elif not row["terminated"]:
        line = "open"
    else:
        line = "complete"
    outcome = "call" if row["nres"] else ("error" if row["err"] == "AldyException" else ("exception" if row["err"] else "nothing"))
    return {"clause": clause, "route": row["route"], "facts": locus, "neutral": neutral, "outkind": row["outkind"], "outcome": outcome,
            "line": line, "raised_in": meta["raised_in"], "multi": row["multi"]}


def _pseudo_applies(row):
    """Python replica of GuardsTrace!PseudoApplies -- used ONLY to choose which accepted rows get a
    pseudogene canary (a wrong replica shows up as an accepted canary = exit 2)."""
    return bool(
        row["route"] != "user-structure" and row["delName"] and row["geneReads"] == 0 and row["pseudoReads"] > 0
        and 0 < row["pseudoLen"] == row["pseudoCovered"] and row["neutralIn"] > 0
        and row["neutralBases"] >= 2 * row["neutralLen"]
        and 3 * row["neutralIn"] * row["pseudoLen"] <= 4 * row["pseudoBases"] * row["neutralLen"] <= 5 * row["neutralIn"] * row["pseudoLen"]
        and 1000 * row["covSum"] >= row["minCenti"] * (10 * row["covN"] + 1))


def corrupt(rng, row):
    """A corrupted copy of an ACCEPTED row that the property must reject, or None."""
    c = json.loads(json.dumps(row))
    kinds = []
    if row["err"] == "AldyException":
        kinds += ["call-from-error", "swallowed", "other-exception", "not-raised"]
        if row["outkind"] == "simple":
            kinds += ["open-line", "no-line"]
    elif row["nres"] and row["locusReads"] > 0:
        kinds += ["no-data-call"]
        if _pseudo_applies(row):
            kinds += ["pseudo-as-reference", "pseudo-as-error"]
    if not kinds:
        return None
    k = rng.choice(kinds)
    if k == "call-from-error":
        c.update(err="", msg=False, raised=False, nres=1, sols=[{"alleles": ["1", "1"], "cn": ["1", "1"], "dip": ["1", "1"]}], calls=1)
        if c["outkind"] == "simple":
            c["lines"] = [[c["sample"], c["gene"], "*1/*1", ""]]
        if not (c["locusReads"] == 0 or c["neutralReads"] == 0 or 1000 * c["covSum"] < c["minCenti"] * (10 * c["covN"] + 1)):
            return None
    elif k == "swallowed":
        c.update(err="", msg=False, raised=False)
    elif k == "other-exception":
        c.update(err="ZeroDivisionError")
    elif k == "not-raised":
        c.update(raised=False, logged=False)
    elif k == "open-line":
        c.update(terminated=False)
    elif k == "no-line":
        c.update(lines=[])
    elif k == "no-data-call":
        c.update(locusReads=0, geneReads=0, pseudoReads=0)
    elif k == "pseudo-as-reference":
        c["sols"] = [{"alleles": ["1", "1"], "cn": ["1", "1"], "dip": ["1", "1"]}]
    elif k == "pseudo-as-error":
        c.update(err="AldyException", msg=True, raised=True, nres=0, sols=[], calls=0)
        if c["outkind"] == "simple":
            c["lines"] = [[c["sample"], c["gene"], ""]]
    return c, k


def validate(ctx, pairs, rng, ncanaries=40):
    rows, metas = [], {}
    for i, (row, meta) in enumerate(pairs):
        row = dict(row, id=i + 1)
        rows.append(row)
        metas[i + 1] = (row, meta)
    rej = ctx.trace_batch("trace/GuardsTrace", "trace/GuardsTrace.cfg", rows, label="GuardsTrace")
    rejected = {}
    for r in rej:
        rejected.setdefault(r[0], []).append(r)
    # canaries from accepted rows
    accepted = [r for r in rows if r["id"] not in rejected]
    crow, base = [], 10 ** 6
    for r in rng.sample(accepted, min(ncanaries, len(accepted))):
        c = corrupt(rng, r)
        if c:
            crow.append(dict(c[0], id=base + len(crow) + 1, _kind=c[1]))
    if crow:
        rej2 = ctx.trace_batch("trace/GuardsTrace", "trace/GuardsTrace.cfg", [{k: v for k, v in c.items() if k != "_kind"} for c in crow], label="GuardsTrace(canaries)")
        bad = {r[0] for r in rej2}
        for c in crow:
            ctx.canary(c["id"] in bad)
            if c["id"] not in bad:
                print(f"  canary of kind {c['_kind']} was ACCEPTED: {c}")
    ctx.parts.setdefault("canary_kinds", {})
    for c in crow:
        ctx.parts["canary_kinds"][c["_kind"]] = ctx.parts["canary_kinds"].get(c["_kind"], 0) + 1
    return rows, metas, rejected


def report(ctx, metas, rejected):
    for rid, rs in sorted(rejected.items()):
        row, meta = metas[rid]
        for r in rs:
            clause = r[1]
            fp = fingerprint(row, meta, clause)
            detail = (f"{meta['case']} facts={meta['facts']} -> err={row['err']!r} {meta['observed']['message'][:80]!r} "
                      f"calls={meta['observed']['diplotypes']} output={meta['observed']['output'][:60]!r}")
            ctx.violation(clause, fp, dict(meta, row=row), detail)


def run(ctx):
    aldyenv.setup()
    quick = ctx.tier == "quick"
    rng = random.Random(19000 + ctx.seed)
    ctx.rule = (
        "MC: every well-formed combination of input kind x route x output kind x single/multi-gene x locus reads x average depth "
        "x min_avg_coverage x neutral reads x neutral depth x pseudogene-only x structure-stage depth, all guard/stage outcomes. "
        "(B) one case = one real genotype() run on a BAM written by gen_reads (generated genes on a 20-50 kb contig, one shipped gene "
        "at real coordinates) x route (BAM as profile, named profile, user-supplied structure [+ profile]) x output kind; the facts "
        "(locus reads, covered-position average depth, neutral reads/depth, pseudogene depth) are computed from the written reads; "
        "GuardsTrace applies the property layer of Guards. distinct = (gene, scenario, seed, route, output kind); non-trivial = the "
        "property demands an outcome (a guard fact holds, or reads cover only the pseudogene)."
    )
    ctx.trusted = ["harness/gen_reads.py", "harness/gen_db.py", "harness/pipeline.py", "pysam/htslib BAM writer", "TLC",
                   "harness/checks/c19.py compute_facts/project_output (kept independent of aldy's Coverage)"]
    ctx.assumptions = [
        "VCF / dump input is exempt (property wording): not exercised",
        "PseudogeneOnlyIsDeletion is asserted only where the structure is estimated (with a user-supplied structure nothing is called)",
        "cases whose average depth lies within 3% of min_avg_coverage are not generated (edge reads of the fetch window)",
        "the wording of the error message is not constrained; it must exist and be an AldyException",
        "named-profile route: one shipped gene without pseudogene (CYP2W1, chr7:1.0M) with synthetic neutral-region reads on chr22; "
        "the other shipped genes need a 50-250 Mb N-padded FASTA per run and are not exercised",
    ]
    wit = model_check(ctx)

    depth = 10
    specs = gene_specs(rng, quick)
    scens = [s for s, q in SCENARIOS.items() if q or not quick]
    routes = ("bam-profile", "user-structure") if quick else ("bam-profile", "user-structure", "user-structure+profile")
    tasks = []
    nseeds = 1 if quick else 2
    for spec in specs:
        for scen in scens:
            for k in range(nseeds):
                tasks.append((spec, scen, ctx.seed * 100 + k, routes, depth if k == 0 else 5))
    wt = witness_tasks(wit, depth)
    named = [(s, ctx.seed, p) for s in NAMED_SCEN for p in (("wgs",) if quick else ("wgs", "illumina", "exome"))]
    multi = [(w, r, o, ctx.seed) for w in (0, 1, 2) for r in ("bam-profile", "user-structure") for o in (("simple", "aldy") if quick else OUTKINDS)]
    jobs = [("s", t) for t in tasks] + [("w", t) for t in wt] + [("n", t) for t in named] + [("m", t) for t in multi]
    results = par.pmap(_dispatch, jobs, timeout=900 if quick else 2400, default=lambda j: [])
    if par.TIMED_OUT:
        ctx.parts["tasks_killed_by_watchdog"] = [repr(x)[:300] for x in par.TIMED_OUT]
    pairs, nwit = [], 0
    for (kind, _), res in zip(jobs, results):
        for row, meta in res:
            meta["part"] = {"s": "simulated", "w": "witness", "n": "named-profile", "m": "multi-gene"}[kind]
            pairs.append((row, meta))
        nwit += kind == "w" and bool(res)
    if nwit != len(wt):
        raise MachineryError("a design-level counterexample could not be realised as an input")
    rows, metas, rejected = validate(ctx, pairs, rng)
    parts = {}
    for rid, (row, meta) in metas.items():
        ctx.traces += 1
        locus, neutral = classify(meta["facts"], row["route"])
        demands = locus in ("locus-empty", "locus-empty-spacer-only", "avg-below-min") or neutral == "empty" or (
            locus == "pseudo-only" and row["route"] != "user-structure")
        ctx.count(1, key=json.dumps(meta["case"], sort_keys=True), nontrivial=demands)
        p = parts.setdefault(meta["part"], {"runs": 0, "by_facts": {}, "by_outcome": {}})
        p["runs"] += 1
        k = f"{row['route']}|{locus}|neutral-{neutral}"
        p["by_facts"][k] = p["by_facts"].get(k, 0) + 1
        o = "call" if row["nres"] else (row["err"] or "nothing")
        p["by_outcome"][o] = p["by_outcome"].get(o, 0) + 1
    ctx.parts["executions"] = parts
    ctx.parts["genes"] = [spec_id(s) for s in specs]
    # the witnesses must reproduce on the real code as long as the defect is there -- reported through the same path
    shown = set()
    for rid, (row, meta) in metas.items():
        key = (meta["part"], row["route"], classify(meta["facts"], row["route"]), row["outkind"], bool(row["err"]))
        if key not in shown and len(shown) < 40:
            shown.add(key)
            if row["outkind"] == "simple" or meta["part"] != "simulated":
                ctx.sample({"case": meta["case"], "facts": meta["facts"], "err": row["err"], "observed": meta["observed"],
                            "verdict": sorted(r[1] for r in rejected.get(rid, [])) or "accepted"}, cap=8)
    report(ctx, metas, rejected)


def _dispatch(job):
    kind, t = job
    if kind in ("s", "w"):
        return _scenario_task(t)
    if kind == "n":
        return _named_task(t)
    return _multi_task(t)


def replay(path):
    from ..core import Ctx

    aldyenv.setup()
    with open(path) as f:
        blob = json.load(f)
    case = blob["case"]["case"]
    clause = blob["clause"]
    if case.get("named"):
        res = _named_task((case["scenario"], case["seed"], case["profile"]))
        res = [(r, m) for r, m in res if m["case"]["outkind"] == case["outkind"]]
    elif case.get("multi"):
        res = _multi_task((case["which"], case["route"], case["outkind"], case["seed"]))
        res = [(r, m) for r, m in res if m["case"]["gene_index"] == case["gene_index"]]
    else:
        res = _scenario_task((case["spec"], case["scenario"], case["seed"], (case["route"],), case.get("depth", 10)))
        res = [(r, m) for r, m in res if m["case"]["outkind"] == case["outkind"]]
    ctx = Ctx("C19", "quick", 0)
    rows = [dict(r, id=i + 1) for i, (r, _) in enumerate(res)]
    rej = ctx.trace_batch("trace/GuardsTrace", "trace/GuardsTrace.cfg", rows, label="replay")
    for (r, m) in res:
        print("facts:", m["facts"])
        print("observed:", r["err"], m["observed"])
    if any(r[1] == clause for r in rej):
        print(f"VIOLATION property=C19 replay={path}")
        print("  rejected:", rej)
        return 1
    print("replay: accepted", rej)
    return 0
