"""C02 — major star-allele calls are consistent, optimal and complete.

Spec: spec/MajorModel.tla (semantic layer) + spec/Filter.tla; encoding layer and rule
witnesses: spec/MajorEncoding.tla, spec/mc/MC_MajorEncoding*.  Binding (B): recorded calls of
the real estimate_major on planted/noisy evidence are validated by spec/trace/MajorTrace.tla,
which brute-forces all admissible allele multisets.
"""
import collections
import itertools
import json
import math
import random

from .. import aldyenv, evidence, genes, par, project
from ..core import MachineryError

TOY = "toy"
SMALL_GENES = ["cyp2c19", "cyp2c9", "cyp2b6", "cyp3a5", "tpmt", "nudt15", "ugt1a1", "slco1b1", "cyp2a6", "gstm1"]
BIG_GENES = ["cyp2d6"]


def _profile(**kw):
    from aldy.profile import Profile

    return Profile("verif", **kw)


def load_gene(name, genome="hg19"):
    return genes.load(name, genome)


def run_major(gene, cov, struct):
    from aldy.major import estimate_major
    from aldy.solutions import CNSolution

    cn_sol = CNSolution(gene, 0, list(struct))
    return cn_sol, estimate_major(gene, cov, cn_sol, "any")


def ncombos_estimate(gene, cov, cn_sol):
    from aldy.major import _filter_alleles

    alleles, _ = _filter_alleles(gene, cov, cn_sol)
    per = collections.Counter(a.cn_config for a in alleles.values())
    n = 1
    for cfg, k in cn_sol.solution.items():
        n *= math.comb(per.get(cfg, 0) + k - 1, k)
    return n


def structures_for(gene, rng, maxcopies=4):
    """A random structure (list of configuration names, deletion excluded)."""
    dele = gene.deletion_allele()
    cfgs = [c for c in gene.cn_configs if c != dele and gene.cn_configs[c].alleles]
    n = rng.choice([1, 2, 2, 2, 3, 3, 4][: maxcopies + 3])
    n = min(n, maxcopies)
    st = []
    for _ in range(n):
        st.append("1" if rng.random() < 0.7 or len(cfgs) == 1 else rng.choice(cfgs))
    return st


def random_bag(gene, rng, struct):
    bag = []
    for cfg in struct:
        majors = [a for a, al in gene.alleles.items() if al.cn_config == cfg]
        a = rng.choice(majors)
        bag.append((a, None))
    return bag


def shared_core_sites(gene):
    by = collections.defaultdict(list)
    for (pos, op), v in gene.mutations.items():
        if v[0] is not None and not op.startswith("ins"):
            by[pos].append(op)
    return {p: o for p, o in by.items() if len(o) > 1}


def shared_core_sites_with_insertion(gene):
    by = collections.defaultdict(list)
    for (pos, op), v in gene.mutations.items():
        if v[0] is not None:
            by[pos].append(op)
    return {p: o for p, o in by.items() if len(o) > 1 and any(x.startswith("ins") for x in o)}


def add_orphans(rng, gene, table, depth):
    """Rule witness (one novel variant per site): observe two catalogued core variants at ONE site; an insertion does
    not count towards that rule (it sits between two bases), so an insertion + another variant may both be novel."""
    sh = shared_core_sites(gene)
    shi = shared_core_sites_with_insertion(gene)
    if shi and (not sh or rng.random() < 0.5):
        sh = shi
    if not sh:
        return table
    pos = rng.choice(sorted(sh))
    ops = rng.sample(sh[pos], 2)
    t = {p: dict(v) for p, v in table.items()}
    t.setdefault(pos, {})
    for o in ops:
        t[pos][o] = t[pos].get(o, 0) + depth
    t[pos]["_"] = max(0, t[pos].get("_", 0) - rng.choice([0, depth, 2 * depth]))
    return t


def corrupt_case(rng, case):
    """Corrupted copy of an accepted case (must be rejected) or None."""
    if not case["result"]:
        return None
    c = json.loads(json.dumps(case))
    kind = rng.choice(["score", "drop", "allele"])
    if kind == "score":
        c["result"][0]["score"] += 3000
    elif kind == "drop":
        c["result"] = []  # nothing reported although admissible combinations exist
    else:
        r = c["result"][0]
        if not r["alleles"]:
            return None
        old = list(r["alleles"])
        r["alleles"][0] = r["alleles"][0] % len(c["alleles"]) + 1
        r["alleles"].sort()
        if r["alleles"] == old:
            r["score"] += 3000
    return c


def _cases_task(task):
    """Worker: build `n` cases for one gene; returns (rows, meta, skipped)."""
    gname, genome, seed, n, mode = task
    rng = random.Random(seed)
    g = load_gene(gname, genome)
    sites_all = evidence.catalogue_sites(g)
    rows, meta, skipped = [], {}, 0
    for k in range(n):
        if mode == "noisy":
            struct = structures_for(g, rng)
            bag = random_bag(g, rng, struct)
            table = evidence.plant(g, bag, depth=rng.choice([10, 20, 20, 30]), sites=sites_all)
            m = rng.random()
            if m < 0.25:
                pass  # noise-free
            elif m < 0.8:
                table = evidence.perturb(rng, table, level=rng.choice([0.1, 0.3, 0.5]), gene=g)
            else:
                table = evidence.perturb(rng, table, level=0.5, drop=0.15, spurious=0.3, gene=g)
            low = None
            if rng.random() < 0.3:
                low = {p: {op: (rng.randint(0, 8), rng.randint(0, 8)) for op in ops} for p, ops in table.items() if rng.random() < 0.5}
            gap = rng.choice([0, 0, 0.1, 0.5])
        else:
            struct = ["1", "1"] if rng.random() < 0.7 else structures_for(g, rng)
            bag = random_bag(g, rng, struct)
            table = evidence.plant(g, bag, depth=20, sites=sites_all)
            if rng.random() < 0.3:
                table = evidence.perturb(rng, table, level=0.2, gene=g)
            if rng.random() < 0.3:
                table = add_orphans(rng, g, table, 20)
            low = None
            gap = rng.choice([0, 0, 0.1])
        pkw = {}
        if rng.random() < 0.3:
            # non-default parameters of the stage (thresholds, novel-variant penalty): the stage must use the profile's values
            pkw = rng.choice([{"threshold": 0.3}, {"threshold": 0.7}, {"min_coverage": 5.0}, {"major_novel": 5.0}, {"major_novel": 0.6},
                              {"cn_max": 6}])
        prof = _profile(gap=gap, **pkw)
        indels = None
        if rng.random() < 0.2:
            table, indels = evidence.realistic_indels(table)
            low = None
        cov = evidence.make_coverage(g, prof, table, low, indels)
        raised = ""
        try:
            cn_sol, res = run_major(g, cov, struct)
        except Exception as ex:  # the stage must not crash on well-formed evidence
            from aldy.solutions import CNSolution

            cn_sol, res, raised = CNSolution(g, 0, list(struct)), [], f"{type(ex).__name__}: {ex}"
        nc = ncombos_estimate(g, cov, cn_sol) if not raised else 1
        if nc > 5000:
            skipped += 1
            continue
        cid = f"{gname}/{genome}/{seed}/{k}"
        case = project.major_case(cid, g, cov, cn_sol, res)
        case["raised"] = raised
        rows.append(case)
        meta[cid] = {"gene": f"{gname}/{genome}", "struct": struct, "table": table, "low": low, "gap": gap, "params": pkw, "tag": mode, "indels": [[k[0], k[1], v[0], v[1]] for k, v in (indels or {}).items()],
                     "planted": [b[0] for b in bag], "ncombos": nc, "raised": raised,
                     "result": [(sorted(sa.major for sa, n_ in s.solution.items() for _ in range(n_)), [str(m_) for m_ in s.added], s.score) for s in res]}
    return rows, meta, skipped


def run(ctx):
    aldyenv.setup()
    rng = random.Random(2000 + ctx.seed)
    quick = ctx.tier == "quick"
    ctx.rule = (
        "(B) each case = one real estimate_major call on a Coverage planted from a random allele multiset "
        "(1-4 copies, fused/partial alleles included) with multiplicative noise, dropped/spurious ops and "
        "low-quality observations, gap in {0,.1,.5}; MajorTrace recomputes filters, candidates, every admissible "
        "multiset and its score. distinct = distinct (gene, structure, evidence table, gap); non-trivial = at "
        "least 2 admissible multisets. Noise-free part: planted pairs over shipped catalogues."
    )
    ctx.trusted = ["harness/evidence.py planting", "harness/project.py structural projection", "TLC"]
    ctx.assumptions = ["cases with > 5000 candidate multisets are skipped and counted, never passed"]
    # design level: on noise-free evidence of every admissible multiset of a small catalogue the planted multiset
    # is admissible, scores 0 and is optimal; zero-score multisets explain the same variants; gap monotone
    ctx.mc("mc/MC_MajorModel", label="MC_MajorModel(planted x perturbations)", workers=8)
    # encoding layer: every constraint the code documents is a named rule of MajorEncoding; TLC proves that the
    # encoding refines the semantic layer and, per rule, finds an input on which dropping it changes the allowed
    # results; those witnesses are replayed into the real stage and validated by the trace spec
    from . import enc
    enc.run_major(ctx)
    tasks = []
    for j in range(12 if quick else 60):
        tasks.append(("toy", rng.choice(["hg19", "hg38"]), rng.randrange(1 << 30), 100 if quick else 200, "noisy"))
    genes_ = (SMALL_GENES[:5] + ["ugt1a1"]) if quick else SMALL_GENES   # ugt1a1: two catalogued insertions at one site
    for gname in genes_:
        for genome in (["hg19"] if quick else ["hg19", "hg38"]):
            for j in range(1 if quick else 6):
                tasks.append((gname, genome, rng.randrange(1 << 30), 100 if quick else 250, "planted"))
    for gname in BIG_GENES:
        for genome in ["hg19", "hg38"]:
            # small tasks: one CYP2D6 model in a few hundred keeps CBC busy for 10+ minutes (seen: VERIF_SEED=1, hg38, two
            # orphan variants at an insertion site); the watchdog gives such a task up (counted as skipped, never a verdict)
            for j in range(8 if quick else 80):
                tasks.append((gname, genome, rng.randrange(1 << 30), 10 if quick else 30, "planted"))
    rows, meta, skipped = [], {}, 0
    for r, m, s in par.pmap(_cases_task, tasks, timeout=150 if quick else 900, default=lambda t: ([], {}, t[3])):
        rows += r
        meta.update(m)
        skipped += s
    if par.TIMED_OUT:
        ctx.parts["tasks_killed_by_watchdog"] = [repr(x)[:200] for x in par.TIMED_OUT]
    for cid, m in meta.items():
        key = (m["gene"], tuple(sorted(m["struct"])), json.dumps(m["table"], sort_keys=True), m["gap"])
        ctx.count(1, key=hash(key), nontrivial=m["ncombos"] >= 2)
        ctx.traces += 1
    for k in list(meta)[:2] + list(meta)[-1:]:
        ctx.sample({"case": {kk: vv for kk, vv in meta[k].items() if kk != "low"}})
    # ---------------- canaries
    canaries = {}
    for i, case in enumerate(rng.sample(rows, min(40, len(rows)))):
        c = corrupt_case(rng, case)
        if c:
            c["id"] = f"canary/{i}"
            canaries[c["id"]] = case["id"]
            rows.append(c)
    # ---------------- validate
    rej = ctx.trace_batches("trace/MajorTrace", "trace/MajorTrace.cfg", rows, label="MajorTrace", chunk=400)
    by_id = {}
    for r in rej:
        by_id.setdefault(r[0], r[1])
    for k, src in canaries.items():
        if src in by_id:
            continue
        ok = k in by_id and not by_id[k].startswith("UNDECIDED")
        if not ok:
            import sys
            cc = [r for r in rows if r["id"] == k][0]
            oo = [r for r in rows if r["id"] == src][0]
            print("ACCEPTED CANARY", k, src, by_id.get(k), "orig", oo["result"], "canary", cc["result"], file=sys.stderr)
        ctx.canary(ok)
    ctx.parts["cases"] = {"rows": len(rows), "skipped_too_many_multisets": skipped, "canaries": len(canaries)}
    for k, clause in by_id.items():
        if k in canaries:
            continue
        if clause.startswith("UNDECIDED"):
            ctx.undecided += 1
            continue
        if clause == "BadCase":
            raise MachineryError(f"malformed case {k}")
        m = meta[k]
        fp = {"stage": "major", "clause": clause, "gene": m["gene"].split("/")[0]}
        if clause in ("Optimal", "CompleteWithinGap", "NoneReportedButAdmissibleExists"):
            fp["cbc_objective_worse_than_scip_on_same_model"] = _backend_flag(m)  # attribution only (harness/backend.py)
        ctx.violation(clause, fp, m, f"case {k} ({m['tag']}) struct={m['struct']} gap={m['gap']} reported={m['result']}")


def _backend_flag(m):
    """Re-run the recorded case with every CBC solve exported; True iff SCIP beats an objective CBC called optimal."""
    from .. import backend

    try:
        g = load_gene(*m["gene"].split("/"))
        table = {int(p): v for p, v in m["table"].items()}
        low = {int(p): {o: tuple(x) for o, x in v.items()} for p, v in (m.get("low") or {}).items()} or None
        indels = {(int(a), b): (c, d) for a, b, c, d in m.get("indels", [])} or None
        cov = evidence.make_coverage(g, _profile(gap=m["gap"], **m.get("params", {})), table, low, indels)
        recs = []
        with backend.watch(recs), aldyenv.quiet_stderr():
            run_major(g, cov, m["struct"])
        with aldyenv.quiet_stderr():
            return bool(backend.worse_than_scip(recs))
    except Exception:  # noqa: BLE001 - attribution must never turn a violation into a machinery failure
        return False


def replay(path):
    from ..core import Ctx

    aldyenv.setup()
    with open(path) as f:
        m = json.load(f)["case"]
    if m.get("enc"):
        from . import enc
        return enc.replay(path, "C02")
    gname = m["gene"]
    g = load_gene(*gname.split("/"))
    table = {int(p): v for p, v in m["table"].items()}
    low = {int(p): {o: tuple(x) for o, x in v.items()} for p, v in (m.get("low") or {}).items()} or None
    indels = {(int(a), b): (c, d) for a, b, c, d in m.get("indels", [])} or None
    cov = evidence.make_coverage(g, _profile(gap=m["gap"], **m.get("params", {})), table, low, indels)
    with aldyenv.quiet_stderr():
        cn_sol, res = run_major(g, cov, m["struct"])
    case = project.major_case("replay", g, cov, cn_sol, res)
    case["raised"] = ""
    ctx = Ctx("C02", "quick", 0)
    rej = ctx.trace_batch("trace/MajorTrace", "trace/MajorTrace.cfg", [case], label="replay")
    print("result now:", [(sorted(sa.major for sa, n in s.solution.items() for _ in range(n)), s.added, s.score) for s in res])
    if rej and not rej[0][1].startswith("UNDECIDED"):
        print(f"VIOLATION property=C02 replay={path}")
        print("  rejected:", rej)
        return 1
    print("replay: accepted")
    return 0
