"""C07 — the copy-number signal is depth-normalised: a two-copy reference reads as 2.0.

Spec: spec/Depth.tla (sums over read sets, Norm as an exact rational, Dup/GeneDup, the pipeline as two actions),
spec/mc/MC_Depth.* (every multiset of <=3/4 reads of a 42-read pool on a 12-base line, k in 2..3, empty neutral region),
spec/trace/DepthTrace.* (recomputes the sums and Norm from the logged read lists of real runs).
Binding (B): families of runs of the real code over simulated read sets on small genes (with/without pseudogene, both
strands): base set R, Dup(k, R), gene-only multiples, self-profile (clean and with ineligible reads), custom and empty
neutral regions; profile from a BAM (`Profile.load(gene, bam, cn_region)`) and from the YAML printed by `aldy profile`
(shipped gene CYP2W1 at its real coordinates, default and custom neutral region); NA10860 self-profile.
"""
import contextlib
import io
import json
import os
import random
import threading
import time

from .. import aldyenv, gen_reads, tlc
from ..core import MachineryError
from . import c06


# --------------------------------------------------------------------------- gene context
def depth_context(gene):
    regs = []
    for g, d in enumerate(gene.regions):
        for ri, (r, rng) in enumerate(d.items()):
            regs.append({"g": g, "name": ri + 1, "rname": r, "lo": rng.start, "hi": rng.end})
    w = gene.get_wide_region()
    G = {"k": "gene", "len": 1, "ref": [4], "mapped": [], "wide": [w.start, w.end], "mnps": [], "phase": [0],
         "regions": [{k: v for k, v in r.items() if k != "rname"} for r in regs]}
    return G, regs


def spec_reads(reads, chr_name):
    """Read list -> spec records with multiplicities (identical consecutive copies are merged by the caller)."""
    out = []
    for r, m in reads:
        d = c06.spec_read(r, 0, chr_name)
        d["seq"] = [0] * len(d["seq"])  # base identities do not matter for depth
        d["qual"] = []
        d["mult"] = m
        out.append(d)
    return out


def write_set(path, gene, contig_len, reads, extra_contigs=()):
    """reads: [(Read, mult)] -> BAM with every read written mult times."""
    flat = []
    for r, m in reads:
        flat += [r] * m
    gen_reads.write_bam(path, gene.chr, contig_len, flat, extra_contigs=extra_contigs)
    return path


# --------------------------------------------------------------------------- running the real code
def run_real(gene, sample_bam, profile, regs, cn_region=None):
    """profile: ("bam", path) | ("yaml", path).  Returns the `rec` record of DepthTrace."""
    from aldy.cn import estimate_cn
    from aldy.common import AldyException
    from aldy.profile import Profile
    from aldy.sam import Sample

    rec = {"err": "", "s": [], "ref": 0, "p": [], "nv": 0, "rc6": [], "two": [], "cnsol": "", "msg": ""}
    try:
        with aldyenv.quiet_stderr():
            if profile[0] == "bam":
                prof = Profile.load(gene, profile[1], cn_region)
            else:
                prof = Profile.load(gene, profile[1])
            sample = Sample(gene, prof, sample_bam)
    except AldyException as ex:
        msg = str(ex)
        rec["err"] = "noreads" if "has no reads" in msg else ("lowcov" if "coverage" in msg and "too low" in msg else "AldyException")
        rec["msg"] = msg[:200]
        return rec, None
    except Exception as ex:  # noqa
        rec["err"] = type(ex).__name__
        rec["msg"] = str(ex)[:200]
        return rec, None
    cov = sample.coverage
    cn = prof.cn_region
    rec["cn"] = [cn.start, cn.end]
    rec["ref"] = int(sum(cov._cnv_coverage.get(i, 0) for i in range(cn.start, cn.end)))
    rec["nv"] = prof.neutral_value
    for r in regs:
        rec["s"].append(int(sum(cov.total(i) for i in range(r["lo"], r["hi"]))))
        rec["p"].append(prof.data[gene.name][r["rname"]][r["g"]])
        v = cov.region_coverage(r["g"], r["rname"])
        rec["rc6"].append(int(round(v * 1e6)))
        rec["two"].append(v == 2.0)
    if any(abs(x - round(x)) > 1e-9 for x in rec["p"] + [rec["nv"]]):
        raise MachineryError(f"profile values are not integers: {rec['p']} {rec['nv']}")
    rec["p"] = [int(round(x)) for x in rec["p"]]
    rec["nv"] = int(round(rec["nv"]))
    try:
        with aldyenv.quiet_stderr():
            sols = estimate_cn(gene, prof, cov, "any")
        rec["cnsol"] = ";".join(sorted(s._solution_nice() for s in sols))
    except AldyException as ex:
        rec["cnsol"] = "AldyException:" + str(ex)[:60]
    return rec, sample


def fits32(rec):
    """Fixed6 of DepthTrace stays inside 32-bit integers for these values."""
    from math import gcd

    for s, p in zip(rec["s"], rec["p"]):
        if p == 0:
            continue
        nv, ref = rec["nv"], rec["ref"]
        g = gcd(nv, ref) or 1
        nv, ref = nv // g, ref // g
        g = gcd(2 * s, p) or 1
        s2, p2 = 2 * s // g, p // g
        g = gcd(nv, p2) or 1
        nv, p2 = nv // g, p2 // g
        g = gcd(s2, ref) or 1
        s2, ref = s2 // g, ref // g
        if nv * s2 >= 2 ** 31 or ref * p2 >= 2 * 10 ** 8 or 2 * s >= 2 ** 31:
            return False
    return True


# --------------------------------------------------------------------------- read sets
def hostile_reads(rng, gene, contig, cn, n):
    """Reads that one side counts and the other does not: supplementary, hard-clipped, unmapped-with-CIGAR, no sequence;
    and harmless ones with indels/soft clips/secondary/duplicate flags."""
    w = gene.get_wide_region()
    out = []
    for i in range(n):
        where = ["gene", "neutral", "gene", "edge"][(i // 8) % 4] if i < 32 else rng.choice(["gene", "gene", "neutral", "edge"])
        if where == "gene":
            a = rng.randrange(w.start - 30, w.end - 10)
        elif where == "neutral":
            a = rng.randrange(cn[0] - 30, max(cn[0] - 29, cn[1] - 5))
        else:
            a = rng.choice([w.start - 20, w.end - 20, cn[0] - 20, cn[1] - 20])
        L = rng.choice([20, 30, 40])
        kind = ["indel", "supp", "hard", "unmapped", "noseq", "soft", "secondary", "dup"][i % 8]
        cig, flag, seq = [(0, L)], 0, contig[a:a + L]
        if kind == "supp":
            flag = 0x800
        elif kind == "hard":
            cig = [(5, 7), (0, L)]
        elif kind == "unmapped":
            flag = 0x4
        elif kind == "noseq":
            seq, flag = None, 0x100
        elif kind == "indel":
            cig = [(0, 10), (2, 3), (0, 5), (1, 2), (0, L - 17)]
            seq = contig[a:a + 10] + contig[a + 13:a + 18] + "GG" + contig[a + 18:a + 18 + L - 17]
        elif kind == "soft":
            cig = [(4, 5), (0, L - 5)]
            seq = "ACGTA" + contig[a:a + L - 5]
        elif kind == "secondary":
            flag = 0x100
        elif kind == "dup":
            flag = 0x400
        out.append(gen_reads.Read(f"x{i}", a, cig, seq, [30] * len(seq) if seq else None, 60, flag))
    return out


def base_set(rng, gene, contig, cn, haps, read_len, depth, hostile):
    reads = []
    for i, (st, vs, weak) in enumerate(haps):
        c = gen_reads.haplotype(gene, contig, st, vs, weak=weak)
        reads += gen_reads.tile(c, contig, read_len, depth, prefix=f"h{i}", offset=rng.randrange(read_len))
    pad = 2 * read_len
    for i in range(2):
        c = gen_reads.Copy([gen_reads.Segment(cn[0] - pad, cn[1] + pad, [])], "neutral", False, [])
        reads += gen_reads.tile(c, contig, read_len, depth, prefix=f"n{i}", offset=rng.randrange(read_len))
    reads += hostile_reads(rng, gene, contig, cn, hostile)
    reads.sort(key=lambda r: (r.start, r.name))
    return [(r, 1) for r in reads]


class Fam:
    def __init__(self, batch, fam):
        self.batch, self.fam = batch, fam


class DBatch:
    def __init__(self, gene, label, yml=None, genome=None):
        self.gene, self.label = gene, label
        self.G, self.regs = depth_context(gene)
        self.rows = [self.G]
        self.cases = {}
        self.nid = 0
        self.yml, self.genome = yml, genome

    def add(self, fam, role, kk, cn, sample, profile, rec, case):
        self.nid += 1
        ev = {"k": "run", "id": self.nid, "fam": fam, "role": role, "kk": kk, "cn": list(cn),
              "sample": spec_reads(sample, self.gene.chr), "pself": profile is None,
              "profile": [] if profile is None else spec_reads(profile, self.gene.chr), "rec": {k: v for k, v in rec.items() if k not in ("msg", "cn")}}
        if ev["rec"]["err"]:
            n = len(self.regs)
            ev["rec"].update(s=[0] * n, p=[0] * n, rc6=[0] * n, two=[False] * n)
        self.rows.append(ev)
        self.cases[self.nid] = dict(case, role=role, kk=kk, cn=list(cn), rec=rec)
        return ev


def family(ctx, rng, batch, fam, gene, text, genome, contig, contig_len, quick):
    from aldy.common import GRange

    w = gene.get_wide_region()
    read_len = rng.choice([30, 40, 60])
    depth = rng.choice([d for d in (3, 4, 5, 6) if read_len % d == 0])
    # neutral region away from the gene
    right = contig_len - w.end >= 5000
    a = rng.randrange(w.end + 2500, contig_len - 1500) if right else rng.randrange(1300, w.start - 2900)
    cn = (a, a + rng.choice([150, 200, 300]))
    structs = list(gene.cn_configs)
    haps = []
    for i in range(2):
        st = rng.choice(structs) if rng.random() < 0.4 else "1"
        haps.append((st, (), False))
    if rng.random() < 0.3:
        haps.append(("1", (), True))
    hostile = rng.choice([0, 8, 16, 32])
    R = base_set(rng, gene, contig, cn, haps, read_len, depth, hostile)
    PR = base_set(rng, gene, contig, cn, [("1", (), False), ("1", (), False)], read_len, rng.choice([d for d in (3, 4, 5, 6) if read_len % d == 0]), 0)
    d = tlc.scratch()
    pbam = write_set(os.path.join(d, f"c07_{batch.label}_{fam}_p.bam"), gene, contig_len, PR)
    cnr = GRange(gene.chr, cn[0], cn[1])
    case0 = {"yaml": text, "genome": genome, "contig_len": contig_len, "profile": [(r.as_dict(), m) for r, m in PR]}
    n = 0

    def go(role, kk, sample, profile_reads, profile_bam, cn_r, tag):
        nonlocal n
        n += 1
        sbam = write_set(os.path.join(d, f"c07_{batch.label}_{fam}_{n}.bam"), gene, contig_len, sample)
        rec, _ = run_real(gene, sbam, ("bam", profile_bam or sbam), batch.regs, GRange(gene.chr, cn_r[0], cn_r[1]))
        case = dict(case0, sample=[(r.as_dict(), m) for r, m in sample], pself=profile_bam is None, tag=tag)
        ok32 = rec["err"] != "" or fits32(rec)
        if ok32:
            batch.add(fam, role, kk, cn_r, sample, profile_reads, rec, case)
            ctx.traces += 1
            ctx.count(1, key=(batch.label, fam, role, kk, tuple(cn_r)), nontrivial=rec["err"] == "")
        else:
            ctx.parts.setdefault("skipped_32bit", 0)
            ctx.parts["skipped_32bit"] += 1
        for f in (sbam, sbam + ".bai"):
            os.unlink(f)
        return rec

    go("base", 1, R, PR, pbam, cn, "base")
    for kk in ([rng.choice([2, 3]), rng.choice([4, 5])] if quick else [2, 3, 4, 5]):
        go("dup", kk, [(r, m * kk) for r, m in R], PR, pbam, cn, "dup")
    kk = rng.choice([2, 3])
    go("genedup", kk, [(r, m * kk if max(0, min(r.end(), cn[1]) - max(r.start, cn[0])) == 0 else m) for r, m in R], PR, pbam, cn, "genedup")
    # the sample as its own profile
    go("self", 1, R, None, None, cn, "self")
    clean = [(r, m) for r, m in R if not r.name.startswith("x")]
    go("self", 1, clean, None, None, cn, "self-clean")
    # custom neutral regions: a sub-interval, and an interval without any read
    sub = (cn[0] + rng.randrange(0, 40), cn[1] - rng.randrange(0, 40))
    go("other", 1, R, PR, pbam, sub, "custom-neutral")
    empty_at = rng.randrange(w.end + 800, w.end + 1500) if right else rng.randrange(w.start - 1500, w.start - 900)
    go("other", 1, R, PR, pbam, (empty_at, empty_at + 100), "no-reads-neutral")
    go("other", 1, R, PR, pbam, (cn[0] + 10, cn[0] + 10), "empty-interval")
    for f in (pbam, pbam + ".bai"):
        os.unlink(f)


# --------------------------------------------------------------------------- YAML route (shipped gene)
def yaml_route(ctx, rng, quick):
    """`aldy profile` on a simulated two-copy BAM of the shipped CYP2W1 (chr7 ~1.0 Mb), default and custom neutral region."""
    from aldy.common import GRange
    from aldy.gene import Gene

    genome = rng.choice(["hg19", "hg38"])
    gpath = os.path.join(aldyenv.ALDY_SRC, "aldy/resources/genes/cyp2w1.yml")
    gene = Gene(gpath, genome=genome)
    w = gene.get_wide_region()
    contig_len = w.end + 40000
    crng = random.Random(7)
    # only the part of the contig around the gene matters; build it lazily as a dict-like string
    sub = gen_reads.contig(gene, contig_len, crng)
    batch = DBatch(gene, f"Y:CYP2W1{genome}", yml="cyp2w1", genome=genome)
    default_cn = {"hg19": ("22", 42547463, 42548249), "hg38": ("22", 42151472, 42152258)}[genome]
    custom = (w.end + 3000, w.end + 3300)
    read_len, depth = 100, 2

    def mk(depth_gene, depth_neutral_default, k=1):
        reads = []
        for i in range(2):
            c = gen_reads.Copy([gen_reads.Segment(w.start - 300, w.end + 300, [])], "ref", False, [])
            reads += gen_reads.tile(c, sub, read_len, depth_gene, prefix=f"g{i}", offset=crng.randrange(read_len))
            c = gen_reads.Copy([gen_reads.Segment(custom[0] - 200, custom[1] + 200, [])], "neutral", False, [])
            reads += gen_reads.tile(c, sub, read_len, depth_gene, prefix=f"c{i}", offset=crng.randrange(read_len))
        out = [(r, k) for r in reads]
        # default neutral region lives on chr22: plain reads there
        for i in range(2 * depth_neutral_default):
            for a in range(default_cn[1] - 150 + 13 * i, default_cn[2] + 100, read_len):
                out.append((gen_reads.Read(f"d{i}.{a}", a, [(0, read_len)], "A" * read_len, [30] * read_len, 60, 0, contig="22"), k))
        return out

    extra = [("22", 51304566 if genome == "hg19" else 50818468)]
    d = tlc.scratch()
    P = mk(depth, 2)
    pbam = write_set(os.path.join(d, "c07_y_p.bam"), gene, contig_len, P, extra_contigs=extra)
    t0 = time.time()
    ymls = {}
    from aldy.__main__ import main as aldy_main

    for tag, arg in (("default", None), ("custom", f"{gene.chr}:{custom[0]}-{custom[1]}")):
        buf = io.StringIO()
        argv = ["profile", pbam, "--genome", genome] + (["-n", arg] if arg else [])
        with contextlib.redirect_stdout(buf), aldyenv.quiet_stderr():
            aldy_main(argv)
        path = os.path.join(d, f"c07_prof_{tag}.yml")
        with open(path, "w") as f:
            f.write(buf.getvalue())
        ymls[tag] = path
    ctx.parts["aldy_profile_cmd_s"] = round((time.time() - t0) / 2, 1)
    fam = 0
    for tag, cn in (("default", default_cn[1:]), ("custom", custom)):
        fam += 1
        for role, kk, S in (("base", 1, P), ("dup", 2, [(r, 2 * m) for r, m in P]), ("dup", 3, [(r, 3 * m) for r, m in P])):
            sbam = write_set(os.path.join(d, "c07_y_s.bam"), gene, contig_len, S, extra_contigs=extra)
            rec, _ = run_real(gene, sbam, ("yaml", ymls[tag]), batch.regs)
            if rec["err"] == "" and rec["cn"] != list(cn):
                ctx.violation("CustomNeutralRegion", {"site": "profile.yaml", "tag": tag}, {"cn": cn, "rec": rec}, f"profile file carries {rec['cn']}, expected {cn}")
            # one coordinate line for the spec: the chr22 reads (42.5 Mb) cannot collide with the gene's contig (~1 Mb)
            def view(S):
                return [((r.copy(contig=None) if r.contig == "22" else r), m) for r, m in S]

            if fits32(rec) or rec["err"]:
                batch.add(fam, role, kk, cn, view(S), None if role == "base" else view(P), rec, {"kind": "yaml", "tag": tag, "genome": genome})
                ctx.traces += 1
                ctx.count(1, key=("yaml", genome, tag, role, kk), nontrivial=rec["err"] == "")
    for f in (pbam, pbam + ".bai"):
        os.unlink(f)
    return batch


# --------------------------------------------------------------------------- NA10860 self-profile
def na10860_self(ctx):
    """The shipped BAM as its own profile: Norm = 2 x (eligible sums / all-read sums) x (all / counted neutral)."""
    import pysam
    from aldy.gene import Gene

    gene = Gene(os.path.join(aldyenv.ALDY_SRC, "aldy/resources/genes/cyp2d6.yml"), genome="hg19")
    bam = c06.NA_BAM["hg19"]
    from aldy.common import GRange

    cn = GRange("22", 42547463, 42548249)
    batch = DBatch(gene, "N:NA10860self", yml="cyp2d6", genome="hg19")
    t0 = time.time()
    rec, _ = run_real(gene, bam, ("bam", bam), batch.regs, cn)
    w = gene.get_wide_region()
    reads = []
    with pysam.AlignmentFile(bam) as f:
        for a in f.fetch(gene.chr, min(w.start, cn.start) - 1100, max(w.end, cn.end) + 1100):
            reads.append((gen_reads.Read(a.query_name, a.reference_start, list(a.cigartuples or []), a.query_sequence or None, None, a.mapping_quality, a.flag), 1))
    ctx.parts["NA10860_self"] = {"reads": len(reads), "wall_s": round(time.time() - t0, 1), "err": rec["err"],
                                 "region_coverage": {f"{r['g']}:{r['rname']}": v / 1e6 for r, v in zip(batch.regs, rec["rc6"])}}
    if rec["err"] or fits32(rec):
        batch.add(1, "self", 1, (cn.start, cn.end), reads, None, rec, {"kind": "na10860"})
        ctx.traces += 1
        ctx.count(1, key=("NA10860", "self"), nontrivial=True)
    else:
        ctx.parts["NA10860_self"]["skipped"] = "does not fit 32-bit exact arithmetic"
    return batch


# --------------------------------------------------------------------------- judging
def trace_job(rows, label):
    path = os.path.join(tlc.scratch(), f"dtrace_{label.replace(':', '_')}_{threading.get_ident()}.ndjson")
    tlc.write_ndjson(path, rows)
    r = tlc.run("trace/DepthTrace", "trace/DepthTrace.cfg", workers=1, env={"TRACE_FILE": path}, timeout=3000)
    os.unlink(path)
    return r


def prepare(batch, rng):
    rows = [batch.rows[0]]
    canary = {}
    for ev in batch.rows[1:]:
        rows.append(ev)
        if ev["rec"]["err"] == "" and rng.random() < 0.25:
            c = json.loads(json.dumps(ev))
            batch.nid += 1
            c["id"] = batch.nid
            c["role"] = "other" if c["role"] == "base" else c["role"]
            kind = rng.choice(["rc", "sum", "ref", "err", "p"])
            j = rng.randrange(len(c["rec"]["rc6"]))
            if kind == "rc":
                nz = [i for i, p in enumerate(c["rec"]["p"]) if p] or [j]
                c["rec"]["rc6"][rng.choice(nz)] += 1000
            elif kind == "sum":
                c["rec"]["s"][j] += 1
            elif kind == "ref":
                c["rec"]["ref"] += 1
            elif kind == "err":
                c["rec"]["err"] = "noreads"
            elif kind == "p":
                c["rec"]["p"][j] += 1
            canary[c["id"]] = (kind, ev["id"])
            rows.append(c)
    return rows, canary


def judge(ctx, batch, rows, canary, r):
    ctx.states += r.distinct
    ctx.transitions += r.generated
    ctx.mc_runs.append(dict(r.summary(), module=f"DepthTrace[{batch.label}]", rows=len(rows)))
    if not r.ok:
        raise MachineryError(f"trace batch {batch.label} did not complete: {r.violated}\n{r.error_text[:3000]}")
    done = [p for p in r.prints if len(p) >= 3 and p[1] == "DONE"]
    if not done or done[-1][2] != len(rows):
        raise MachineryError(f"trace batch {batch.label}: consumed {done[-1][2] if done else '?'} of {len(rows)} rows")
    rejected = {}
    for p in r.prints:
        if p[1] != "DONE":
            rejected.setdefault(p[1], p[1:])
    for cid, (kind, src) in canary.items():
        if src in rejected and rejected[src][1] != "~undecided":
            continue
        ctx.canary(cid in rejected)
    for i, rj in rejected.items():
        if i in canary:
            continue
        clause = rj[1]
        if clause == "~undecided":
            ctx.undecided += 1
            continue
        if clause.startswith("Harness/"):
            raise MachineryError(f"{batch.label} event {i}: {clause}")
        case = batch.cases.get(i, {})
        ctx.violation(clause, {"site": "coverage._normalize_coverage", "clause": clause, "role": case.get("role"), "tag": case.get("tag"), "batch": batch.label.split(":")[0]},
                      dict(case, label=batch.label, event_id=i), f"run {i} of {batch.label} rejected: {clause}; recorded {json.dumps(case.get('rec'))[:300]}")
    return rejected


def run(ctx):
    aldyenv.setup()
    quick = ctx.tier == "quick"
    rng = random.Random(7000 + ctx.seed)
    ctx.rule = (
        "MC: every multiset of <=3 (thorough 4) reads of a 42-read pool (7 shapes x 6 starts straddling every region bound and both ends of "
        "the neutral interval) on a 12-base line, profile = the sample itself or a fixed profile, k in {2,3}, neutral region [10,12) and the empty "
        "[10,10). (B) families of 10-12 real runs (base, Dup k in 2..5, gene-only multiple, self-profile with and without ineligible reads, "
        "custom / read-free / empty neutral region) on 4 small genes + up to 3 gen_db genes (both strands and builds, with/without pseudogene, random structures), "
        "profile from a BAM; profile from `aldy profile` YAML on shipped CYP2W1 (default + custom neutral region); NA10860 as its own profile. "
        "distinct = (gene, family, role, k, neutral region); non-trivial = the run was normalised (not rejected)."
    )
    ctx.trusted = ["TLC", "pysam/htslib", "harness/gen_reads.py", "harness/checks/c07.py recorders (sums read through Coverage.total / profile.data)"]
    ctx.assumptions = [
        "CIGAR alphabet {M,I,D,S,H,=,X}; reads lie inside the region Profile.get_sam_profile_data scans (gene and neutral region +-1000)",
        "float results are compared with the exact rational within 2e-6; `== 2.0` is required exactly for a clean self-profile",
        "structure independence of depth is checked as equality of estimate_cn's result between R and Dup(k, R) (the CN model itself is C03's)",
        "runs whose exact arithmetic does not fit 32-bit integers after gcd reduction are skipped and counted (parts.skipped_32bit)",
    ]
    mc_jobs = [("mc/MC_Depth", "mc/MC_Depth_quick.cfg" if quick else "mc/MC_Depth.cfg", "MC_Depth"), ("mc/MC_Depth", "mc/MC_Depth_empty.cfg", "MC_Depth(empty neutral)")]
    if os.environ.get("VERIF_DEV_SKIP_MC"):
        mc_jobs = []
    results, errors = {}, []

    def job(mod, cfg, label):
        try:
            results[label] = tlc.run(mod, cfg, workers=7, timeout=3400, coverage=not quick)
        except Exception as ex:  # noqa
            errors.append((label, ex))

    threads = [threading.Thread(target=job, args=j) for j in mc_jobs]
    for t in threads:
        t.start()
    from concurrent.futures import ThreadPoolExecutor

    pool = ThreadPoolExecutor(max_workers=4)
    pending = []
    try:
        nfam = 3 if quick else 36
        confs = [("hg19", "+", "-", 1, True), ("hg38", "+", "-", 2, True), ("hg19", "-", "+", 3, False), ("hg38", "-", "+", 4, True),
                 ("hg19", "gen_db", "", 200, None), ("hg38", "gen_db", "", 200, None), ("hg19", "gen_db", "", 201, None)]
        for genome, s19, s38, seed, pseudo in confs:
            if s19 == "gen_db":
                gene, text, path, contig_len = c06.generated_gene(genome, seed + 10 * ctx.seed, tag="c07gdb")
                pseudo = len(gene.regions) > 1
                if contig_len - gene.get_wide_region().end < 5000 and gene.get_wide_region().start < 4600:
                    continue
            else:
                gene, text, path = c06.toy_gene(genome, s19, s38, seed + 10 * ctx.seed, pseudogene=pseudo, indels=bool(seed % 2), tag="c07")
                contig_len = 20000
            contig = gen_reads.contig(gene, contig_len, random.Random(rng.randrange(1 << 30)))
            batch = DBatch(gene, f"B:{'gdb' + str(seed) if s19 == 'gen_db' else ''}{genome}{'+' if gene.strand > 0 else '-'}p{int(pseudo)}", yml=text, genome=genome)
            for fam in range(1, nfam + 1):
                family(ctx, rng, batch, fam, gene, text, genome, contig, contig_len, quick)
            rows, canary = prepare(batch, random.Random(rng.randrange(1 << 30)))
            pending.append((batch, rows, canary, pool.submit(trace_job, rows, batch.label)))
        b = yaml_route(ctx, rng, quick)
        rows, canary = prepare(b, random.Random(1))
        pending.append((b, rows, canary, pool.submit(trace_job, rows, b.label)))
        if True:  # also in the quick tier (17 s): CYP2D6 is the shipped database whose gene and pseudogene regions OVERLAP
            b = na10860_self(ctx)
            if len(b.rows) > 1:
                pending.append((b, b.rows, {}, pool.submit(trace_job, b.rows, b.label)))
        for batch, rows, canary, fut in pending:
            judge(ctx, batch, rows, canary, fut.result())
            ev = next((e for e in batch.rows[1:] if e["role"] == "dup"), None)
            if ev:
                ctx.sample({"batch": batch.label, "run": {k: (v if k not in ("sample", "profile") else f"{len(v)} reads") for k, v in ev.items()}}, cap=5)
    finally:
        pool.shutdown(wait=True)
        for t in threads:
            t.join()
    if errors:
        raise errors[0][1]
    for label, r in results.items():
        ctx.states += r.distinct
        ctx.transitions += r.generated
        ctx.mc_runs.append(dict(r.summary(), module=label, coverage=dict(r.coverage) if r.coverage else None))
        if not r.ok:
            raise MachineryError(f"spec-level check {label} failed: {r.violated}\n{r.error_text[:3000]}")


def replay(path):
    from ..core import Ctx

    aldyenv.setup()
    with open(path) as f:
        case = json.load(f)["case"]
    ctx = Ctx("C07", "quick", 0)
    if case.get("kind") in ("yaml", "na10860"):
        b = yaml_route(ctx, random.Random(7000), True) if case["kind"] == "yaml" else na10860_self(ctx)
        r = trace_job(b.rows, b.label)
        rej = judge(ctx, b, b.rows, {}, r)
    else:
        gene = gen_reads.load_gene(c06.write_yaml(case["yaml"], "replay07.yml"), case["genome"])
        batch = DBatch(gene, "replay")

        def rd(lst):
            return [(gen_reads.Read(d["name"], d["start"], [tuple(c) for c in d["cigar"]], d["seq"], d["qual"], d["mapq"], d["flag"]), m) for d, m in lst]

        S, P = rd(case["sample"]), rd(case["profile"])
        d = tlc.scratch()
        sbam = write_set(os.path.join(d, "r_s.bam"), gene, case["contig_len"], S)
        pbam = sbam if case["pself"] else write_set(os.path.join(d, "r_p.bam"), gene, case["contig_len"], P)
        from aldy.common import GRange as GR

        rec, _ = run_real(gene, sbam, ("bam", pbam), batch.regs, GR(gene.chr, case["cn"][0], case["cn"][1]))
        print("recorded now:", rec)
        batch.add(1, "other" if case["role"] in ("dup", "genedup") else case["role"], case["kk"], case["cn"], S, None if case["pself"] else P, rec, case)
        r = trace_job(batch.rows, "replay")
        rej = judge(ctx, batch, batch.rows, {}, r)
    if ctx.violations:
        print(f"VIOLATION property=C07 replay={path}")
        print("  rejected:", list(rej.values())[:5])
        return 1
    print("replay: accepted")
    return 0
