"""C16 — VCF genotypes are turned into matching evidence for every variant kind.

Spec: spec/VcfInput.tla (Record / MergeMNP / Close over norm[site], muts[site, op]; semantic layer
Copies / Support; invariants SupportProportional, ReferenceReduced, NoRecordIsHomRef, IgnoredAreNoOps,
RefMismatchReexpressed, HetIsRefSlashAllele).
  MC : spec/mc/MC_VcfInput (6-base reference, one catalogued variant of each kind, every record with
       REF/ALT <= 2 bases, six genotypes, <= 2 records per file in both orders).
  (A): every file of the MC universe (spec/gen/VcfInputGen; quick: every 97th single-record file + all
       focused 1/2-record files) is written as a real bgzipped, tabix-indexed VCF over the realised
       MC gene (+ and - strand), loaded by the real Sample(...), projected, validated by
       spec/trace/VcfTrace.tla; genotype() on the files that carry an allele heterozygously
       (the spec decides which: CarriesHet).
  (B): shipped genes and generated databases: catalogued major/minor alleles written as standard
       left-anchored records by a writer that works from the YAML (gen_db.from_yaml) + independent
       coordinate maps, het/hom, phased or not, multi-allelic, REF-mismatch spelling, MNP as one record or
       adjacent records, unrelated MNP/complex/symbolic/non-diploid records mixed in, multi-sample files
       with any sample index; same projection, same trace spec, genotype() for the het files.
"""
import json
import os
import random
import time

from .. import aldyenv, gen_db, tlc
from ..core import MachineryError

COMP = {"A": "T", "C": "G", "G": "C", "T": "A", "N": "N", ".": "."}
BASES = "ACGT"

# --------------------------------------------------------------------------- VCF text
HEADER = (
    "##fileformat=VCFv4.2\n"
    '##FORMAT=<ID=GT,Number=1,Type=String,Description="Genotype">\n'
    '##ALT=<ID=NON_REF,Description="Represents any possible alternative allele">\n'
    "##contig=<ID={chrom},length=300000000>\n"
)


def write_vcf(path, chrom, recs, samples):
    """recs: dicts(pos1, ref, alts[list of str], gts[list of str, one per sample]); written in the given
    order (must be position-sorted), bgzipped and tabix-indexed with pysam.  Returns the .gz path."""
    import pysam

    with open(path, "w") as f:
        f.write(HEADER.format(chrom=chrom))
        f.write("#CHROM\tPOS\tID\tREF\tALT\tQUAL\tFILTER\tINFO\tFORMAT\t" + "\t".join(samples) + "\n")
        for r in recs:
            f.write(f"{chrom}\t{r['pos1']}\t.\t{r['ref']}\t{','.join(r['alts'])}\t.\t.\t.\tGT\t" + "\t".join(r["gts"]) + "\n")
    pysam.tabix_index(path, preset="vcf", force=True)
    return path + ".gz"


def parse_gt(s):
    """'0|1' -> [0, 1]; './1' -> [-1, 1]; '.' -> [-1]"""
    return [(-1 if x == "." else int(x)) for x in s.replace("|", "/").split("/")]


def gt_text(idx, rng=None):
    sep = "|" if rng is not None and rng.random() < 0.3 else "/"
    return sep.join("." if x < 0 else str(x) for x in idx)


def kind_of(op):
    if ">" in op:
        return "sub" if len(op) == 3 else "mnp"
    if op.startswith("ins"):
        return "ins"
    if op.startswith("del"):
        return "delins" if "ins" in op[3:] else "del"
    return "other"


def rc(s):
    return "".join(COMP.get(x, x) for x in reversed(s))


# --------------------------------------------------------------------------- worker side
_GENES = {}


def _load_gene(src):
    """src: {"kind": "shipped", "name", "genome"} | {"kind": "yml", "path", "genome"}"""
    aldyenv.setup()
    from aldy.gene import Gene

    if src["kind"] == "shipped":
        from .. import genes

        path = os.path.join(genes.genes_dir(), src["name"].lower() + ".yml")
    else:
        path = src["path"]
    key = (path, src["genome"])
    if key not in _GENES:
        _GENES[key] = (Gene(path, genome=src["genome"]), path)
    return _GENES[key]


def _project_solution(sol, org):
    out = {"majors": [], "vs": []}
    for sa in sol.solution:
        g = sa.gene
        vs = set(g.alleles[sa.major].func_muts)  # a copy: SolvedAllele.mutations() edits the catalogue in place
        if sa.minor:
            vs |= set(g.alleles[sa.major].minors[sa.minor].neutral_muts)
        vs |= set(sa.added)
        vs -= set(sa.missing)
        out["majors"].append(str(sa.major))
        out["vs"] += [[m.pos - org, m.op] for m in sorted(vs)]
    out["vs"].sort()
    out["majors"].sort()
    return out


def run_file(job):
    """Write the VCF, load it with the real Sample, project the Coverage; genotype() when a call is
    expected.  Returns the 'file' event of VcfTrace (without the gene)."""
    aldyenv.setup()
    from aldy.gene import Mutation
    from aldy.profile import Profile
    from aldy.sam import Sample

    gene, yml = _load_gene(job["src"])
    org = job["origin"]
    base = os.path.join(job["dir"], f"v{os.getpid()}_{job['id']}.vcf")
    gz = write_vcf(base, gene.chr, job["vcf"], job["samples"])
    t_start = time.time()
    ev = {"k": "file", "id": job["id"], "t": 0, "crash": "", "sites": [], "cov": [], "call": [], "recs": job["recs"], "segs": []}
    # reference windows for the spec (gene[site] = the RefSeq-derived, genome-oriented reference)
    for r in job["recs"]:
        lo = r["pos"] - 2
        hi = r["pos"] + len(r["ref"]) + 2
        ev["segs"].append({"lo": lo, "b": [gene[p + org] for p in range(lo, hi + 1)]})
    try:
        try:
            s = Sample(gene, Profile("user_provided", cn_solution=["1", "1"], vcf_sample_idx=job["idx"]), gz)
            cov = s.coverage
        except Exception as ex:  # the property: no record shape may fail the run
            ev["crash"] = type(ex).__name__
            return ev
        span = set()
        for r in job["recs"]:
            span.update(range(r["pos"] + org - 1, r["pos"] + org + len(r["ref"]) + 1))
        dev = set()
        for p, ops in cov._coverage.items():
            if len(ops) == 1 and "_" in ops and len(ops["_"]) == 20:
                continue
            dev.add(p)
            if len(dev) > 300:
                break
        for p in sorted(span | dev):
            ops = cov._coverage.get(p, {})
            ev["sites"].append(
                {"s": p - org, "ops": [[str(op), len(v)] for op, v in ops.items() if not str(op).startswith("ins")]}
            )
        keys = {tuple(k) for k in job.get("watch", [])}
        for (p, op) in gene.mutations:
            if p in span or cov[Mutation(p, op)] > 0:
                keys.add((p - org, op))
        for (p, op) in sorted(keys):
            m = Mutation(p + org, op)
            ev["cov"].append({"site": p, "op": op, "kind": kind_of(op), "cov": int(cov[m]), "total": int(cov.total(m))})
        if job.get("planted"):
            from aldy.genotype import genotype

            call = {"planted": job["planted"], "sols": [], "crash": ""}
            try:
                with aldyenv.quiet_stderr():
                    res = genotype(yml, gz, None, None, genome=job["src"]["genome"], vcf_sample_idx=job["idx"])
                for sol in list(res.values())[0]:
                    call["sols"].append(_project_solution(sol, org))
            except Exception as ex:
                call["crash"] = type(ex).__name__
            ev["call"].append(call)
        return ev
    finally:
        ev["t"] = int(1000 * (time.time() - t_start))
        for p in (base, gz, gz + ".tbi"):
            try:
                os.unlink(p)
            except OSError:
                pass


def gene_event(src, org, alleles=None):
    gene, _ = _load_gene(src)
    cat, mnps = [], []
    for (p, op) in sorted(gene.mutations):
        cat.append([p - org, op, kind_of(op)])
    # every catalogued multi-nucleotide substitution (aldy's own _multi_sites keeps the functional ones only)
    for p, op in sorted(k for k in gene.mutations if ">" in k[1] and len(k[1]) > 3):
        l, r = op.split(">")
        mnps.append({"site": p - org, "l": list(l), "r": list(r), "op": op})
    return {"k": "gene", "cat": cat, "mnps": mnps, "alleles": alleles or []}


def _worker_init():
    aldyenv.setup()


# --------------------------------------------------------------------------- (A) the MC gene
MC_LEFT = "ACTGACCTGATTCAGGCTCA"       # 20 bases; window follows
MC_RIGHT = "CTTGACAGTCCATGGATCAGTTCGAACTGCAT"  # 32 bases
MC_START = 1001
MC_ORIGIN = MC_START - 1 + len(MC_LEFT)  # genome site of window index 0


def mc_db(gline, strand):
    """The MC gene of spec/mc/MC_VcfInput as an abstract gen_db database on `strand`; its
    genome-oriented reference contains the window at MC_ORIGIN whatever the strand."""
    gseq = MC_LEFT + "".join(gline["window"]) + MC_RIGHT
    L = len(gseq)
    seq = gseq if strand == "+" else rc(gseq)
    r2c, c2r = gen_db.maps(L, MC_START, strand, f"M{L}")

    def row(site, op):
        g0 = MC_ORIGIN + site
        k = kind_of(op)
        if strand == "+":
            return c2r[g0] + 1, op
        if k in ("sub", "mnp"):
            l, r = op.split(">")
            return c2r[g0 + len(l) - 1] + 1, f"{rc(l)}>{rc(r)}"
        if k == "del":
            return c2r[g0 + len(op) - 4] + 1, "del" + rc(op[3:])
        if k == "ins":
            return c2r[g0], "ins" + rc(op[3:])  # HGVS: between refseq p and p+1, p = 1-based index of the genome-RIGHT base
        raise ValueError(op)

    regs_ref = [("up", 0, 10), ("e1", 10, 40), ("e2", 44, 54), ("down", 54, L)]
    regions = {}
    for nm, a, b in regs_ref:
        gs, ge = (r2c[a], r2c[b - 1] + 1) if strand == "+" else (r2c[b - 1], r2c[a] + 1)
        regions[nm] = [gs + 1, ge + 1]
    alleles = []
    for i, a in enumerate(gline["alleles"]):
        alleles.append(
            dict(
                name=f"MCG*{a['name']}.001", label=f"MCG*{a['name']}", structural=None,
                mutations=[list(row(s, op)) + ["-", f"fn{i}"] for s, op in a["vs"]],
            )
        )
    return dict(
        name="MCG", pseudogenes=[], refseq_name="NG_MC", seq=seq, exons=[[11, 41], [45, 55]], regions_ref=None,
        cn_regions=["e1", "i1", "e2"],
        builds={"hg19": dict(chr="20", start=MC_START, end=MC_START + L, strand=strand, cigar=f"M{L}", regions=regions)},
        alleles=alleles, random=[], groups={}, tandems=[],
    )


def vcf_of_recs(recs, org, rng, nsamples=1, idx=0, decoy_gts=None):
    """spec records (0-based relative pos) -> VCF rows for `nsamples` samples; the selected sample
    carries the record's genotype, the others a decoy."""
    rows = []
    for r in recs:
        gts = []
        for sidx in range(nsamples):
            if sidx == idx:
                gts.append(r.get("gt_text") or gt_text(r["gt"], rng))
            else:
                gts.append(rng.choice(decoy_gts or ["0/0", "0/1", "1/1", "./.", "1|0"]))
        rows.append({"pos1": r["pos"] + org + 1, "ref": "".join(r["ref"]), "alts": ["".join(a) for a in r["alts"]], "gts": gts})
    return rows


# --------------------------------------------------------------------------- (B) writer from the YAML
class DbView:
    """Independent view of one build of a database: coordinate maps (gen_db.maps), the genome-oriented
    reference derived from the RefSeq sequence, and written variant -> standard left-anchored records."""

    def __init__(self, db, build):
        self.db = db
        bd = db["builds"][build]
        self.strand = bd["strand"]
        self.chrom = bd["chr"]
        self.seq = db["seq"]
        self.r2c, self.c2r = gen_db.maps(len(self.seq), bd["start"], bd["strand"], bd["cigar"])
        self.lo, self.hi = min(self.c2r), max(self.c2r)

    def gref(self, site):
        r = self.c2r.get(site)
        if r is None:
            return "N"
        b = self.seq[r]
        return b if self.strand == "+" else COMP.get(b, "N")

    def grefs(self, a, b):
        return "".join(self.gref(p) for p in range(a, b))

    def variant(self, pos, op):
        """(pos, op) as written in the YAML -> dict(kind, key=(site, loaded op), site, n) or None when
        the variant cannot be written as a contiguous genome event (alignment gap / unmapped / delins)."""
        k = gen_db.kind_of(op)
        if k == "delins":
            return None
        ref, alt = gen_db.parts_of(op)
        n = max(len(ref), 1)
        if k == "ins":
            r_left = pos - 1 if self.strand == "+" else pos  # refseq index of the genome-LEFT neighbour
            r_right = pos if self.strand == "+" else pos - 1
            a, b = self.r2c.get(r_left), self.r2c.get(r_right)
            if a is None or b is None or b != a + 1:
                return None
            x = alt if self.strand == "+" else rc(alt)
            return dict(kind="ins", key=(a, "ins" + x), site=a, ins=x)
        idx = [pos - 1 + i for i in range(n)]
        sites = [self.r2c.get(i) for i in idx]
        if any(s is None for s in sites):
            return None
        site = min(sites)
        if sorted(sites) != list(range(site, site + n)):
            return None
        if k in ("sub", "msub"):
            l, r = (ref, alt) if self.strand == "+" else (rc(ref), rc(alt))
            if any(a == b and a != "." for a, b in zip(l, r)):
                return None  # an unchanged base written explicitly ("TGG>GGT"): not a shipped spelling, no record can express it
            return dict(kind="sub" if k == "sub" else "mnp", key=(site, f"{l}>{r}"), site=site, l=l, r=r)
        d = ref if self.strand == "+" else rc(ref)
        if self.gref(site - 1) == "N":
            return None
        return dict(kind="del", key=(site, "del" + d), site=site, n=n)

    # standard records (0-based absolute pos); gt filled by the caller
    def records(self, v, mnp_style="one"):
        s = v["site"]
        if v["kind"] == "sub":
            return [dict(pos=s, ref=self.gref(s), alts=[v["r"]])]
        if v["kind"] == "mnp":
            n = len(v["l"])
            if mnp_style == "one":
                refs = self.grefs(s, s + n)
                alt = "".join(refs[i] if v["l"][i] == "." else v["r"][i] for i in range(n))
                return [dict(pos=s, ref=refs, alts=[alt])]
            return [dict(pos=s + i, ref=self.gref(s + i), alts=[v["r"][i]]) for i in range(n) if v["l"][i] != "."]
        if v["kind"] == "del":
            return [dict(pos=s - 1, ref=self.grefs(s - 1, s + v["n"]), alts=[self.gref(s - 1)])]
        if v["kind"] == "ins":
            return [dict(pos=s, ref=self.gref(s), alts=[self.gref(s) + v["ins"]])]
        raise ValueError(v)


HET = ["0/1", "1/0", "0|1", "1|0"]
HOM = ["1/1", "1|1"]


def _remap_gt(gt, mapping):
    sep = "|" if "|" in gt else "/"
    return sep.join(str(mapping[int(x)]) if x != "." else "." for x in gt.replace("|", "/").split("/"))


def build_case(rng, view, gene, rows, zyg, org, allow_called_junk=True):
    """rows: YAML rows [(pos, op)] of the planted allele.  Returns dict(recs, vcf rows..., planted keys,
    pure, flags) or None if a row cannot be written."""
    vs = []
    for pos, op in rows:
        v = view.variant(pos, op)
        if v is None or v["key"] not in gene.mutations:
            return None
        vs.append(v)
    if len({v["key"] for v in vs}) != len(vs):
        return None
    recs = []
    flags = set()
    pure = True
    for v in vs:
        gt = rng.choice(HET if zyg == "het" else HOM)
        style = rng.choice(["one", "adjacent"]) if v["kind"] == "mnp" else "one"
        rr = view.records(v, style)
        flags.add(v["kind"])
        if v["kind"] == "mnp":
            flags.add("mnp-" + style)
        for r in rr:
            r["gt_text"] = gt
            r["role"] = v["kind"]
        if v["kind"] == "sub":
            x = rng.random()
            g0, alt = rr[0]["ref"], rr[0]["alts"][0]
            if x < 0.12:
                # REF-mismatch spelling: the file's REF is the variant base, its ALT the RefSeq base
                rr[0].update(ref=alt, alts=[g0], gt_text=(rng.choice(["0/1", "1/0", "0|1"]) if zyg == "het" else rng.choice(["0/0", "0|0"])))
                flags.add("refmismatch")
            elif x < 0.24:
                other = rng.choice([b for b in BASES if b not in (g0, alt)])
                if rng.random() < 0.5:
                    rr[0]["alts"] = [alt, other]
                else:
                    rr[0]["alts"] = [other, alt]
                    rr[0]["gt_text"] = _remap_gt(gt, {0: 0, 1: 2})
                flags.add("multiallelic-unused")
            elif x < 0.30:
                # 1/2: both alternates called (evidence only; the second is not part of the allele)
                other = rng.choice([b for b in BASES if b not in (g0, alt)])
                rr[0].update(alts=[alt, other], gt_text=rng.choice(["1/2", "2/1", "1|2"]))
                flags.add("multiallelic-12")
                pure = False
        recs += rr
    planted = sorted({v["key"] for v in vs})
    # ---- unrelated records
    cat_sites = sorted({p for p, _ in gene.mutations})
    taken = [(r["pos"] - 8, r["pos"] + len(r["ref"]) + 8) for r in recs]

    def free_site():
        for _ in range(200):
            s = rng.randint(view.lo + 5, view.hi - 8)
            if any(a <= s <= b for a, b in taken):
                continue
            if any(abs(s - c) <= 8 for c in cat_sites if abs(s - c) <= 8):
                continue
            if "N" in view.grefs(s - 2, s + 5):
                continue
            taken.append((s - 8, s + 12))
            return s
        return None

    for _ in range(rng.choice([0, 1, 1, 2, 3])):
        s = free_site()
        if s is None:
            break
        kind = rng.choice(["mnp", "complex", "symbolic", "nondiploid", "homref", "novel"])
        g = view.grefs(s, s + 3)
        if kind == "mnp":
            alt = "".join(rng.choice([b for b in BASES if b != x]) for x in g[:2])
            r = dict(pos=s, ref=g[:2], alts=[alt])
        elif kind == "complex":
            alt = rng.choice([b for b in BASES if b != g[0]]) + rng.choice(BASES) + rng.choice(BASES)
            r = dict(pos=s, ref=g[:2], alts=[alt])
        elif kind == "symbolic":
            r = dict(pos=s, ref=g[0], alts=[rng.choice(["*", "<NON_REF>"])])
        else:
            r = dict(pos=s, ref=g[0], alts=[rng.choice([b for b in BASES if b != g[0]])])
        if kind in ("mnp", "complex", "symbolic"):
            called = allow_called_junk and rng.random() < 0.3
            r["gt_text"] = rng.choice(["0/1", "1/1", "1|0"]) if called else rng.choice(["0/0", "./.", "0|0", "."])
            if called:
                flags.add("junk-called")
        elif kind == "nondiploid":
            r["gt_text"] = rng.choice(["./1", "0/0/1", "1", "./.", "1/1/1", "0/1/1"])
            flags.add("nondiploid")
        elif kind == "homref":
            r["gt_text"] = rng.choice(["0/0", "0|0"])
        else:
            r["gt_text"] = rng.choice(HET + HOM)
            pure = False
            flags.add("novel-snv")
        r["role"] = "extra-" + kind
        recs.append(r)
    # a catalogued variant that is NOT planted, with a genotype that must be ignored / counts as reference
    others = [k for k in gene.mutations if k not in planted and kind_of(k[1]) == "sub" and all(abs(k[0] - q[0]) > 3 for q in planted)]
    if others and rng.random() < 0.5:
        p, op = rng.choice(sorted(others))
        if not any(a + 6 <= p <= b - 6 for a, b in taken) and view.gref(p) == op[0]:
            recs.append(dict(pos=p, ref=op[0], alts=[op[2]], gt_text=rng.choice(["./1", "0/0/1", "0/0", "./.", "1/1/1"]), role="decoy"))
            flags.add("decoy")
    recs.sort(key=lambda r: r["pos"])
    out = []
    for r in recs:
        out.append(
            dict(pos=r["pos"] - org, ref=list(r["ref"]), alts=[([a] if a.startswith("<") or a == "*" else list(a)) for a in r["alts"]],
                 gt=parse_gt(r["gt_text"]), gt_text=r["gt_text"], role=r["role"])
        )
    return dict(recs=out, planted=planted, pure=pure, flags=sorted(flags))


# --------------------------------------------------------------------------- fingerprints
def fingerprint(binding, clause, tag, meta):
    flags = set(meta.get("flags", []))
    return {
        "route": "vcf", "binding": binding, "clause": clause, "tag": tag,
        "has_ins": "ins" in flags, "has_mnp": "mnp" in flags, "junk_called": "junk-called" in flags,
    }


def mc_flags(gline, recs):
    """Coarse flags of an MC file (for fingerprints only): which catalogued kinds / other shapes it spells."""
    flags = set()
    for r in recs:
        called = [y for y in r["gt"] if y >= 0]
        if len(called) != 2:
            continue
        ref = "".join(r["ref"])
        for y in set(called):
            if y == 0:
                continue
            alt = "".join(r["alts"][y - 1])
            off = 0
            while off < min(len(ref), len(alt)) and ref[off] == alt[off]:
                off += 1
            if len(ref) - off == 1 and len(alt) - off == 1:
                flags.add("sub")
            elif len(ref) > len(alt) and len(alt) == off:
                flags.add("del")
            elif len(ref) < len(alt) and len(ref) == off:
                flags.add("ins")
            elif len(ref) == len(alt) and r["pos"] == 5 and ref == "GG" and alt == "CC":
                flags.add("mnp")
            else:
                flags.add("junk-called")
    # components of the catalogued MNP as adjacent records
    sites = {(r["pos"], "".join(r["ref"]), "".join(a)) for r in recs for a in r["alts"]}
    if (5, "G", "C") in sites and (6, "G", "C") in sites:
        flags.add("mnp")
    return sorted(flags)


# --------------------------------------------------------------------------- main
def _pool():
    import multiprocessing

    n = max(2, min(14, (os.cpu_count() or 4) - 2))
    return multiprocessing.get_context("fork").Pool(n, initializer=_worker_init)


def _strip(rec):
    return {k: rec[k] for k in ("pos", "ref", "alts", "gt")}


def run(ctx):
    quick = ctx.tier == "quick"
    rng = random.Random(1600 + ctx.seed)
    ctx.rule = (
        "MC: every file of <= 1 record over ALL records with REF/ALT <= 2 bases at 6 sites x 6 genotypes, and every ordered pair of "
        "58 focused records (standard spellings of one sub/del/ins/MNP, MNP components, REF mismatch, multi-allelic, unrelated MNP). "
        "(A) those files written as real tabix-indexed VCFs over the realised MC gene on both strands and loaded by the real Sample; "
        "(B) catalogued major/minor alleles of shipped genes and generated databases written by an independent YAML-based writer. "
        "distinct = distinct (gene, build, VCF text, sample index); non-trivial = at least one allele copy gives evidence."
    )
    ctx.trusted = [
        "harness/checks/c16.py VCF writer and Coverage projection", "harness/gen_db.py (independent YAML reader and maps)",
        "pysam/htslib (bgzip, tabix, VariantFile)", "TLC", "allele membership (which variants form a major/minor allele) as loaded by aldy (C09)",
    ]
    ctx.assumptions = [
        "indels are written at their catalogued position (no left-normalisation through repeats)",
        "records whose sites receive more than two alternate copies (contradicting records) are not compared",
        "delins variants and structural (fusion/deletion) alleles are outside the property's variant kinds and are not planted",
        "the '_' count at the anchor of an insertion is free (each insertion copy may or may not reduce it); total(m) - coverage[m] is fixed",
        "RefMismatchReexpressed is asserted for a called REF allele and one-base substitution ALTs of a one-base mismatching REF; a mismatching anchor base of an indel ALT is not required to become a substitution",
    ]
    # ---- MC
    if quick:
        ctx.mc("mc/MC_VcfInput", "mc/MC_VcfInput_quick.cfg", label="MC_VcfInput(quick: U2 files)")
    else:
        ctx.mc("mc/MC_VcfInput", "mc/MC_VcfInput.cfg", label="MC_VcfInput(full)", timeout=3600)
    pool = _pool()  # forked before aldy/ortools are imported in this process
    try:
        _run_bindings(ctx, rng, quick, pool)
    finally:
        pool.terminate()
        pool.join()


def _dbg(*a):
    if os.environ.get("VERIF_DEBUG"):
        import sys

        print("[c16]", *a, file=sys.stderr, flush=True)


def _run_bindings(ctx, rng, quick, pool):
    aldyenv.setup()
    from .. import genes as genes_mod

    scratch = tlc.scratch()
    t0 = time.time()
    # =============================================================== (A)
    out = os.path.join(scratch, "vcf_files.ndjson")
    genv = {"OUT_FILE": out, "GEN_MODE": "quick" if quick else "full", "GEN_K": 97 if quick else 1, "GEN_S": ctx.seed % 97}
    r = ctx.mc("gen/VcfInputGen", "gen/VcfInputGen.cfg", workers=1, env=genv, label="VcfInputGen", timeout=3000)
    lines = tlc.read_ndjson(out)
    _dbg("gen done", round(time.time() - t0, 1))
    gline, files = lines[0], lines[1:]
    got = [p for p in r.prints if p[1] == "FILES"]
    if not got or got[0][2] != len(files):
        raise MachineryError("VcfInputGen emission mismatch")
    srcs = {}
    for strand in "+-":
        p = os.path.join(scratch, f"mcg_{'p' if strand == '+' else 'm'}.yml")
        gen_db.realise(mc_db(gline, strand), p)
        srcs[strand] = {"kind": "yml", "path": p, "genome": "hg19"}
        g, _ = _load_gene(srcs[strand])
        want = sorted([MC_ORIGIN + s, op] for s, op in gline["cat"])
        if sorted([p_, op] for p_, op in g.mutations) != want or g[MC_ORIGIN:MC_ORIGIN + 8] != "".join(gline["window"]):
            raise MachineryError(f"realised MC gene ({strand}) does not match the spec's gene: {sorted(g.mutations)} vs {want}")
    mc_alleles = [{"name": a["name"], "vs": a["vs"]} for a in gline["alleles"]]
    ref_name = gline["alleles"][0]["name"]
    # quick: all focused 1/2-record files + every 97th single-record file; thorough: every file of the MC universe.
    # Each file runs on one strand of the realised gene (alternating); every 5th (thorough: and every pair) on both.
    jobs, meta = [], {}
    jid = 0
    for f in files:
        recs = sorted(f["recs"], key=lambda r_: r_["pos"])  # VCF must be position-sorted (same-POS pairs keep both orders)
        both = f["id"] % 5 == 0 or (not quick and len(recs) == 2)
        for strand in ("+-" if both else "+-"[(f["id"] + ctx.seed) % 2]):
            jid += 1
            planted = None
            if f["het"]:
                a = next(a for a in gline["alleles"] if a["name"] == f["het"])
                planted = {"allele": a["name"], "ref": ref_name, "vs": sorted(a["vs"])}
            jobs.append(dict(id=jid, src=srcs[strand], origin=MC_ORIGIN, dir=scratch, recs=recs, idx=0, samples=["S1"],
                             vcf=vcf_of_recs(recs, MC_ORIGIN, rng), planted=planted,
                             watch=[[s, op] for s, op in gline["cat"]]))
            meta[jid] = dict(binding="A", strand=strand, flags=mc_flags(gline, recs), file=f["id"], gline=True)
    rows = {"+": [dict(gene_event(srcs["+"], MC_ORIGIN, mc_alleles))], "-": [dict(gene_event(srcs["-"], MC_ORIGIN, mc_alleles))]}
    events = {}
    for ev in pool.imap_unordered(run_file, jobs, chunksize=8):
        events[ev["id"]] = ev
    for j in jobs:
        ev = events[j["id"]]
        rows[meta[j["id"]]["strand"]].append(ev)
        ctx.traces += 1 + len(ev["call"])
        ctx.count(1, key=("A", meta[j["id"]]["strand"], json.dumps(j["vcf"], sort_keys=True)), nontrivial=bool(meta[j["id"]]["flags"]))
    _dbg("A executed", len(jobs), round(time.time() - t0, 1))
    ctx.parts["A"] = {"files_from_tlc": len(files), "executions": len(jobs), "with_genotype": sum(1 for j in jobs if j["planted"]),
                      "wall_s": round(time.time() - t0, 1)}
    ctx.sample({"binding": "A", "job": {k: jobs[8][k] for k in ("recs", "vcf", "planted")}, "observed": {k: events[jobs[8]["id"]][k] for k in ("sites", "cov", "call", "crash")}})
    CH = 6000
    chunks = []  # self-contained row lists (gene event first), validated by parallel TLC runs
    for st in "+-":
        evs_ = rows[st][1:]
        for i in range(0, len(evs_), CH):
            chunks.append([rows[st][0]] + evs_[i:i + CH])
    jobs_by_id = {j["id"]: j for j in jobs}

    # =============================================================== (B)
    t1 = time.time()
    names = genes_mod.shipped_names()
    if quick:
        core = ["cyp2d6", "nat1", "cyp2c19", "cyp2c8", "cyp3a5", "nudt15", "ugt1a1", "tpmt", "cyp2a6", "g6pd", "cyp2c9", "slco1b1"]
        rest = [n for n in names if n not in core and n not in ("dpyd", "ryr1", "cftr", "abcg2")]
        chosen_genes = core + rng.sample(rest, 3)
        per_gene = 6
    else:
        chosen_genes = names
        per_gene = 10 ** 9
    targets = []  # (src, db, build)
    for n in chosen_genes:
        build = rng.choice(["hg19", "hg38"])
        path = os.path.join(genes_mod.genes_dir(), n + ".yml")
        targets.append(({"kind": "shipped", "name": n, "genome": build}, gen_db.from_yaml(path), build, n))
    ngen = 4 if quick else 40
    for i in range(ngen):
        db = gen_db.random_db(
            random.Random(rng.random()), name=f"GEN{i}", pseudogene=False, deletion=False, fusions=dict(left=0, right=0),
            strands=rng.choice([("-", "-"), ("-", "+"), ("+", "-"), ("-", "-")]),
            kinds=dict(sub=4, msub=2.5, **{"del": 2.5, "ins": 2.5, "delins": 0.5}), p_functional=0.6, n_variants=(8, 16),
        )
        p = os.path.join(scratch, f"gen{i}.yml")
        gen_db.realise(db, p)
        build = "hg19" if db["builds"]["hg19"]["strand"] == "-" else "hg38"
        targets.append(({"kind": "yml", "path": p, "genome": build}, db, build, f"gen{i}"))
    bjobs = []
    gene_rows = {}
    stats = {"alleles": 0, "unwritable": 0, "kinds": {}}
    for src, db, build, label in targets:
        gene, _ = _load_gene(src)
        org = gene._lookup_range[0]
        view = DbView(db, build)
        # the independent reference must be the one aldy serves
        probe = [rng.randint(view.lo, view.hi) for _ in range(50)]
        if any(view.gref(p) != gene[p] for p in probe):
            raise MachineryError(f"{label}: independent genome-oriented reference disagrees with gene[pos]")
        gene_rows[label] = gene_event(src, org)
        # genotype() costs ~1 s per 20 kb of gene region (four passes over every site): cap the calls per gene
        size = gene.get_wide_region().end - gene.get_wide_region().start
        if quick:
            call_cap = 4 if size < 30000 else (2 if size < 65000 else (1 if size < 120000 else 0))
        else:
            call_cap = max(5, int(150 / max(1.0, size / 20000.0)))
        calls = 0
        refs = [an for an, a in gene.alleles.items() if a.cn_config == "1" and not a.func_muts]
        ref_major = refs[0] if len(refs) == 1 else None
        # catalogue: YAML allele name -> rows; major membership from the loaded gene
        yaml_rows = {}
        for a in db["alleles"]:
            if a.get("structural"):
                continue
            yaml_rows[a["name"].split("*", 1)[1].replace("/", "_") if "*" in a["name"] else a["name"]] = [(m[0], m[1]) for m in a["mutations"]]
        cands = []  # (level, major, name, rows)
        for an, a in gene.alleles.items():
            if a.cn_config != "1":
                continue
            for mn in a.minors:
                if mn not in yaml_rows:
                    continue
                rws = yaml_rows[mn]
                cands.append(("minor", an, mn, rws))
                frows = []
                for pos, op in rws:
                    v = view.variant(pos, op)
                    if v is not None and v["key"] in {(m.pos, m.op) for m in a.func_muts}:
                        frows.append((pos, op))
                if len(frows) == len(a.func_muts) and frows:
                    cands.append(("major", an, an, frows))
        seen, uniq = set(), []
        for c in cands:
            k = (c[1], tuple(sorted(c[3])))
            if k not in seen and c[3]:
                seen.add(k)
                uniq.append(c)

        def interesting(c):
            return any(gen_db.kind_of(op) != "sub" for _, op in c[3])

        rng.shuffle(uniq)
        uniq.sort(key=lambda c: not interesting(c))
        if quick:
            ni = sum(1 for c in uniq if interesting(c))
            pick = uniq[: min(ni, per_gene - 2)] + uniq[ni: ni + max(2, per_gene - min(ni, per_gene - 2))]
        else:
            cap = 30 if label in ("dpyd", "ryr1") else 120
            pick = uniq[:cap]
        for level, major, name, rws in pick:
            for zyg in (["het"] if quick and rng.random() < 0.7 else ["het", "hom"]):
                stats["alleles"] += 1
                case = build_case(rng, view, gene, rws, zyg, org)
                if case is None:
                    stats["unwritable"] += 1
                    continue
                for k in case["flags"]:
                    stats["kinds"][k] = stats["kinds"].get(k, 0) + 1
                nsamp = rng.choice([1, 1, 2, 3])
                idx = rng.randrange(nsamp)
                jid += 1
                planted = None
                want_call = zyg == "het" and case["pure"] and ref_major is not None
                if want_call and calls < call_cap:
                    calls += 1
                    planted = {"allele": major, "ref": ref_major, "vs": sorted([p - org, op] for p, op in case["planted"])}
                recs = [_strip(r) for r in case["recs"]]
                bjobs.append(dict(id=jid, src=src, origin=org, dir=scratch, recs=recs, idx=idx, samples=[f"S{i}" for i in range(nsamp)],
                                  vcf=vcf_of_recs(case["recs"], org, rng, nsamp, idx), planted=planted,
                                  watch=[[p - org, op] for p, op in case["planted"]]))
                meta[jid] = dict(binding="B", gene=label, build=build, strand=view.strand, level=level, allele=name, major=major, zyg=zyg,
                                 flags=case["flags"], roles=[r["role"] for r in case["recs"]], gt=[r["gt_text"] for r in case["recs"]],
                                 src=src, db=(db if src["kind"] == "yml" else None))
    bevents = {}
    # longest first
    big = ("dpyd", "ryr1", "cftr", "ugt1a1", "abcg2", "slco1b1", "cacna1s", "cyp2c19")
    order = sorted(bjobs, key=lambda j: (j["planted"] is None, big.index(j["src"].get("name")) if j["src"].get("name") in big else 99))
    for ev in pool.imap_unordered(run_file, order, chunksize=1):
        bevents[ev["id"]] = ev
    _dbg("B executed", len(bjobs), round(time.time() - t1, 1))
    if os.environ.get("VERIF_DEBUG"):
        tt = {}
        for j in bjobs:
            k = (meta[j["id"]]["gene"], bool(j["planted"]))
            tt.setdefault(k, []).append(bevents[j["id"]]["t"])
        _dbg("B ms per (gene, call):", {k: (len(v), sum(v) // len(v)) for k, v in sorted(tt.items())})
    by_label = {}
    for j in bjobs:
        by_label.setdefault(meta[j["id"]]["gene"], []).append(bevents[j["id"]])
        ev = bevents[j["id"]]
        ctx.traces += 1 + len(ev["call"])
        ctx.count(1, key=("B", meta[j["id"]]["gene"], meta[j["id"]]["build"], json.dumps(j["vcf"], sort_keys=True), j["idx"]), nontrivial=True)
        jobs_by_id[j["id"]] = j
    for label, evs in by_label.items():
        if chunks and len(chunks[-1]) + len(evs) < 400 and chunks[-1][0].get("alleles") == []:
            chunks[-1] += [gene_rows[label]] + evs
        else:
            chunks.append([gene_rows[label]] + evs)
    ctx.parts["B"] = {"genes": [t[3] for t in targets], "files": len(bjobs), "with_genotype": sum(1 for j in bjobs if j["planted"]),
                      "allele_cases": stats["alleles"], "unwritable": stats["unwritable"], "flags": stats["kinds"], "wall_s": round(time.time() - t1, 1)}
    for j in bjobs[:2]:
        ctx.sample({"binding": "B", "meta": {k: v for k, v in meta[j["id"]].items() if k not in ("db", "src")}, "vcf": j["vcf"], "idx": j["idx"],
                    "observed": {k: bevents[j["id"]][k] for k in ("sites", "cov", "call", "crash")}})
    events.update(bevents)

    # =============================================================== canaries (derived from the events; judged below)
    canary = {}
    cid = 10 ** 7
    def anchor(e):
        """a supported substitution/deletion at a site no insertion-like record touches: (cov entry, site entry, record index)"""
        if any(len(a) > len(r_["ref"]) for r_ in e["recs"] for a in r_["alts"]):
            return None
        for x in e["cov"]:
            if x["cov"] in (10, 20) and x["kind"] == "sub":
                so = next((s_ for s_ in e["sites"] if s_["s"] == x["site"]), None)
                ri = [i for i, r_ in enumerate(e["recs"]) if r_["pos"] == x["site"] and len(r_["ref"]) == 1]
                if so is not None and len(ri) == 1 and sum(n for _, n in so["ops"]) == 20:
                    return x, so, ri[0]
        return None

    cand = [e for e in list(events.values()) if not e["crash"] and anchor(e)]
    rng.shuffle(cand)
    canary_rows = []
    for e in cand[:24]:
        c = json.loads(json.dumps(e))
        cid += 1
        c["id"] = cid
        x, so, ri = anchor(c)
        kind = rng.choice(["cov", "ref", "droprec", "spurious", "call"])
        if kind == "call" and not (c["call"] and c["call"][0]["sols"]):
            kind = "cov"
        if kind == "cov":
            x["cov"] = 30 - x["cov"]
        elif kind == "ref":
            so["ops"] = [[op, n] for op, n in so["ops"] if op != "_"] + [["_", 20]]
        elif kind == "droprec":
            del c["recs"][ri]
        elif kind == "spurious":
            s_ = next((s_ for s_ in c["sites"] if s_["ops"] == [["_", 20]]), None)
            if s_ is None:
                continue
            s_["ops"] = [["_", 10], ["A>C", 10]]
        elif kind == "call":
            c["call"][0]["sols"][0]["majors"] = ["@", "@"]
            c["call"][0]["sols"][0]["vs"] = c["call"][0]["sols"][0]["vs"] + [[0, "A>C"]]
        canary[cid] = (kind, e["id"])
        m = meta[e["id"]]
        canary_rows.append((m, c))
    # canaries ride behind their gene event
    crow = []
    for m, c in canary_rows:
        crow.append(rows[m["strand"]][0] if m["binding"] == "A" else gene_rows[m["gene"]])
        crow.append(c)
    if crow:
        chunks.append(crow)

    # =============================================================== trace validation
    from concurrent.futures import ThreadPoolExecutor

    chunks.sort(key=len, reverse=True)
    with ThreadPoolExecutor(max_workers=3 if quick else 6) as tp:
        futs = [
            tp.submit(ctx.trace_batch, "trace/VcfTrace", "trace/VcfTrace.cfg", ch, label=f"VcfTrace{i}", timeout=3000, heap="3g")
            for i, ch in enumerate(chunks)
        ]
        rej = [x for f in futs for x in f.result()]
    _dbg("trace done", sum(len(c) for c in chunks), len(chunks), round(time.time() - t1, 1))
    rejected = {}
    for rr in rej:
        rejected.setdefault(rr[0], []).append(rr[1:])
    for c_id, (kind, srcid) in canary.items():
        if srcid in rejected:
            continue  # only canaries derived from accepted cases count
        ctx.canary(c_id in rejected)
    nclause = {}
    for fid, vs in rejected.items():
        if fid in canary:
            continue
        m = meta[fid]
        j = jobs_by_id[fid]
        for clause, tag, site in vs:
            if clause.startswith("Machinery:"):
                raise MachineryError(f"{clause} {tag} site={site} job={j['vcf']} meta={ {k: v for k, v in m.items() if k not in ('db',)} }")
            nclause[clause] = nclause.get(clause, 0) + 1
            case = {
                "binding": m["binding"], "meta": {k: v for k, v in m.items() if k != "gline"},
                "gline": gline if m["binding"] == "A" else None,
                "job": {k: j[k] for k in ("recs", "vcf", "idx", "samples", "planted", "watch", "origin")},
                "observed": events[fid], "verdict": [clause, tag, site],
            }
            ctx.violation(clause, fingerprint(m["binding"], clause, tag, m), case,
                          f"{m.get('gene', 'MCG')}{m.get('strand')} {m.get('allele', '')} {tag} site={site} vcf={j['vcf'][:3]}")
    ctx.parts["rejections_by_clause"] = nclause
    kn = {}
    for k in ctx.known:
        key = f"{k['id']}|{k['clause']}|{k['fingerprint']['tag']}|{k['fingerprint']['binding']}"
        kn[key] = kn.get(key, 0) + 1
    ctx.parts["known_findings_by_clause_tag_binding"] = kn


def replay(path):
    from ..core import Ctx

    aldyenv.setup()
    with open(path) as f:
        case = json.load(f)["case"]
    ctx = Ctx("C16", "quick", 0)
    scratch = tlc.scratch()
    m = case["meta"]
    if case["binding"] == "A":
        p = os.path.join(scratch, "mcg.yml")
        gen_db.realise(mc_db(case["gline"], m["strand"]), p)
        src = {"kind": "yml", "path": p, "genome": "hg19"}
        alleles = [{"name": a["name"], "vs": a["vs"]} for a in case["gline"]["alleles"]]
    elif m.get("db"):
        p = os.path.join(scratch, "gen.yml")
        gen_db.realise(m["db"], p)
        src = {"kind": "yml", "path": p, "genome": m["build"]}
        alleles = None
    else:
        src = m["src"]
        alleles = None
    j = dict(case["job"], id=1, src=src, dir=scratch)
    ev = run_file(j)
    rows = [gene_event(src, j["origin"], alleles), ev]
    rej = ctx.trace_batch("trace/VcfTrace", "trace/VcfTrace.cfg", rows, label="replay")
    print("VCF rows:", j["vcf"], "sample index", j["idx"])
    print("observed now:", {k: ev[k] for k in ("crash", "sites", "cov", "call")})
    if rej:
        print(f"VIOLATION property=C16 replay={path}")
        print("  rejected:", rej)
        return 1
    print("replay: accepted")
    return 0
