"""CENC — development entry point (not a registered property): the encoding layers and rule-sensitivity
witnesses of the three ILP stages, i.e. the parts of C02 / C03 / C04 implemented in harness/checks/enc.py.
`bin/check CENC quick|thorough`, `bin/check CENC --replay <path>`.  ENC_STAGES=major,cn,minor restricts the stages."""
import os

from . import enc


def run(ctx):
    ctx.rule = (
        "per stage: EncodingRefinesSemantics by TLC on a small universe; per named rule K one TLC run with K switched "
        "off whose counterexample (a witness input) is replayed into the real stage and validated by the stage's trace "
        "spec; distinct = (stage, rule) witnesses replayed."
    )
    ctx.trusted = ["harness/project.py structural projection", "harness/gen_reads.toy_yaml (gene text)", "TLC"]
    stages = os.environ.get("ENC_STAGES", "major,cn,minor").split(",")
    if "major" in stages:
        enc.run_major(ctx)
    if "cn" in stages:
        enc.run_cn(ctx)
    if "minor" in stages:
        enc.run_minor(ctx)


def replay(path):
    return enc.replay(path, "CENC")
