"""C13 — calls do not depend on genome build or gene strand.

Spec: spec/BuildIndep.tla (two-run fragment of History: Run(build) instantiates the stage semantics
      CNModel / MajorModel / MinorModel with the SAME abstract catalogue and the SAME abstract
      evidence; evidence is indexed by variant id and region name; what transports it to a build
      is modelled explicitly: RegionOrder(build) and the anchor of a multi-base variant).
  MC : spec/mc/MC_BuildIndep — BuildFree holds for Next and is violated with either named hazard
       action enabled (MC_BuildIndep_genome_order.cfg, MC_BuildIndep_refseq_anchor.cfg).
  (B): spec/trace/BuildTrace.tla validates FAMILIES of recorded runs: one abstract case (catalogue in
       RefSeq terms + evidence in RefSeq terms), one event per build with the real stage results
       projected to allele names and RefSeq notation.
       (i)  evidence tables: region depths by region NAME -> real estimate_cn; variant counts by
            (RefSeq position as written, written op) and reference counts by RefSeq position,
            transported to each build by the harness's INDEPENDENT maps (gen_db.Mapper) -> real
            estimate_major / estimate_minor.  Every stage event is additionally validated in full by
            CNTrace / MajorTrace / MinorTrace (project.cn_case / major_case / minor_case).
       (ii) alignments: the same haplotypes simulated against each build's genome (gen_reads), real
            genotype() twice (pipeline.run_genotype); names exact, scores three-valued.
"""
import collections
import json
import math
import os
import random
import tempfile

from .. import aldyenv, evidence, gen_db, gen_reads, genes, par, pipeline, project, tlc
from ..core import MachineryError

BUILDS = ("hg19", "hg38")
SCORE_U = 1000000  # table-level scores are compared in units of 1e-6


# =========================================================================== RefSeq-level view
def rc_op(op):
    """Written op -> the op a '-' strand build must carry (independent of aldy)."""
    k = gen_db.kind_of(op)
    ref, alt = gen_db.parts_of(op)
    if k in ("sub", "msub"):
        return f"{gen_db.rev_comp(ref)}>{gen_db.rev_comp(alt)}"
    if k == "ins":
        return "ins" + gen_db.rev_comp(alt)
    if k == "del":
        return "del" + gen_db.rev_comp(ref)
    return f"del{gen_db.rev_comp(ref)}ins{gen_db.rev_comp(alt)}"


def anchor_ref0(strand, pos, op):
    """0-based RefSeq position whose genome image is the site a pileup reports the variant at
    (spec Coords!Conv; same rule as gen_db.Mapper.anchor_site, before the map)."""
    ref, _ = gen_db.parts_of(op)
    if strand == "+":
        return pos - 1
    if gen_db.kind_of(op) == "ins":
        return pos
    return pos - 1 + len(ref) - 1


def span_ref0(pos, op):
    """0-based closed RefSeq interval of the bases a variant replaces (insertion: its two neighbours)."""
    ref, _ = gen_db.parts_of(op)
    if gen_db.kind_of(op) == "ins":
        return pos - 1, pos
    return pos - 1, pos - 1 + len(ref) - 1


class View:
    """One database seen in RefSeq terms + its two loaded builds.  Everything that places evidence on a
    build uses gen_db.Mapper (independent of aldy); the loaded genes are used to run the stages, to
    name alleles / structures and to print results in RefSeq notation (gene.get_refseq)."""

    def __init__(self, label, db, g19, g38):
        self.label = label
        self.db = db
        self.gene = {"hg19": g19, "hg38": g38}
        self.strand = {b: db["builds"][b]["strand"] for b in BUILDS}
        self.mapper = {b: gen_db.Mapper(db, b) for b in BUILDS}
        self.opposite = self.strand["hg19"] != self.strand["hg38"]
        # catalogue variants by RefSeq notation, as each loaded gene reports them
        self.loaded = {}
        for b in BUILDS:
            self.loaded[b] = {(v[3] + 1, v[4]): k for k, v in self.gene[b].mutations.items()}
        self.keys = sorted(set(self.loaded["hg19"]) & set(self.loaded["hg38"]))
        self.only = {b: sorted(set(self.loaded[b]) - set(self.keys)) for b in BUILDS}
        # independent placement of every common variant on each build
        self.site = {b: {} for b in BUILDS}
        self.op = {b: {} for b in BUILDS}
        self.anchors = {}
        self.mismatch = {b: [] for b in BUILDS}
        for k in self.keys:
            pos, op = k
            self.anchors[k] = sorted({anchor_ref0(self.strand[b], pos, op) for b in BUILDS})
            for b in BUILDS:
                s = self.mapper[b].anchor_site(pos, op)
                o = op if self.strand[b] == "+" else rc_op(op)
                self.site[b][k], self.op[b][k] = s, o
                if (s, o) != tuple(self.loaded[b][k]):
                    self.mismatch[b].append(k)
        # region NAME of every variant (by its written first base), from the independent region table
        self.region = {}
        g = g19
        for k in self.keys:
            r = g.region_at(self.loaded["hg19"][k][0])
            self.region[k] = r[1] if r and r[0] == 0 else None
        self._c2r = {}

    def disjoint_loci(self):
        """Opposite strands: the locus of a variant (what shares a pileup site with it) is strand
        independent only when the replaced intervals of different variants do not touch."""
        iv = sorted((span_ref0(*k), k) for k in self.keys)
        for (a, _), (b, _) in zip(iv, iv[1:]):
            if b[0] <= a[1] and a != b:
                return False
        return True

    def c2r(self, b, c):
        if b not in self._c2r:
            bd = self.db["builds"][b]
            self._c2r[b] = gen_db.maps(len(self.db["seq"]), bd["start"], bd["strand"], bd["cigar"])[1]
        return self._c2r[b].get(c)

    def key_of(self, b, m):
        """RefSeq notation key of a loaded Mutation of build b (None: not catalogued)."""
        v = self.gene[b].mutations.get((m.pos, m.op))
        return (v[3] + 1, v[4]) if v else None


def load_view(spec):
    """spec: ("shipped", name) | ("toy",) | ("gen", seed, opts)."""
    if spec[0] == "shipped":
        path = os.path.join(genes.genes_dir(), spec[1] + ".yml")
        db = gen_db.from_yaml(path)
        return View(spec[1], db, gen_db.load(path, "hg19"), gen_db.load(path, "hg38"))
    if spec[0] == "toy":
        db = gen_db.from_yaml(genes.toy_path())
        return View("toy", db, gen_db.load(genes.toy_path(), "hg19"), gen_db.load(genes.toy_path(), "hg38"))
    rng = random.Random(spec[1])
    db = gen_db.random_db(rng, **spec[2])
    return View(f"gen/{spec[1]}", db, gen_db.load(db, "hg19"), gen_db.load(db, "hg38"))


def catalogue_refseq(view, b):
    """The loaded catalogue of build b in build-free terms (names, region names, RefSeq notation)."""
    g = view.gene[b]

    def ks(ms):
        return sorted(g.get_refseq(m) for m in ms)

    return {
        "regions": [list(d) for d in g.regions],
        "cn_regions": list(g.unique_regions),
        "cfgs": {n: [c.kind.name, [sorted(d.items()) for d in c.cn]] for n, c in sorted(g.cn_configs.items())},
        "alleles": {an: [a.cn_config, ks(a.func_muts), {mn: ks(m.neutral_muts) for mn, m in sorted(a.minors.items())}]
                    for an, a in sorted(g.alleles.items())},
        "variants": sorted([f"{k[0]}{k[1]}", v[0] is not None, (g.region_at(p) or (None, None))[1]]
                           for (p, o), v in g.mutations.items() for k in [(v[3] + 1, v[4])]),
    }


# =========================================================================== abstract evidence
def plant_abstract(view, rng, maxcopies=3, depth=None):
    """A random genotype and its noise-free evidence in RefSeq terms.
    Returns (planted, E): E = {"V": {key: n}, "R": {refseq pos0: n}, "X": {}, "D": {region: [gene, pseudo]}}."""
    g = view.gene["hg19"]
    dele = g.deletion_allele()
    cfgs = [c for c in g.cn_configs if c != dele and g.cn_configs[c].alleles]
    depth = depth or rng.choice([10, 20, 20, 30])
    if g.do_copy_number:
        slots = [("1" if rng.random() < 0.55 else rng.choice(sorted(g.cn_configs))) for _ in range(2)]
        extra = rng.choice([0, 0, 0, 1, 1, 2][: 2 * maxcopies - 2]) if maxcopies > 2 else 0
    else:
        slots = ["1"] * rng.choice([1, 2, 2, 2])
        extra = rng.choice([0, 0, 1]) if maxcopies > 2 else 0
    copies = [(c, False) for c in slots] + [("1", True)] * extra
    bag = []
    for c, weak in copies:
        if c == dele or c not in cfgs:
            bag.append((c, None, None, weak))
            continue
        a = rng.choice(sorted(x for x, al in g.alleles.items() if al.cn_config == c))
        mi = rng.choice(sorted(g.alleles[a].minors))
        bag.append((c, a, mi, weak))
    # region depths by name
    has_ps = len(g.regions) > 1
    D = {}
    for r in g.regions[0]:
        gd = sum(g.cn_configs[c].cn[0][r] for c, _, _, _ in bag)
        pd = sum(g.cn_configs[c].cn[1][r] - (1 if weak else 0) for c, _, _, weak in bag) if has_ps else 0
        D[r] = [float(gd), float(max(0, pd))]
    # variant and reference observations
    V = collections.defaultdict(int)
    R = collections.defaultdict(int)
    anchors = sorted({r for k in view.keys for r in view.anchors[k]})
    reg_of_anchor = {}
    for k in view.keys:
        for r in view.anchors[k]:
            reg_of_anchor.setdefault(r, view.region[k])
    carried_all = []
    for c, a, mi, weak in bag:
        if a is None:
            carried_all.append([])
            continue
        keys = {view.key_of("hg19", m) for m in evidence.allele_variants(g, a, mi)}
        keys = {k for k in keys if k in view.region and view.region[k] and g.cn_configs[c].cn[0][view.region[k]] > 0}
        carried_all.append(sorted(keys))
        covered = set()  # RefSeq positions replaced by a non-insertion variant of this copy
        for k in keys:
            V[k] += depth
            if gen_db.kind_of(k[1]) != "ins":
                lo, hi = span_ref0(*k)
                covered |= set(range(lo, hi + 1))
        for r in anchors:
            rn = reg_of_anchor[r]
            if rn and g.cn_configs[c].cn[0][rn] > 0 and r not in covered:
                R[r] += depth
    planted = {"struct": [c for c, _, _, _ in bag], "bag": [[c, a, mi, weak] for c, a, mi, weak in bag], "depth": depth,
               "carried": [[f"{p}{o}" for p, o in ks] for ks in carried_all]}
    return planted, {"V": dict(V), "R": dict(R), "X": {}, "D": D}


def perturb_abstract(view, rng, E, level=0.3, drop=0.0, spurious=0.0, damp=0.25):
    """Noise in RefSeq terms.  One factor per variant and ONE factor per locus (the reference counts
    at the anchors of one variant stay equal: reads without the variant span all of it)."""
    V, R, X, D = dict(E["V"]), dict(E["R"]), dict(E["X"]), {r: list(v) for r, v in E["D"].items()}
    for k in list(V):
        if drop and rng.random() < drop:
            del V[k]
            continue
        V[k] = max(0, int(round(V[k] * (1 + rng.uniform(-level, level)))))
    done = set()
    for k in view.keys:
        f = 1 + rng.uniform(-level, level)
        for r in view.anchors[k]:
            if r in R and r not in done:
                R[r] = max(0, int(round(R[r] * f)))
                done.add(r)
    seq = view.db["seq"]
    if spurious:
        for k in view.keys:
            if len(view.anchors[k]) == 1 and rng.random() < spurious:
                r = view.anchors[k][0]
                ref = seq[r]
                if ref in "ACGT":
                    X[(r, f"{ref}>{rng.choice([b for b in 'ACGT' if b != ref])}")] = rng.randint(1, 6)
        # spurious substitutions away from every catalogued locus (transported, never considered)
        taken = {r for k in view.keys for r in range(span_ref0(*k)[0] - 1, span_ref0(*k)[1] + 2)}
        for _ in range(rng.randint(0, 3)):
            r = rng.randrange(len(seq))
            if r not in taken and seq[r] in "ACGT" and all(view.mapper[b].r2c(r) is not None for b in BUILDS):
                X[(r, f"{seq[r]}>{rng.choice([b for b in 'ACGT' if b != seq[r]])}")] = rng.randint(1, 9)
                R.setdefault(r, rng.randint(5, 40))
    if damp:
        for r in D:
            for i in (0, 1):
                if D[r][i] or rng.random() < 0.2:
                    D[r][i] = round(max(0.0, D[r][i] + rng.uniform(-damp, damp)), 2)
    return {"V": V, "R": R, "X": X, "D": D}


def instantiate(view, b, E):
    """Evidence table {genome pos: {op: n}} of build b (independent transport) + what could not be placed."""
    table = collections.defaultdict(dict)
    lost = []
    m = view.mapper[b]
    minus = view.strand[b] == "-"
    for k, n in E["V"].items():
        s = view.site[b].get(k)
        if s is None:
            lost.append(f"{k[0]}{k[1]}")
            continue
        table[s][view.op[b][k]] = n
    for r, n in E["R"].items():
        c = m.r2c(r)
        if c is None:
            lost.append(f"R{r}")
            continue
        table[c]["_"] = n
    for (r, sub), n in E["X"].items():
        c = m.r2c(r)
        if c is None:
            lost.append(f"X{r}")
            continue
        table[c][rc_op(sub) if minus else sub] = n
    return {p: dict(v) for p, v in table.items()}, lost


def ev_rows(E):
    """Canonical JSON form of the abstract evidence (what BuildTrace compares across a family)."""
    return {"V": sorted([f"{p}{o}", n] for (p, o), n in E["V"].items()),
            "R": sorted([r, n] for r, n in E["R"].items()),
            "X": sorted([r, o, n] for (r, o), n in E["X"].items()),
            "D": sorted([r, int(round(v[0] * 100)), int(round(v[1] * 100))] for r, v in E["D"].items())}


# =========================================================================== the run of one build
class _Sam:
    """What the stages read from Coverage.sam when there is no alignment file."""
    name = "verif"
    phases = {}
    _fusion_counter = None


def _profile(**kw):
    from aldy.profile import Profile

    return Profile("verif", **kw)


def fixs(x):
    return int(round(x * SCORE_U))


def run_build(view, b, E, params, planted_struct, max_major=3, stage_rows=None, eid=""):
    """The real stages of one build on the instantiated evidence.  Returns the event (results in
    allele names and RefSeq notation) and appends the stage case records to stage_rows."""
    from aldy.cn import estimate_cn
    from aldy.major import estimate_major
    from aldy.minor import estimate_minor
    from aldy.solutions import CNSolution

    g = view.gene[b]
    prof = _profile(**params)
    table, lost = instantiate(view, b, E)
    cov = evidence.make_coverage(g, prof, table)
    cov.sam = _Sam()
    cov._region_coverage = {(gi, r): (E["D"][r][gi] if r in E["D"] else 0.0) for gi, d in enumerate(g.regions) for r in d}
    ev = {"build": b, "strand": view.strand[b], "lost": lost, "raised": "", "cn": [], "major": [], "minor": [],
          "mismatch": [f"{p}{o}" for p, o in view.mismatch[b] if E["V"].get((p, o))]}
    names = set(g.alleles)

    def rs(ms):
        return sorted(g.get_refseq(m) for m in ms)

    try:
        if g.do_copy_number:
            cns = estimate_cn(g, prof, cov, "any")
        else:
            cns = [CNSolution(g, 0, list(planted_struct))]
    except Exception as ex:
        ev["raised"] = f"cn:{type(ex).__name__}: {ex}"[:200]
        return ev
    cns = sorted(cns, key=lambda s: (sorted(s.solution.elements()), s.score))
    ev["cn"] = [{"struct": sorted(s.solution.elements()), "score": fixs(s.score)} for s in cns]
    if stage_rows is not None and g.do_copy_number:
        from aldy.cn import _filter_configs

        configs = _filter_configs(g, cov)
        mx = 1 + max(math.ceil(cov.region_coverage(gi, r)) for gi, d in enumerate(g.regions) for r in d)
        rc = {r: (cov.region_coverage(0, r), cov.region_coverage(1, r) if len(g.regions) > 1 else 0.0) for r in g.unique_regions}
        stage_rows["cn"].append(project.cn_case(eid, g, prof, configs, mx, rc, None, cns, ""))
    # major for the first structures (canonical order), minor for the first major solutions
    todo = [s for s in cns if s.solution][:2]
    for ci, cs in enumerate(todo):
        try:
            majors = estimate_major(g, cov, cs, "any")
        except Exception as ex:
            ev["raised"] = f"major:{type(ex).__name__}: {ex}"[:200]
            return ev
        key = lambda s: (sorted(sa.major for sa, n in s.solution.items() for _ in range(n)), rs(s.added))  # noqa
        majors = sorted(majors, key=key)
        ev["major"].append({"struct": sorted(cs.solution.elements()),
                            "sols": [{"alleles": key(s)[0], "novel": key(s)[1], "score": fixs(s.score)} for s in majors]})
        if stage_rows is not None:
            stage_rows["major"].append(dict(project.major_case(f"{eid}/{ci}", g, cov, cs, majors), raised=""))
        for mi, ms in enumerate(majors[:max_major]):
            saved = ms.score
            try:
                minors = estimate_minor(g, cov, [ms], "any")
            except Exception as ex:
                ev["raised"] = f"minor:{type(ex).__name__}: {ex}"[:200]
                return ev
            ms.score = saved
            ev["minor"].append({"struct": sorted(cs.solution.elements()), "alleles": key(ms)[0], "novel": key(ms)[1],
                                "sols": [{"score": fixs(s.score),
                                          "copies": sorted([sa.major, sa.minor, rs(sa.added), rs(sa.missing)] for sa in s.solution)}
                                         for s in minors]})
            if stage_rows is not None:
                stage_rows["minor"].append(project.minor_case(f"{eid}/{ci}/{mi}", g, cov, ms, minors, enumerate_all=False))
    ev["names"] = sorted(names)
    return ev
