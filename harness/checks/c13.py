"""C13 — calls do not depend on genome build or gene strand.

Spec: spec/BuildIndep.tla (two-run fragment of History: Run(build) instantiates the stage semantics
      CNModel / MajorModel / MinorModel with the SAME abstract catalogue and the SAME abstract
      evidence; evidence is indexed by variant id and region name; what transports it to a build
      is modelled explicitly: RegionOrder(build) and the anchor of a multi-base variant).
  MC : spec/mc/MC_BuildIndep — BuildFree holds for Next (MC_BuildIndep_quick.cfg; thorough: MC_BuildIndep.cfg
       and MC_BuildIndep_three.cfg) and is violated with either named hazard action enabled
       (MC_BuildIndep_genome_order.cfg, MC_BuildIndep_refseq_anchor.cfg); MC_BuildIndep_nonempty.cfg /
       _fusion.cfg: probe invariants that must be violated (the explored tables do yield calls / fusions).
  (B): spec/trace/BuildTrace.tla validates FAMILIES of recorded runs: one abstract case (catalogue in
       RefSeq terms + evidence in RefSeq terms), one event per build with the real stage results
       projected to allele names and RefSeq notation.
       (i)  evidence tables: region depths by region NAME -> real estimate_cn; variant counts by
            (RefSeq position as written, written op) and reference counts by RefSeq position,
            transported to each build by the harness's INDEPENDENT maps (gen_db.Mapper) -> real
            estimate_major / estimate_minor.  Every stage event is additionally validated in full by
            CNTrace / MajorTrace / MinorTrace (project.cn_case / major_case / minor_case).
       (ii) alignments: the same haplotypes simulated against each build's genome (gen_reads), real
            genotype() twice (pipeline.run_genotype); names exact, scores three-valued.
"""
import collections
import json
import math
import os
import random
import tempfile

from .. import aldyenv, evidence, gen_db, gen_reads, genes, par, pipeline, project, tlc
from ..core import MachineryError

BUILDS = ("hg19", "hg38")
SCORE_U = 1000000  # table-level scores are compared in units of 1e-6


# =========================================================================== RefSeq-level view
def rc_op(op):
    """Written op -> the op a '-' strand build must carry (independent of aldy)."""
    k = gen_db.kind_of(op)
    ref, alt = gen_db.parts_of(op)
    if k in ("sub", "msub"):
        return f"{gen_db.rev_comp(ref)}>{gen_db.rev_comp(alt)}"
    if k == "ins":
        return "ins" + gen_db.rev_comp(alt)
    if k == "del":
        return "del" + gen_db.rev_comp(ref)
    return f"del{gen_db.rev_comp(ref)}ins{gen_db.rev_comp(alt)}"


def anchor_ref0(strand, pos, op):
    """0-based RefSeq position whose genome image is the site a pileup reports the variant at
    (spec Coords!Conv; same rule as gen_db.Mapper.anchor_site, before the map)."""
    ref, _ = gen_db.parts_of(op)
    if strand == "+":
        return pos - 1
    if gen_db.kind_of(op) == "ins":
        return pos
    return pos - 1 + len(ref) - 1


def span_ref0(pos, op):
    """0-based closed RefSeq interval of the bases a variant replaces (insertion: its two neighbours)."""
    ref, _ = gen_db.parts_of(op)
    if gen_db.kind_of(op) == "ins":
        return pos - 1, pos
    return pos - 1, pos - 1 + len(ref) - 1


class View:
    """One database seen in RefSeq terms + its two loaded builds.  Everything that places evidence on a
    build uses gen_db.Mapper (independent of aldy); the loaded genes are used to run the stages, to
    name alleles / structures and to print results in RefSeq notation (gene.get_refseq)."""

    def __init__(self, label, db, g19, g38):
        self.label = label
        self.db = db
        self.gene = {"hg19": g19, "hg38": g38}
        self.strand = {b: db["builds"][b]["strand"] for b in BUILDS}
        self.mapper = {b: gen_db.Mapper(db, b) for b in BUILDS}
        self.opposite = self.strand["hg19"] != self.strand["hg38"]
        # catalogue variants by RefSeq notation, as each loaded gene reports them
        self.loaded = {}
        for b in BUILDS:
            self.loaded[b] = {(v[3] + 1, v[4]): k for k, v in self.gene[b].mutations.items()}
        self.keys = sorted(set(self.loaded["hg19"]) & set(self.loaded["hg38"]))
        self.only = {b: sorted(set(self.loaded[b]) - set(self.keys)) for b in BUILDS}
        # independent placement of every common variant on each build
        self.site = {b: {} for b in BUILDS}
        self.op = {b: {} for b in BUILDS}
        self.anchors = {}
        self.mismatch = {b: [] for b in BUILDS}
        for k in self.keys:
            pos, op = k
            self.anchors[k] = sorted({anchor_ref0(self.strand[b], pos, op) for b in BUILDS})
            for b in BUILDS:
                s = self.mapper[b].anchor_site(pos, op)
                o = op if self.strand[b] == "+" else rc_op(op)
                self.site[b][k], self.op[b][k] = s, o
                if (s, o) != tuple(self.loaded[b][k]):
                    self.mismatch[b].append(k)
        # region NAME of every variant (by its written first base), from the independent region table
        self.region = {}
        g = g19
        for k in self.keys:
            r = g.region_at(self.loaded["hg19"][k][0])
            self.region[k] = r[1] if r and r[0] == 0 else None
        self._c2r = {}

    def disjoint_loci(self):
        """Opposite strands: the locus of a variant (what shares a pileup site with it) is strand
        independent only when the replaced intervals of different variants do not touch."""
        iv = sorted((span_ref0(*k), k) for k in self.keys)
        for (a, _), (b, _) in zip(iv, iv[1:]):
            if b[0] <= a[1] and a != b:
                return False
        return True

    def c2r(self, b, c):
        if b not in self._c2r:
            bd = self.db["builds"][b]
            self._c2r[b] = gen_db.maps(len(self.db["seq"]), bd["start"], bd["strand"], bd["cigar"])[1]
        return self._c2r[b].get(c)

    def key_of(self, b, m):
        """RefSeq notation key of a loaded Mutation of build b (None: not catalogued)."""
        v = self.gene[b].mutations.get((m.pos, m.op))
        return (v[3] + 1, v[4]) if v else None


def load_view(spec):
    """spec: ("shipped", name) | ("toy",) | ("gen", seed, opts)."""
    if spec[0] == "shipped":
        path = os.path.join(genes.genes_dir(), spec[1] + ".yml")
        db = gen_db.from_yaml(path)
        return View(spec[1], db, gen_db.load(path, "hg19"), gen_db.load(path, "hg38"))
    if spec[0] == "toy":
        db = gen_db.from_yaml(genes.toy_path())
        return View("toy", db, gen_db.load(genes.toy_path(), "hg19"), gen_db.load(genes.toy_path(), "hg38"))
    rng = random.Random(spec[1])
    db = gen_db.random_db(rng, **spec[2])
    return View(f"gen/{spec[1]}", db, gen_db.load(db, "hg19"), gen_db.load(db, "hg38"))


def catalogue_refseq(view, b):
    """The loaded catalogue of build b in build-free terms (names, region names, RefSeq notation)."""
    g = view.gene[b]

    def ks(ms):
        return sorted(g.get_refseq(m) for m in ms)

    return {
        "regions": [list(d) for d in g.regions],
        "cn_regions": list(g.unique_regions),
        "cfgs": {n: [c.kind.name, [sorted(d.items()) for d in c.cn]] for n, c in sorted(g.cn_configs.items())},
        "alleles": {an: [a.cn_config, ks(a.func_muts), {mn: ks(m.neutral_muts) for mn, m in sorted(a.minors.items())}]
                    for an, a in sorted(g.alleles.items())},
        # per variant: functional?, and the gene copies every structure has at its region (what has_coverage
        # answers); the region NAME itself is reported separately (variant_regions): seven shipped databases
        # annotate up/utr5 or utr3/down differently in the two builds, without effect on any structure
        "variants": sorted([f"{k[0]}{k[1]}", v[0] is not None, _copies_at(g, p)]
                           for (p, o), v in g.mutations.items() for k in [(v[3] + 1, v[4])]),
    }


def _copies_at(g, pos):
    r = g.region_at(pos)
    return sorted([n, (c.cn[r[0]][r[1]] if r else -1)] for n, c in g.cn_configs.items()) + [r[0] if r else -1]


def variant_regions(view, b):
    g = view.gene[b]
    return {f"{v[3] + 1}{v[4]}": (g.region_at(p) or (None, None))[1] for (p, o), v in g.mutations.items()}


# =========================================================================== abstract evidence
def plant_abstract(view, rng, maxcopies=3, depth=None):
    """A random genotype and its noise-free evidence in RefSeq terms.
    Returns (planted, E): E = {"V": {key: n}, "R": {refseq pos0: n}, "X": {}, "D": {region: [gene, pseudo]}}."""
    g = view.gene["hg19"]
    dele = g.deletion_allele()
    cfgs = [c for c in g.cn_configs if c != dele and g.cn_configs[c].alleles]
    depth = depth or rng.choice([10, 20, 20, 30])
    if g.do_copy_number:
        slots = [("1" if rng.random() < 0.55 else rng.choice(sorted(g.cn_configs))) for _ in range(2)]
        extra = rng.choice([0, 0, 0, 1, 1, 2][: 2 * maxcopies - 2]) if maxcopies > 2 else 0
    else:
        slots = ["1"] * rng.choice([1, 2, 2, 2])
        extra = rng.choice([0, 0, 1]) if maxcopies > 2 else 0
    copies = [(c, False) for c in slots] + [("1", True)] * extra
    bag = []
    for c, weak in copies:
        if c == dele or c not in cfgs:
            bag.append((c, None, None, weak))
            continue
        a = rng.choice(sorted(x for x, al in g.alleles.items() if al.cn_config == c))
        mi = rng.choice(sorted(g.alleles[a].minors))
        bag.append((c, a, mi, weak))
    # region depths by name
    has_ps = len(g.regions) > 1
    D = {}
    for r in g.regions[0]:
        gd = sum(g.cn_configs[c].cn[0][r] for c, _, _, _ in bag)
        pd = sum(g.cn_configs[c].cn[1][r] - (1 if weak else 0) for c, _, _, weak in bag) if has_ps else 0
        D[r] = [float(gd), float(max(0, pd))]
    # variant and reference observations
    V = collections.defaultdict(int)
    R = collections.defaultdict(int)
    anchors = sorted({r for k in view.keys for r in view.anchors[k]})
    reg_of_anchor = {}
    for k in view.keys:
        for r in view.anchors[k]:
            reg_of_anchor.setdefault(r, view.region[k])
    carried_all = []
    for c, a, mi, weak in bag:
        if a is None:
            carried_all.append([])
            continue
        keys = {view.key_of("hg19", m) for m in evidence.allele_variants(g, a, mi)}
        keys = {k for k in keys if k in view.region and view.region[k] and g.cn_configs[c].cn[0][view.region[k]] > 0}
        carried_all.append(sorted(keys))
        covered = set()  # RefSeq positions replaced by a non-insertion variant of this copy
        for k in keys:
            V[k] += depth
            if gen_db.kind_of(k[1]) != "ins":
                lo, hi = span_ref0(*k)
                covered |= set(range(lo, hi + 1))
        for r in anchors:
            rn = reg_of_anchor[r]
            if rn and g.cn_configs[c].cn[0][rn] > 0 and r not in covered:
                R[r] += depth
    planted = {"struct": [c for c, _, _, _ in bag], "bag": [[c, a, mi, weak] for c, a, mi, weak in bag], "depth": depth,
               "carried": [[f"{p}{o}" for p, o in ks] for ks in carried_all]}
    return planted, {"V": dict(V), "R": dict(R), "X": {}, "D": D}


def perturb_abstract(view, rng, E, level=0.3, drop=0.0, spurious=0.0, damp=0.25):
    """Noise in RefSeq terms.  One factor per variant and ONE factor per locus (the reference counts
    at the anchors of one variant stay equal: reads without the variant span all of it)."""
    V, R, X, D = dict(E["V"]), dict(E["R"]), dict(E["X"]), {r: list(v) for r, v in E["D"].items()}
    for k in list(V):
        if drop and rng.random() < drop:
            del V[k]
            continue
        V[k] = max(0, int(round(V[k] * (1 + rng.uniform(-level, level)))))
    done = set()
    for k in view.keys:
        f = 1 + rng.uniform(-level, level)
        for r in view.anchors[k]:
            if r in R and r not in done:
                R[r] = max(0, int(round(R[r] * f)))
                done.add(r)
    seq = view.db["seq"]
    if spurious:
        for k in view.keys:
            if len(view.anchors[k]) == 1 and rng.random() < spurious:
                r = view.anchors[k][0]
                ref = seq[r]
                if ref in "ACGT":
                    X[(r, f"{ref}>{rng.choice([b for b in 'ACGT' if b != ref])}")] = rng.randint(1, 6)
        # spurious substitutions away from every catalogued locus (transported, never considered)
        taken = {r for k in view.keys for r in range(span_ref0(*k)[0] - 1, span_ref0(*k)[1] + 2)}
        for _ in range(rng.randint(0, 3)):
            r = rng.randrange(len(seq))
            if r not in taken and seq[r] in "ACGT" and all(view.mapper[b].r2c(r) is not None for b in BUILDS):
                X[(r, f"{seq[r]}>{rng.choice([b for b in 'ACGT' if b != seq[r]])}")] = rng.randint(1, 9)
                R.setdefault(r, rng.randint(5, 40))
    if damp:
        for r in D:
            for i in (0, 1):
                if D[r][i] or rng.random() < 0.2:
                    D[r][i] = round(max(0.0, D[r][i] + rng.uniform(-damp, damp)), 2)
    return {"V": V, "R": R, "X": X, "D": D}


def instantiate(view, b, E):
    """Evidence table {genome pos: {op: n}} of build b (independent transport) + what could not be placed."""
    table = collections.defaultdict(dict)
    lost = []
    m = view.mapper[b]
    minus = view.strand[b] == "-"
    for k, n in E["V"].items():
        s = view.site[b].get(k)
        if s is None:
            lost.append(f"{k[0]}{k[1]}")
            continue
        table[s][view.op[b][k]] = n
    for r, n in E["R"].items():
        c = m.r2c(r)
        if c is None:
            lost.append(f"R{r}")
            continue
        table[c]["_"] = n
    for (r, sub), n in E["X"].items():
        c = m.r2c(r)
        if c is None:
            lost.append(f"X{r}")
            continue
        table[c][rc_op(sub) if minus else sub] = n
    return {p: dict(v) for p, v in table.items()}, lost


def ev_rows(E):
    """Canonical JSON form of the abstract evidence (what BuildTrace compares across a family)."""
    return {"V": sorted([f"{p}{o}", n] for (p, o), n in E["V"].items()),
            "R": sorted([r, n] for r, n in E["R"].items()),
            "X": sorted([r, o, n] for (r, o), n in E["X"].items()),
            "D": sorted([r, int(round(v[0] * 100)), int(round(v[1] * 100))] for r, v in E["D"].items())}


# =========================================================================== the run of one build
class _Sam:
    """What the stages read from Coverage.sam when there is no alignment file."""
    name = "verif"
    phases = {}
    _fusion_counter = None


def _profile(**kw):
    from aldy.profile import Profile

    return Profile("verif", **kw)


def fixs(x):
    return int(round(x * SCORE_U))


def run_build(view, b, E, params, planted_struct, max_major=3, stage_rows=None, eid=""):
    """The real stages of one build on the instantiated evidence.  Returns the event (results in
    allele names and RefSeq notation) and appends the stage case records to stage_rows."""
    from aldy.cn import estimate_cn
    from aldy.major import estimate_major
    from aldy.minor import estimate_minor
    from aldy.solutions import CNSolution

    g = view.gene[b]
    prof = _profile(**params)
    table, lost = instantiate(view, b, E)
    cov = evidence.make_coverage(g, prof, table)
    cov.sam = _Sam()
    cov._region_coverage = {(gi, r): (E["D"][r][gi] if r in E["D"] else 0.0) for gi, d in enumerate(g.regions) for r in d}
    ev = {"build": b, "strand": view.strand[b], "lost": lost, "raised": "", "cn": [], "major": [], "minor": [],
          "mismatch": [f"{p}{o}" for p, o in view.mismatch[b] if E["V"].get((p, o))]}
    names = set(g.alleles)

    def rs(ms):
        return sorted(g.get_refseq(m) for m in ms)

    try:
        if g.do_copy_number:
            cns = estimate_cn(g, prof, cov, "any")
        else:
            cns = [CNSolution(g, 0, list(planted_struct))]
    except Exception as ex:
        ev["raised"] = f"cn:{type(ex).__name__}: {ex}"[:200]
        return ev
    cns = sorted(cns, key=lambda s: (sorted(s.solution.elements()), s.score))
    ev["cn"] = [{"struct": sorted(s.solution.elements()), "score": fixs(s.score)} for s in cns]
    if stage_rows is not None and g.do_copy_number:
        from aldy.cn import _filter_configs

        configs = _filter_configs(g, cov)
        mx = 1 + max(math.ceil(cov.region_coverage(gi, r)) for gi, d in enumerate(g.regions) for r in d)
        rc = {r: (cov.region_coverage(0, r), cov.region_coverage(1, r) if len(g.regions) > 1 else 0.0) for r in g.unique_regions}
        stage_rows["cn"].append(project.cn_case(eid, g, prof, configs, mx, rc, None, cns, ""))
    # major for the first structures (canonical order), minor for the first major solutions
    todo = [s for s in cns if s.solution][:2]
    for ci, cs in enumerate(todo):
        try:
            majors = estimate_major(g, cov, cs, "any")
        except Exception as ex:
            ev["raised"] = f"major:{type(ex).__name__}: {ex}"[:200]
            return ev
        key = lambda s: (sorted(sa.major for sa, n in s.solution.items() for _ in range(n)), rs(s.added))  # noqa
        majors = sorted(majors, key=key)
        ev["major"].append({"struct": sorted(cs.solution.elements()),
                            "sols": [{"alleles": key(s)[0], "novel": key(s)[1], "score": fixs(s.score)} for s in majors]})
        if stage_rows is not None:
            stage_rows["major"].append(dict(project.major_case(f"{eid}/{ci}", g, cov, cs, majors), raised=""))
        for mi, ms in enumerate(majors[:max_major]):
            saved = ms.score
            try:
                minors = estimate_minor(g, cov, [ms], "any")
            except Exception as ex:
                ev["raised"] = f"minor:{type(ex).__name__}: {ex}"[:200]
                return ev
            ms.score = saved
            ev["minor"].append({"struct": sorted(cs.solution.elements()), "alleles": key(ms)[0], "novel": key(ms)[1],
                                "sols": [{"score": fixs(s.score),
                                          "copies": sorted([sa.major, sa.minor, rs(sa.added), rs(sa.missing)] for sa in s.solution)}
                                         for s in minors]})
            if stage_rows is not None:
                stage_rows["minor"].append(project.minor_case(f"{eid}/{ci}/{mi}", g, cov, ms, minors, enumerate_all=False))
    ev["names"] = sorted(names)
    return ev


# =========================================================================== rows of BuildTrace
def _digest(obj):
    import hashlib

    return hashlib.sha1(json.dumps(obj, sort_keys=True, default=str).encode()).hexdigest()[:16]


def _tie_size(g, alleles_called, novel_keys):
    """Number of (allele copy, considered variant) pairs of the minor model: bound of the ordinal that
    scales its tie-breaking term (minor.py: minor_add * (1 + cnt / 1e6))."""
    cnt = collections.Counter(alleles_called)
    ncopies = sum(len(g.alleles[a].minors) * n for a, n in cnt.items())
    muts = set(g.random_mutations)
    for a in cnt:
        muts |= set(g.alleles[a].func_muts)
        for mi in g.alleles[a].minors.values():
            muts |= set(mi.neutral_muts)
    return ncopies * (len(muts) + len(novel_keys)) + 1


def event_row(view, b, ev, fam, first, kind, evd, tol, band, cat=None, mband=None):
    g = view.gene[b]
    mentioned = {a for m in ev["major"] for s in m["sols"] for a in s["alleles"]} | {a for m in ev["minor"] for a in m["alleles"]}
    mentioned |= {c[0] for m in ev["minor"] for s in m["sols"] for c in s["copies"]}
    row = {
        "fam": fam, "first": first, "kind": kind, "build": b, "raised": ev["raised"], "lost": ev["lost"], "mismatch": ev["mismatch"],
        "cat": cat or _digest(catalogue_refseq(view, b)), "evd": evd, "tol": tol, "band": band, "mband": band if mband is None else mband,
        "cfgs": sorted(g.cn_configs), "majors": sorted([an, a.cn_config] for an, a in g.alleles.items()),
        "minors": sorted([an, mn] for an in mentioned if an in g.alleles for mn in g.alleles[an].minors),
        "variants": sorted({f"{v[3] + 1}{v[4]}" for v in g.mutations.values()}),
        "cn": ev["cn"], "major": ev["major"], "final": ev.get("final", []), "minor": [],
    }
    for m in ev["minor"]:
        row["minor"].append({"struct": m["struct"], "alleles": m["alleles"], "novel": m["novel"],
                             "tie": _tie_size(g, [a for a in m["alleles"] if a in g.alleles], m["novel"]),
                             "sols": [{"score": s["score"], "nadd": sum(len(c[2]) for c in s["copies"]), "copies": s["copies"]} for s in m["sols"]]})
    return row


# =========================================================================== (i) evidence-table families
def _params(rng, small=True):
    """A non-default parameter set for a quarter of the families.  A gap > 0 makes estimate_major enumerate every
    multiset within the gap: only for small catalogues (DPYD: 459 majors, three noisy copies, gap 0.3 never returns)."""
    kw = {}
    if rng.random() < 0.25:
        kw = rng.choice([{"gap": 0.1}, {"threshold": 0.3}, {"min_coverage": 1}, {"minor_add": 0.5}, {"gap": 0.3}])
        if "gap" in kw and not small:
            kw = {}
    return kw


def _table_task(task):
    spec, seed, nfam, stages = task
    rng = random.Random(seed)
    out = {"rows": [], "meta": {}, "stage": {"cn": [], "major": [], "minor": []}, "skipped": [], "label": str(spec)}
    try:
        view = load_view(spec)
    except Exception as ex:  # a loader exception under a mutant is a verdict, not machinery
        out["loadfail"] = f"{type(ex).__name__}: {ex}"[:300]
        return out
    out["label"] = view.label
    out["opposite"] = view.opposite
    if view.opposite and not view.disjoint_loci():
        out["skipped"].append("opposite strands with touching variant footprints: the locus of a variant is strand dependent")
        return out
    cats = {b: catalogue_refseq(view, b) for b in BUILDS}
    cat_d = {b: _digest(cats[b]) for b in BUILDS}
    vr = {b: variant_regions(view, b) for b in BUILDS}
    out["region_name_differs"] = sorted([k, vr["hg19"][k], vr["hg38"].get(k)] for k in vr["hg19"] if vr["hg19"][k] != vr["hg38"].get(k))
    for f in range(nfam):
        planted, E = plant_abstract(view, rng)
        m = rng.random()
        noise = "none"
        if m > 0.3:
            noise = "level"
            E = perturb_abstract(view, rng, E, level=rng.choice([0.1, 0.3, 0.5]), drop=0.05 if m > 0.7 else 0.0,
                                 spurious=0.3 if m > 0.6 else 0.0)
        params = _params(rng, small=len(view.gene["hg19"].alleles) <= 40)
        evd = _digest(ev_rows(E))
        fam = f"{view.label}/{seed}/{f}"
        dele = view.gene["hg19"].deletion_allele()
        struct = [c for c in planted["struct"] if c != dele]
        evs = {}
        for i, b in enumerate(BUILDS):
            eid = f"{fam}/{b}"
            sr = out["stage"] if stages else None
            with aldyenv.quiet_stderr():
                evs[b] = run_build(view, b, E, params, struct, stage_rows=sr, eid=eid)
            row = event_row(view, b, evs[b], fam, i == 0, "table", evd, 2, 2, cat=cat_d[b])
            row["id"] = eid
            out["rows"].append(row)
        out["meta"][fam] = {
            "database": view.label, "db_spec": list(spec) if spec[0] != "gen" else ["gen", spec[1], spec[2]],
            "seed": seed, "family": f, "strands": view.strand, "planted": planted, "noise": noise, "params": params,
            "evidence_refseq": ev_rows(E),
            "results": {b: {k: evs[b][k] for k in ("raised", "lost", "mismatch", "cn", "major", "minor")} for b in BUILDS},
            "catalogue_differs": None if cat_d["hg19"] == cat_d["hg38"] else _cat_diff(cats),
            "nontrivial": bool(evs["hg19"]["minor"] and evs["hg19"]["minor"][0]["sols"]),
            "fusion_called": any(c != "1" for s in evs["hg19"]["cn"] for c in s["struct"]),
            "indel_planted": any(gen_db.kind_of(k.lstrip("0123456789")) != "sub" for ks in planted["carried"] for k in ks),
        }
    return out


def _cat_diff(cats):
    a, b = cats["hg19"], cats["hg38"]
    d = {}
    for k in a:
        if a[k] != b[k]:
            if isinstance(a[k], dict):
                d[k] = {x: [a[k].get(x), b[k].get(x)] for x in sorted(set(a[k]) | set(b[k])) if a[k].get(x) != b[k].get(x)}
                d[k] = dict(list(d[k].items())[:5])
            else:
                d[k] = [a[k], b[k]]
    return d


# =========================================================================== (ii) alignment families
def _refseq_list(g, raw):
    return sorted(g.get_refseq(p, o) for p, o in raw)


def reads_event(view, b, run):
    g = view.gene[b]
    ev = {"raised": "", "lost": [], "mismatch": [], "cn": [], "major": [], "minor": [], "final": []}
    if run["error"]:
        ev["raised"] = f"{run['error_type']}: {run['error']}"[:200]
        return ev
    for e in run["events"]:
        if e["k"] == "cn":
            ev["cn"] = sorted(({"struct": sorted(s["struct"]), "score": fixs(s["score"])} for s in e["sols"]), key=lambda s: s["struct"])
        elif e["k"] == "major":
            sols = sorted(({"alleles": sorted(s["alleles"]), "novel": _refseq_list(g, s["novel_raw"]), "score": fixs(s["score"])} for s in e["sols"]),
                          key=lambda s: (s["alleles"], s["novel"]))
            ev["major"].append({"struct": sorted(e["cn"]["struct"]), "sols": sols})
        elif e["k"] == "minor_solve":
            mj = e["major"]
            ev["minor"].append({"struct": sorted(mj["cn"]), "alleles": sorted(mj["alleles"]), "novel": _refseq_list(g, mj["novel_raw"]),
                                "sols": [{"score": fixs(s["score"]),
                                          "copies": sorted([c["major"], c["minor"], _refseq_list(g, c["added_raw"]), _refseq_list(g, c["missing_raw"])]
                                                           for c in s["copies"])} for s in e["sols"]]})
    ev["major"].sort(key=lambda m: m["struct"])
    ev["minor"].sort(key=lambda m: (m["struct"], m["alleles"], m["novel"]))
    for s in run["result"] or []:
        copies = sorted([c["major"], c["minor"], _refseq_list(g, c["added_raw"]), _refseq_list(g, c["missing_raw"])] for c in s["copies"])
        ev["final"].append({"key": json.dumps([sorted(s["major"][2]), sorted(s["major"][0]), copies]), "score": fixs(s["score"]),
                            "diplotype": s["major_diplotype"]})
    ev["final"].sort(key=lambda s: s["key"])
    return ev


def _reads_task(task):
    spec, seed, nfam = task
    rng = random.Random(seed)
    out = {"rows": [], "meta": {}, "skipped": [], "label": str(spec)}
    with tempfile.TemporaryDirectory(prefix="c13_", dir=tlc.scratch()) as d:
        try:
            if spec[0] == "toys":
                txt, _ = gen_reads.toy_yaml(spec[1], spec[2], seed=spec[3])
                yml = os.path.join(d, "toys.yml")
                with open(yml, "w") as f:
                    f.write(txt)
                db = gen_db.from_yaml(yml)
                for b in BUILDS:
                    db["builds"][b]["contig_length"] = 20000
                view = View(f"toys{spec[1]}{spec[2]}/{spec[3]}", db, gen_db.load(yml, "hg19"), gen_db.load(yml, "hg38"))
            else:
                db = gen_db.random_db(random.Random(spec[1]), **spec[2])
                yml = os.path.join(d, "genx.yml")
                gen_db.realise(db, yml)
                view = View(f"gen/{spec[1]}", db, gen_db.load(yml, "hg19"), gen_db.load(yml, "hg38"))
        except Exception as ex:
            out["loadfail"] = f"{type(ex).__name__}: {ex}"[:300]
            return out
        out["label"] = view.label
        cat_d = {b: _digest(catalogue_refseq(view, b)) for b in BUILDS}
        for f in range(nfam):
            planted, _E = plant_abstract(view, rng, maxcopies=3)
            depth = rng.choice([10, 20, 25])
            read_len = 100
            fam = f"reads/{view.label}/{seed}/{f}"
            evs, runs_meta, skip = {}, {}, None
            sim_seed = rng.randrange(1 << 30)
            phase = f % 2 == 1  # read phasing off in every other family: refined scores comparable inside the indel band
            for b in BUILDS:
                g = view.gene[b]
                haps = []
                for (c, a, mi, weak), keys in zip(planted["bag"], planted["carried"]):
                    vs = [tuple(view.loaded[b][k]) for k in view.keys if f"{k[0]}{k[1]}" in keys]
                    haps.append((c, vs, True) if weak else (c, vs))
                bam = os.path.join(d, f"s{f}_{b}.bam")
                try:
                    s = gen_reads.simulate_sample(g, haps, read_len, depth, bam, random.Random(sim_seed),
                                                  contig_len=db["builds"][b]["contig_length"], mode="tile")
                except Exception as ex:  # simulator limitation: not a verdict
                    skip = f"{type(ex).__name__}: {ex}"[:200]
                    break
                kw = {} if phase else {"phase": False}
                with aldyenv.quiet_stderr():
                    r = pipeline.run_genotype(yml, s["bam"], s["profile_bam"], cn_region=s["cn_region"], genome=b, **kw)
                evs[b] = reads_event(view, b, r)
                runs_meta[b] = {"error": r["error"], "result": [(x["major_diplotype"], x["minor_diplotype"], x["score"]) for x in (r["result"] or [])]}
                for p in (bam, bam + ".bai", s.get("profile_bam", ""), s.get("profile_bam", "") + ".bai"):
                    if p and os.path.exists(p):
                        os.unlink(p)
            if skip:
                out["skipped"].append(skip)
                continue
            nind = sum(1 for ks in planted["carried"] for k in ks if gen_db.kind_of(k.lstrip("0123456789")) in ("ins", "del", "delins"))
            nfus = sum(1 for c in planted["struct"] if c != "1")
            # three-valued band (units of 1e-6): see run() ctx.assumptions
            band = int(round(SCORE_U * (1 + nind + nfus) * 2.0 * (len(planted["struct"]) + 1) / depth))
            # with read phasing the refined score also counts reads that contradict the phase of a copy
            # (0.4 each); which reads span two loci depends on the tiling offset: no useful bound
            mband = band if not phase else 1000 * SCORE_U
            evd = _digest([planted["bag"], planted["carried"], depth, read_len, phase])
            for i, b in enumerate(BUILDS):
                row = event_row(view, b, evs[b], fam, i == 0, "reads", evd, 2, band, cat=cat_d[b], mband=mband)
                row["id"] = f"{fam}/{b}"
                for x in row["final"]:
                    x.pop("diplotype", None)
                out["rows"].append(row)
            out["meta"][fam] = {"database": view.label, "db_spec": [spec[0], spec[1], spec[2]] + list(spec[3:]), "seed": seed, "family": f,
                                "strands": view.strand, "planted": planted, "depth": depth, "read_len": read_len, "band_1e-6": band, "phase": phase,
                                "yaml": open(yml).read() if f == 0 else "(same as family 0 of the task)",
                                "results": {b: {k: evs[b][k] for k in ("raised", "cn", "major", "minor", "final")} for b in BUILDS}, "runs": runs_meta,
                                "nontrivial": bool(evs["hg19"]["final"]), "fusion_called": any(c != "1" for s in evs["hg19"]["cn"] for c in s["struct"]),
                                "indel_planted": nind > 0, "catalogue_differs": None}
    return out


# =========================================================================== the check
HAZARDS = [("mc/MC_BuildIndep_genome_order.cfg", "BuildFree", "hazard RunGenomeOrder (regions always in genome order)"),
           ("mc/MC_BuildIndep_refseq_anchor.cfg", "BuildFree", "hazard RunRefSeqAnchor (variant keyed by the genome image of its first RefSeq base)"),
           ("mc/MC_BuildIndep_nonempty.cfg", "NothingCalled", "probe: some evidence table yields a refined call"),
           ("mc/MC_BuildIndep_fusion.cfg", "NoFusionCalled", "probe: some evidence table yields a fused structure")]

GEN_OPTS = [dict(strands=("+", "-"), pseudogene=True), dict(strands=("-", "+"), pseudogene=True), dict(strands=("+", "-")),
            dict(strands=("-", "+"), zero_region=True, pseudogene=True), dict(strands=("+", "-"), gaps=0.8, pseudogene=True),
            dict(strands=("-", "+"), kinds=dict(sub=2, msub=2, **{"del": 3, "ins": 3, "delins": 2})),
            dict(strands=("+", "-"), fusions=dict(left=2, right=1), pseudogene=True, zero_region=True)]


def _spec_models(ctx, quick):
    import concurrent.futures

    jobs = [("mc/MC_BuildIndep_quick.cfg" if quick else "mc/MC_BuildIndep.cfg", None, "BuildFree holds for Next")] + HAZARDS
    if not quick:
        jobs.insert(1, ("mc/MC_BuildIndep_three.cfg", None, "BuildFree holds for Next (three-copy structure)"))

    def one(j):
        # no -coverage: with the stage modules instantiated it makes TLC > 100x slower (30 min for the quick cfg);
        # that every action fires is shown instead by the hazard / probe configurations (each must be violated)
        cfg, expect, what = j
        r = tlc.run("mc/MC_BuildIndep", cfg, workers=6 if quick or expect else 16, timeout=3000)
        return j, r

    with concurrent.futures.ThreadPoolExecutor(max_workers=5 if quick else 2) as ex:
        for (cfg, expect, what), r in ex.map(one, jobs):
            ctx.states += r.distinct
            ctx.transitions += r.generated
            ctx.mc_runs.append(dict(r.summary(), module="MC_BuildIndep", cfg=os.path.basename(cfg), expects=expect or "no violation", what=what))
            if expect is None and not r.ok:
                raise MachineryError(f"spec-level check MC_BuildIndep ({cfg}) failed: {r.violated}\n{r.error_text[:3000]}")
            if expect is not None and r.violated != expect:
                raise MachineryError(f"anti-vacuity: {cfg} was expected to violate {expect}, TLC reported {r.violated} (ok={r.ok})")


def _canaries(rng, rows, rejected_ids, n):
    """Corrupted copies of accepted families (one field of the second event changed)."""
    by_fam = collections.OrderedDict()
    for r in rows:
        by_fam.setdefault(r["fam"], []).append(r)
    good = [f for f, rs in by_fam.items() if len(rs) == 2 and not any(r["id"] in rejected_ids for r in rs) and rs[0]["cn"]]
    out, info = [], {}
    for i, fam in enumerate(rng.sample(good, min(n, len(good)))):
        a, b = (json.loads(json.dumps(r)) for r in by_fam[fam])
        kinds = ["cnscore"]
        if any(m["sols"] for m in b["major"]):
            kinds += ["majorallele", "majorscore", "novel"]
        if any(m["sols"] for m in b["minor"]):
            kinds += ["minorscore", "minorname", "added", "addedstrand"]
        if b["final"]:
            kinds += ["finalscore"]
        if b["mband"] != b["band"]:  # read phasing on: refined / final scores are not comparable
            kinds = [k for k in kinds if k not in ("minorscore", "finalscore")]
        kind = kinds[i % len(kinds)]
        if kind == "cnscore":
            b["cn"][0]["score"] += 5 * b["band"] + 50
        elif kind in ("majorallele", "majorscore", "novel"):
            m = next(m for m in b["major"] if m["sols"])
            s = m["sols"][0]
            if kind == "majorscore":
                s["score"] += 5 * b["band"] + 50
            elif kind == "novel":
                s["novel"] = sorted(s["novel"] + ["-"])
            else:
                cfg = dict(map(tuple, b["majors"]))
                alt = [x for x, c in cfg.items() if s["alleles"] and c == cfg.get(s["alleles"][0]) and x != s["alleles"][0]]
                if not alt or not s["alleles"]:
                    s["score"] += 5 * b["band"] + 50
                else:
                    s["alleles"] = sorted([alt[0]] + s["alleles"][1:])
        else:
            if kind == "finalscore":
                b["final"][0]["score"] += 5 * b["mband"] + 50
            else:
                m = next(m for m in b["minor"] if m["sols"])
                s = m["sols"][0]
                if kind == "minorscore" or not s["copies"]:
                    s["score"] += 5 * b["mband"] + 5 * max(1, s["nadd"]) * m["tie"] + 50
                elif kind == "minorname":
                    s["copies"][0][1] = s["copies"][0][1] + "x"
                elif kind == "added":
                    s["copies"][0][2] = sorted(s["copies"][0][2] + ["-"])
                else:  # a variant printed in genome orientation instead of RefSeq notation
                    s["copies"][0][3] = sorted(s["copies"][0][3] + ["1" + rc_op("A>C")]) if "1T>G" not in b["variants"] else s["copies"][0][3] + ["0A>A"]
        cf = f"canary/{i}"
        a["fam"] = b["fam"] = cf
        a["id"], b["id"] = f"{cf}/a", f"{cf}/b"
        out += [a, b]
        info[f"{cf}/b"] = (kind, fam)
    return out, info


def run(ctx):
    aldyenv.setup()
    rng = random.Random(13000 + ctx.seed)
    quick = ctx.tier == "quick"
    ctx.rule = (
        "MC: BuildIndep over every evidence table nv,nr in {0,10,20}^3 x 4-5 region-depth vectors of a 3-variant / 3-allele / one-left-fusion "
        "catalogue, builds on opposite strands and different offsets; BuildFree for Next, violated with each hazard action. "
        "(B)(i) family = one database + one evidence table in RefSeq terms (planted 1-4 copies incl. fusions / partial alleles / extra copies; "
        "noise-free or multiplicative noise, dropped and spurious ops, region-depth noise) -> per build: independent transport, real "
        "estimate_cn -> estimate_major (first 2 structures) -> estimate_minor (first 3 major solutions); all 38 shipped databases (37 in quick: DPYD loads in 3 s), the "
        "toy gene (+/-), gen_db databases with opposite strands and different offsets. (ii) family = haplotypes simulated (tiled, same "
        "depth/read length) against each build + real genotype(). distinct = distinct family; non-trivial = a refined solution was reported."
    )
    ctx.trusted = ["harness/gen_db.py (Mapper, from_yaml)", "harness/gen_reads.py", "harness/evidence.py make_coverage", "harness/project.py",
                   "harness/pipeline.py recorders", "TLC"]
    ctx.assumptions = [
        "table level: reference counts are uniform over the bases one variant replaces (reads without the variant span all of it); "
        "databases whose two builds are on opposite strands AND have touching variant footprints are skipped (the locus of a variant is then strand dependent)",
        "table level scores compared in units of 1e-6 with tolerance 2e-6",
        "alignment level, three-valued: |score difference| <= 2e-6 ACCEPT; <= band = (1 + planted indel loci + non-default structures) * 2 * (copies + 1) / depth "
        "UNDECIDED: tiling offsets differ between strands, the simulator drops the reads that would start/end inside an indel (+-1 read per copy and "
        "locus); every other family runs with read phasing on: its refined and final scores count reads contradicting the phase of a copy (0.4 each), "
        "which depends on the tiling offset, so any difference of those two scores is UNDECIDED there (names, structures, major scores are still "
        "compared); a different refined solution inside the band is UNDECIDED too",
        "minor stage with read phasing is only exercised by (ii)",
    ]
    # ---------------- implementation side
    tasks = []
    for j in range(10 if quick else 60):
        tasks.append((("toy",), rng.randrange(1 << 30), 16 if quick else 60, j % (2 if quick else 3) == 0))
    for j in range(35 if quick else 400):
        opts = GEN_OPTS[j % len(GEN_OPTS)]
        tasks.append((("gen", rng.randrange(1 << 30), opts), rng.randrange(1 << 30), 7 if quick else 14, j % (2 if quick else 4) == 0))
    for n in genes.shipped_names():
        if n == "dpyd" and quick:
            continue
        big = n in ("cyp2d6", "cyp2a6", "dpyd", "ryr1")
        for j in range(1 if quick else (4 if not big else 8)):
            tasks.append((("shipped", n), rng.randrange(1 << 30), (3 if not big else 2) if quick else (12 if not big else 6), not big and j == 0))
    if quick:
        tasks += [(("shipped", "cyp2d6"), rng.randrange(1 << 30), 2, False), (("shipped", "cyp2a6"), rng.randrange(1 << 30), 2, True)]
    rtasks = []
    for j in range(8 if quick else 80):
        if j % 4 == 0:
            s = rng.choice([("+", "-"), ("-", "+")])
            rtasks.append((("toys", s[0], s[1], rng.randrange(40)), rng.randrange(1 << 30), 2 if quick else 4))
        else:
            rtasks.append((("gen", rng.randrange(1 << 30), GEN_OPTS[j % 4]), rng.randrange(1 << 30), 2 if quick else 4))
    outs = par.pmap(_any_task, [("t", t) for t in tasks] + [("r", t) for t in rtasks])
    rows, meta, stage = [], {}, {"cn": [], "major": [], "minor": []}
    parts = collections.Counter()
    skipped = []
    for o in outs:
        if o.get("loadfail"):
            ctx.violation("LoaderRaised", {"stage": "load", "clause": "LoaderRaised"}, {"database": o["label"]}, f"{o['label']}: {o['loadfail']}")
            continue
        rows += o["rows"]
        meta.update(o["meta"])
        skipped += [f"{o['label']}: {s}" for s in o["skipped"]]
        for k in stage:
            stage[k] += o.get("stage", {}).get(k, [])
    for fam, m in meta.items():
        kind = "reads" if fam.startswith("reads/") else "table"
        src = "toy" if m["database"].startswith("toy") else "gen" if m["database"].startswith("gen/") else "shipped"
        ctx.count(1, key=fam, nontrivial=m["nontrivial"])
        ctx.traces += 2
        parts[f"{kind}:{src}"] += 1
        parts[f"{kind}:opposite_strands"] += m["strands"]["hg19"] != m["strands"]["hg38"]
        parts[f"{kind}:fusion_called"] += bool(m["fusion_called"])
        parts[f"{kind}:indel_planted"] += bool(m["indel_planted"])
        parts[f"{kind}:refined_solution"] += bool(m["nontrivial"])
    ctx.parts["families"] = dict(parts)
    rn = {}
    for o in outs:
        if o.get("region_name_differs"):
            rn[o["label"]] = o["region_name_differs"][:6]
    ctx.parts["variant_region_name_differs_between_builds(C09 territory, no structure tells the regions apart)"] = rn
    ctx.parts["skipped"] = {"n": len(skipped), "examples": skipped[:5]}
    ctx.parts["shipped_databases"] = len({m["database"] for m in meta.values() if not m["database"].startswith(("toy", "gen/"))})
    ks = list(meta)
    for k in ks[:1] + [k for k in ks if k.startswith("gen/")][:1] + [k for k in ks if k.startswith("reads/")][:1]:
        ctx.sample({"family": k, "case": {kk: vv for kk, vv in meta[k].items() if kk != "yaml"}})
    # ---------------- specification side: model checking, then the trace batches
    _spec_models(ctx, quick)
    verdicts = _validate(ctx, rows)
    crow, cinfo = _canaries(rng, rows, set(verdicts), 24 if quick else 60)
    cver = _validate(ctx, crow, label="canary")
    for cid, (kind, fam) in cinfo.items():
        ok = cid in cver and not cver[cid].startswith("UNDECIDED")
        if not ok:
            print(f"ACCEPTED CANARY {cid} kind={kind} from {fam}: {cver.get(cid)}")
        ctx.canary(ok)
    # every stage event in full against the stage specifications
    sver = _validate_stages(ctx, stage)
    # ---------------- verdicts
    for rid, clause in verdicts.items():
        fam = rid.rsplit("/", 1)[0]
        m = meta[fam]
        if clause.startswith("UNDECIDED"):
            ctx.undecided += 1
            continue
        if clause.startswith("BadCase"):
            raise MachineryError(f"{clause} in {rid}")
        kind = "reads" if fam.startswith("reads/") else "table"
        src = "toy" if m["database"].startswith("toy") else "gen" if m["database"].startswith("gen/") else "shipped"
        stg = "minor" if "inor" in clause else "major" if "ajor" in clause else "cn" if "(cn)" in clause or "Structure" in clause else "other"
        detail = f"{rid}: hg19={json.dumps(m['results']['hg19'])[:600]} hg38={json.dumps(m['results']['hg38'])[:600]}"
        if clause == "CatalogueBuildFree":
            detail = f"{rid}: the loaded catalogues differ in RefSeq terms (C09 territory): {json.dumps(m['catalogue_differs'])[:800]}"
        ctx.violation(clause, {"stage": stg, "clause": clause, "kind": kind, "source": src}, dict(m, rid=rid), detail)
    for sid, clause in sver.items():
        if clause.startswith("UNDECIDED"):
            ctx.undecided += 1
            continue
        fam = next((f for f in meta if sid.startswith(f + "/")), None)
        ctx.violation("StageSemantics:" + clause, {"stage": "stage-spec", "clause": clause}, dict(meta.get(fam, {}), sid=sid),
                      f"{sid}: the stage event is not an instance of the stage specification ({clause})")


def _any_task(t):
    return _table_task(t[1]) if t[0] == "t" else _reads_task(t[1])


def _validate(ctx, rows, label="BuildTrace"):
    """BuildTrace over families (ids and family names interned to small integers)."""
    if not rows:
        return {}
    fams = {}
    wire = []
    for i, r in enumerate(rows):
        fams.setdefault(r["fam"], len(fams) + 1)
        wire.append(dict(r, id=i, fam=fams[r["fam"]]))
    rej = ctx.trace_batches("trace/BuildTrace", "trace/BuildTrace.cfg", wire, label=label, chunk=max(40, len(wire) // 12 + 1), group=lambda r: r["fam"])
    out = {}
    for r in rej:
        out.setdefault(rows[r[0]]["id"], r[1])
    return out


def _validate_stages(ctx, stage):
    out = {}
    for k, module in (("cn", "CNTrace"), ("major", "MajorTrace"), ("minor", "MinorTrace")):
        rows = stage[k]
        if not rows:
            continue
        wire = [dict(r, id=i) for i, r in enumerate(rows)]
        if k == "cn":
            wire.sort(key=lambda r: -len(r["cfgs"]) * r["M"] * r["M"])
        nch = 10
        wire = [r for i in range(nch) for r in wire[i::nch]]
        rej = ctx.trace_batches(f"trace/{module}", f"trace/{module}.cfg", wire, label=module, chunk=(len(wire) + nch - 1) // nch, jobs=nch)
        ctx.parts[f"stage_events_{k}"] = len(rows)
        for r in rej:
            out.setdefault(rows[r[0]]["id"], f"{k}:{r[1]}" if not r[1].startswith("UNDECIDED") else r[1])
    return out


def replay(path):
    from ..core import Ctx

    aldyenv.setup()
    with open(path) as f:
        blob = json.load(f)
    m = blob["case"]
    if "db_spec" not in m or "evidence_refseq" not in m:
        print("alignment families and loader failures are re-validated by running the check with the same seed")
        return 0
    spec = m["db_spec"]
    spec = tuple(spec) if spec[0] != "gen" else ("gen", spec[1], {k: (tuple(v) if isinstance(v, list) else v) for k, v in spec[2].items()})
    view = load_view(spec)
    er = m["evidence_refseq"]
    keyof = {f"{p}{o}": (p, o) for p, o in set(view.loaded["hg19"]) | set(view.loaded["hg38"])}
    E = {"V": {keyof[k]: n for k, n in er["V"]}, "R": {int(r): n for r, n in er["R"]}, "X": {(int(r), o): n for r, o, n in er["X"]},
         "D": {r: [g / 100.0, p / 100.0] for r, g, p in er["D"]}}
    dele = view.gene["hg19"].deletion_allele()
    struct = [c for c in m["planted"]["struct"] if c != dele]
    rows = []
    for i, b in enumerate(BUILDS):
        with aldyenv.quiet_stderr():
            ev = run_build(view, b, E, m["params"], struct)
        print(b, json.dumps({k: ev[k] for k in ("raised", "cn", "major", "minor")})[:1500])
        row = event_row(view, b, ev, 1, i == 0, "table", "replay", 2, 2)
        row["id"] = i
        rows.append(row)
    ctx = Ctx("C13", "quick", 0)
    rej = ctx.trace_batch("trace/BuildTrace", "trace/BuildTrace.cfg", rows, label="replay")
    bad = []
    for r in rej:
        if r[1].startswith("UNDECIDED"):
            continue
        stg = "minor" if "inor" in r[1] else "major" if "ajor" in r[1] else "cn" if "(cn)" in r[1] else "other"
        known = any(f.get("status") == "known" and f["clause"] == r[1] and all({"stage": stg, "clause": r[1], "kind": "table"}.get(k) == v
                                                                                 for k, v in f["fingerprint"].items()) for f in ctx._findings)
        if known:
            print(f"KNOWN-FINDING: property=C13 clause={r[1]} (see known_findings.d/C13.json)")
        else:
            bad.append(r)
    if bad:
        print(f"VIOLATION property=C13 replay={path}")
        print("  rejected:", bad)
        return 1
    print("replay: accepted")
    return 0
