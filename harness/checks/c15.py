"""C15 — calls are backed by high-quality reads; low-quality reads are ignored.

Spec: spec/Filter.tla (quality filter, two-step threshold filter, LowInvisible).
  MC : spec/mc/MC_Filter — exhaustive: LowQ steps never change the filtered view.
  (B): metamorphic families validated by spec/trace/FilterTrace.tla: base evidence -> real
       estimate_major / estimate_minor; then random AddLowQ/RemoveLowQ/ChangeLowQ steps -> re-run.
       LowQIsStutter (results and scores identical) + support of every reported variant recomputed
       by the spec from the logged raw evidence.
"""
import json
import random

from .. import aldyenv, evidence, genes, par, project
from ..core import MachineryError
from . import c04

GENES = ["toy", "toy", "toy", "cyp2c19", "cyp2c9", "tpmt", "cyp3a5", "nudt15", "cyp2b6"]


def _profile(**kw):
    from aldy.profile import Profile

    return Profile("verif", **kw)


def low_qual(rng, prof):
    """A (mapq, baseq) pair below at least one threshold."""
    k = rng.choice(["base", "map", "both"])
    b = rng.randint(0, max(0, int(prof.min_quality) - 1)) if k in ("base", "both") else rng.choice([int(prof.min_quality), 40, 60])
    m = rng.randint(0, max(0, int(prof.min_mapq) - 1)) if k in ("map", "both") else rng.choice([int(prof.min_mapq), 40, 60])
    return (m, b)


def lowq_steps(rng, gene, prof, table, low_extra):
    """Apply a random sequence of AddLowQ / RemoveLowQ / ChangeLowQ steps to the low-quality part."""
    out = {p: {o: list(q) for o, q in ops.items()} for p, ops in low_extra.items()}
    sites = sorted(set(table) | {p for p, _ in gene.mutations})
    cat = sorted(gene.mutations)
    for _ in range(rng.randint(1, 25)):
        r = rng.random()
        if r < 0.6:  # AddLowQ: at an existing op, at a catalogued variant without any support, or a random change
            if rng.random() < 0.5 and cat:
                p, o = rng.choice(cat)
            else:
                p = rng.choice(sites)
                o = rng.choice(sorted(table.get(p, {"_": 0})) + ["_"])
                if rng.random() < 0.2:
                    ref = gene[p]
                    o = f"{ref}>{rng.choice([b for b in 'ACGT' if b != ref])}" if ref in "ACGT" else "_"
            out.setdefault(p, {}).setdefault(o, [])
            out[p][o] += [low_qual(rng, prof) for _ in range(rng.choice([1, 1, 2, 5, 30]))]
        elif r < 0.8:  # RemoveLowQ
            ps = [p for p in out if any(out[p].values())]
            if ps:
                p = rng.choice(ps)
                o = rng.choice([o for o in out[p] if out[p][o]])
                del out[p][o][rng.randrange(len(out[p][o]))]
        else:  # ChangeLowQ
            ps = [p for p in out if any(out[p].values())]
            if ps:
                p = rng.choice(ps)
                o = rng.choice([o for o in out[p] if out[p][o]])
                out[p][o][rng.randrange(len(out[p][o]))] = low_qual(rng, prof)
    return out


def run_stages(gene, cov, struct):
    from aldy.major import estimate_major
    from aldy.minor import estimate_minor
    from aldy.solutions import CNSolution

    cn_sol = CNSolution(gene, 0, list(struct))
    majors = estimate_major(gene, cov, cn_sol, "any")
    majors = sorted(majors, key=lambda m: (m.score, m._solution_nice()))
    minors, msol = None, None
    if majors:
        msol = majors[0]
        minors = estimate_minor(gene, cov, [msol], "any")
    return cn_sol, majors, msol, minors


def _family_task(task):
    gname, genome, seed, nfam = task
    rng = random.Random(seed)
    g = genes.load(gname, genome)
    sites_all = evidence.catalogue_sites(g)
    rows, meta = [], {}
    for f in range(nfam):
        kw = {"threshold": rng.choice([0.3, 0.5, 0.5]), "min_coverage": rng.choice([1, 2, 2, 5]),
              "min_quality": rng.choice([10, 10, 20]), "min_mapq": rng.choice([10, 10, 20, 30])}
        prof = _profile(**kw)
        struct, bag = c04.random_struct_bag(g, rng, 3)
        table = evidence.plant(g, bag, depth=rng.choice([10, 20, 30]), sites=sites_all)
        if rng.random() < 0.7:
            table = evidence.perturb(rng, table, level=rng.choice([0.1, 0.3, 0.5]), drop=0.05, spurious=0.2, gene=g)
        # observations of intermediate quality: good or low depending on the thresholds
        mid = {}
        for p, ops in table.items():
            if rng.random() < 0.3:
                mid[p] = {o: [rng.choice([(60, 15), (15, 60), (25, 60), (60, 12), (20, 20)]) for _ in range(rng.randint(1, 6))] for o in ops}
        low0 = lowq_steps(rng, g, prof, table, {}) if rng.random() < 0.5 else {}
        fam = f"{gname}/{genome}/{seed}/{f}"
        variants = [("base", low0)] + [("lowq", lowq_steps(rng, g, prof, table, low0)) for _ in range(3)]
        for vi, (kind, low) in enumerate(variants):
            extra = {p: {o: list(q) for o, q in ops.items()} for p, ops in mid.items()}
            for p, ops in low.items():
                for o, q in ops.items():
                    extra.setdefault(p, {}).setdefault(o, [])
                    extra[p][o] = extra[p][o] + q
            cov = evidence.make_coverage(g, prof, table, None, None, extra)
            raised = ""
            try:
                cn_sol, majors, msol, minors = run_stages(g, cov, struct)
            except Exception as ex:
                from aldy.solutions import CNSolution

                cn_sol, majors, msol, minors, raised = CNSolution(g, 0, list(struct)), [], None, None, f"{type(ex).__name__}: {ex}"
            eid = f"{fam}/{vi}"
            row = {"id": eid, "fam": fam, "kind": kind, "raised": raised,
                   "major": project.major_case(eid, g, cov, cn_sol, majors, origin=0),
                   "hasMinor": msol is not None}
            row["minor"] = project.minor_case(eid, g, cov, msol, minors, enumerate_all=False) if msol is not None else {}
            row["good"] = sorted([p, o, sum(1 for q in qs if project._is_good(q, prof))] for p, ops in cov._coverage.items() for o, qs in ops.items()
                                 if any(project._is_good(q, prof) for q in qs))
            row["resmajor"] = sorted([sorted(sa.major for sa, n in s.solution.items() for _ in range(n)), sorted(str(m) for m in s.added), project.fix(s.score)] for s in majors)
            row["resminor"] = [[project.fix(s.score), sorted([sa.major, sa.minor, sorted(str(x) for x in sa.added), sorted(str(x) for x in sa.missing)] for sa in s.solution)] for s in (minors or [])]
            rows.append(row)
            meta[eid] = {"gene": f"{gname}/{genome}", "struct": struct, "bag": bag, "params": kw, "kind": kind,
                         "nlow": sum(len(q) for ops in low.values() for q in ops.values()),
                         "table": table if vi == 0 else "(as base)", "low": {str(p): v for p, v in low.items()} if vi else "(base)",
                         "major_result": [(sorted(sa.major for sa, n in s.solution.items() for _ in range(n)), [str(m) for m in s.added], s.score) for s in majors],
                         "minor_result": [([(sa.minor, [str(x) for x in sa.added], [str(x) for x in sa.missing]) for sa in s.solution], s.score) for s in (minors or [])]}
    return rows, meta


def run(ctx):
    aldyenv.setup()
    rng = random.Random(15000 + ctx.seed)
    quick = ctx.tier == "quick"
    ctx.rule = (
        "MC: every LowQ step on a 3-op site with counts 0..3, 3 parameter sets, cn 1..3. (B) families = base evidence "
        "(planted 1-3 copies + noise + intermediate-quality observations) and 3 variants after 1-25 random "
        "AddLowQ/RemoveLowQ/ChangeLowQ steps (also at sites/variants without any good observation), thresholds drawn "
        "from threshold {.3,.5}, min_coverage {1,2,5}, min_quality {10,20}, min_mapq {10,20,30}; distinct = distinct event; "
        "non-trivial = a major solution was reported."
    )
    ctx.trusted = ["harness/evidence.py", "harness/project.py", "TLC"]
    if quick:
        ctx.mc("mc/MC_Filter", label="MC_Filter(MaxN=3)", workers=8)
    else:
        ctx.mc("mc/MC_Filter", "mc/MC_Filter_thorough.cfg", label="MC_Filter(MaxN=4)", timeout=3000)
    tasks = []
    for gname in (GENES if quick else GENES * 8):
        tasks.append((gname, rng.choice(["hg19", "hg38"]), rng.randrange(1 << 30), 12 if quick else 25))
    rows, meta = [], {}
    for r, m in par.pmap(_family_task, tasks):
        rows += r
        meta.update(m)
    for eid, m in meta.items():
        ctx.count(1, key=eid, nontrivial=bool(m["major_result"]))
        ctx.traces += 1
    ctx.parts["families"] = {"events": len(rows), "families": len({r["fam"] for r in rows}),
                             "lowq_events": sum(1 for r in rows if r["kind"] == "lowq")}
    ks = list(meta)
    ctx.sample({"family_base": meta[ks[0]], "family_lowq": {k: v for k, v in meta[ks[1]].items() if k != "table"}})
    # canaries: a lowq event whose result differs; an event reporting an unsupported allele
    canary_ids = []
    lowq_rows = [r for r in rows if r["kind"] == "lowq" and r["major"]["result"]]
    extra_rows = []
    for i, r in enumerate(rng.sample(lowq_rows, min(12, len(lowq_rows)))):
        base = [b for b in rows if b["fam"] == r["fam"] and b["kind"] == "base"][0]
        c = json.loads(json.dumps(r))
        c["id"] = f"canary/{i}"
        c["resmajor"][0][2] += 5000
        b2 = json.loads(json.dumps(base))
        b2["id"] = f"canarybase/{i}"
        b2["fam"] = c["fam"] = f"canaryfam/{i}"
        extra_rows += [b2, c]
        canary_ids.append((c["id"], base["id"], r["id"]))
    rows += extra_rows
    rej = ctx.trace_batches("trace/FilterTrace", "trace/FilterTrace.cfg", rows, label="FilterTrace", chunk=80, group=lambda r: r["fam"])
    by_id = {}
    for r in rej:
        by_id.setdefault(r[0], r[1])
    # the same events, validated in full against the stage models (exact results under the spec's filters)
    mrows = []
    for r in rows:
        if r["id"].startswith("canary"):
            continue
        mc = dict(r["major"], raised=r["raised"])
        mrows.append(mc)
    for r in ctx.trace_batches("trace/MajorTrace", "trace/MajorTrace.cfg", mrows, label="MajorTrace", chunk=200):
        by_id.setdefault(r[0], "major:" + r[1] if not r[1].startswith("UNDECIDED") else r[1])
    nrows = [dict(r["minor"], raised=r["raised"]) for r in rows if r["hasMinor"] and not r["id"].startswith("canary")]
    for r in ctx.trace_batches("trace/MinorTrace", "trace/MinorTrace.cfg", nrows, label="MinorTrace", chunk=200):
        by_id.setdefault(r[0], "minor:" + r[1] if not r[1].startswith("UNDECIDED") else r[1])
    for cid, bid, rid in canary_ids:
        if bid in by_id or rid in by_id or cid.replace("canary/", "canarybase/") in by_id:
            continue
        ctx.canary(cid in by_id)
    for k, clause in by_id.items():
        if k.startswith("canary"):
            continue
        if clause.startswith("UNDECIDED"):
            ctx.undecided += 1
            continue
        if clause.startswith("BadCase"):
            raise MachineryError(f"{clause} in {k}")
        m = meta[k]
        ctx.violation(clause, {"stage": "filter", "clause": clause, "gene": m["gene"].split("/")[0]}, {"event": m, "family": k.rsplit("/", 1)[0]},
                      f"event {k}: params={m['params']} major={m['major_result']} minor={m['minor_result']}")


def replay(path):
    print("C15 families are re-validated by running the check with the same seed; replay file holds the event")
    return 0
