"""C05 — the ILP layer returns true optima and exact linearisations.

Spec: spec/ILPEnum.tla (enumeration loop), spec/Linearise.tla (helpers).
  MC   : every model over 3 binaries x objective 0..2 x every tie-break (exhaustive TLC).
  (A)  : TLC-emitted helper cases replayed into the real CBC.prod / CBC.abssum.
  (B)  : random aldy-shaped models built through the real lpinterface API; the recorded
         yields are replayed as ILPEnum steps by spec/trace/ILPEnumTrace.tla, which computes
         the feasible set/objective by enumerating all assignments inside TLC.
"""
import os
import random

from .. import aldyenv, tlc
from ..core import MachineryError

UNIT = 2000  # objective units: 1/2000 (coefficients are tenths x halves = 1/20; per-binary costs also carry thousandths)


# --------------------------------------------------------------------------- models
HOSTILE = [
    "A_1.001_0", "A_1001_0", "N_100.T>A", "N_100TA", "K_5-del_#1", "K_5mdel___1",
    "X" * 230, "X" * 230 + "Y", "E_pce", "A_4#1_0", "A_4__1_0", "Z>", "Z", "A_1001_0_2", "Z_2",
]


def gen_model(rng, tid):
    n = rng.randint(2, 8)
    neq = rng.randint(1, 5)
    # aldy's models have groups of interchangeable binaries (copies of one allele): replicate columns
    symmetric = rng.random() < 0.6
    ncols = rng.randint(1, 3) if symmetric else n
    colof = [rng.randrange(ncols) for _ in range(n)] if symmetric else list(range(n))
    cols = [[rng.choice([0, 0, 1, 1, 1, -1, 2]) for _ in range(neq)] for _ in range(ncols)]
    ccol = [rng.choice([0, 0, 0, 1, 5, 10, 15, 38]) for _ in range(ncols)]  # tenths
    planted = [rng.random() < 0.4 for _ in range(n)] if rng.random() < 0.6 else None
    eq = []
    for j in range(neq):
        a = [cols[colof[i]][j] for i in range(n)]
        if planted is not None:
            b = 2 * sum(a[i] for i in range(n) if planted[i]) + rng.choice([0, 0, 0, 1, -1])
        else:
            b = rng.choice([0, 1, 2, 3, 4, 5, 6])  # halves: 0..3 copies
        w = 10 if symmetric and rng.random() < 0.8 else rng.choice([0, 1, 2, 5, 10, 10, 10, 15, 20])  # tenths; 0 = a term the caller switched off (e.g. cn_pce_penalty=0)
        ub = rng.choice([-1, -1, -1, -1, 4, 6])  # bound on |e| in halves, -1 = free
        eq.append({"a": a, "b": b, "w": w, "ub": ub})
    c = [ccol[colof[i]] for i in range(n)]
    # near-ties: a third of the models give every column an extra cost of 0-9 thousandths, so that assignments
    # a few thousandths apart exist (the gap test's tolerance is 1e-5, the solution precision 1e-2)
    tcol = [rng.randrange(10) for _ in range(ncols)] if rng.random() < 0.5 else [0] * ncols
    t = [tcol[colof[i]] for i in range(n)]
    card = []
    for _ in range(rng.randint(0, 2)):
        s = sorted(rng.sample(range(1, n + 1), rng.randint(1, n)))
        card.append({"s": s, "op": rng.choice(["le", "ge", "eq"]), "k": rng.randint(0, min(3, len(s)))})
    ordc = []
    for _ in range(rng.randint(0, 2)):
        i, j = rng.sample(range(1, n + 1), 2)
        ordc.append([i, j])
    prod = []
    if n >= 3 and rng.random() < 0.4:
        idx = rng.sample(range(1, n + 1), rng.randint(2, min(4, n)))
        prod.append({"r": idx[0], "f": idx[1:]})
    gapN, gapD = rng.choice([(0, 1), (1, 10), (1, 2)])
    limit = rng.choice([0, 0, 0, 1, 2, 3])
    names = []
    pool = HOSTILE[:]
    rng.shuffle(pool)
    hostile = rng.random() < 0.5
    for i in range(n):
        if hostile and pool and rng.random() < 0.7:
            names.append(pool.pop())
        else:
            names.append(f"V_{tid}_{i}")
    return {
        "tid": tid, "k": "init", "n": n, "eq": eq, "c": c, "card": card, "ord": ordc, "prod": prod,
        "gapN": gapN, "gapD": gapD, "limit": limit, "names": names, "t": t,
    }


def to_spec_event(d):
    """Integer description in the spec's units (1/UNIT = 1/2000): a doubled (b is in halves), weights x100,
    costs = tenths x200 + thousandths x2."""
    t = d.get("t") or [0] * d["n"]
    return {
        "tid": d["tid"], "k": "init", "n": d["n"],
        "eq": [{"a": [2 * x for x in e["a"]], "b": e["b"], "w": 100 * e["w"], "ub": e["ub"]} for e in d["eq"]],
        "c": [200 * x + 2 * t[i] for i, x in enumerate(d["c"])],
        "card": d["card"], "ord": d["ord"], "prod": d["prod"],
        "gapN": d["gapN"], "gapD": d["gapD"], "limit": d["limit"],
    }


def run_model(d):
    """Build the model through the real lpinterface API and record what solutions() yields."""
    from aldy import lpinterface

    m = lpinterface.model("VerifC05", "any")
    n = d["n"]
    X = [m.addVar(vtype="B", name=d["names"][i]) for i in range(n)]
    E = []
    coeffs = {}
    for j, e in enumerate(d["eq"]):
        if e["ub"] >= 0:
            # error terms are multiples of 1/2; the bound sits a quarter above, so that no assignment is
            # exactly ON the bound (CBC decides exactly-tight continuous bounds tolerance-dependently:
            # seen once, seed 3 model 408, where it lost the true optimum that way)
            bnd = e["ub"] / 2.0 + 0.25
            ev = m.addVar(lb=-bnd, ub=bnd, name=f"E_{j}")
        else:
            ev = m.addVar(lb=-m.INF, ub=m.INF, name=f"E_{j}")
        expr = m.quicksum(e["a"][i] * X[i] for i in range(n))
        m.addConstr(expr + ev <= e["b"] / 2.0, name=f"CFUNC_{j}")
        m.addConstr(expr + ev >= e["b"] / 2.0, name=f"CFUNC_{j}")
        E.append(ev)
        coeffs[m.varName(ev)] = e["w"] / 10.0
    for ci, cc in enumerate(d["card"]):
        expr = m.quicksum(X[i - 1] for i in cc["s"])
        if cc["op"] in ("le", "eq"):
            m.addConstr(expr <= cc["k"], name=f"CARD_{ci}")
        if cc["op"] in ("ge", "eq"):
            m.addConstr(expr >= cc["k"], name=f"CARD_{ci}")
    for i, j in d["ord"]:
        m.addConstr(X[i - 1] <= X[j - 1], name=f"CORD_{i}_{j}")
    for p in d["prod"]:
        m.prod(X[p["r"] - 1], [X[f - 1] for f in p["f"]])
    objective = m.abssum(E, coeffs=coeffs)
    tt = d.get("t") or [0] * n
    objective += m.quicksum((d["c"][i] / 10.0 + tt[i] / 1000.0) * X[i] for i in range(n))
    m.setObjective(objective)
    real_names = [m.varName(v) for v in X]
    names_ok = len(set(real_names)) == n
    lookup = {nm: i + 1 for i, nm in enumerate(real_names)}
    events = []
    if not names_ok:
        # two variables share a solver name: solutions are not identifiable (and OR-tools aborts
        # the process on duplicate names), so do not solve
        return [
            {"tid": d["tid"], "k": "yield", "obj": 0, "ongrid": True, "active": [], "names_ok": False,
             "vals_ok": True, "status": "not-solved"},
            {"tid": d["tid"], "k": "end"},
        ]
    gap = d["gapN"] / d["gapD"]
    kw = {"limit": d["limit"]} if d["limit"] else {}
    # observe the backend at its own interface (OR-tools objects, no aldy logic): did a Solve() return
    # OPTIMAL/FEASIBLE with a point that OR-tools' own VerifySolution rejects?  Used only for attribution.
    bogus = []
    backend = getattr(m, "model", None)
    if backend is not None and hasattr(backend, "VerifySolution"):
        real_solve = backend.Solve

        def watched(*a, **k):
            st = real_solve(*a, **k)
            if st in (0, 1) and not backend.VerifySolution(1e-5, False):
                bogus.append(int(st))
            return st

        try:
            backend.Solve = watched
        except Exception:
            pass
    for status, obj, sol in m.solutions(gap, **kw):
        if len(events) > min(300, 2 ** n + 1):  # a loop that never terminates (e.g. a no-op cut) is rejected at its 2nd yield
            break
        active = sorted({lookup[s] for s in sol if s in lookup})
        unknown = [s for s in sol if s not in lookup]
        # typed read-back after this solve
        vals_ok = True
        for i, v in enumerate(X):
            val = m.getValue(v)
            if not isinstance(val, bool) or val != ((i + 1) in active):
                vals_ok = False
        xs = [1 if (i + 1) in active else 0 for i in range(n)]
        for j, e in enumerate(d["eq"]):
            expect = e["b"] / 2.0 - sum(e["a"][i] * xs[i] for i in range(n))
            if abs(m.getValue(E[j]) - expect) > 1e-6:
                vals_ok = False
        u = obj * UNIT
        events.append({
            "tid": d["tid"], "k": "yield", "obj": int(round(u)), "ongrid": abs(u - round(u)) < 1e-3,
            "active": active, "names_ok": bool(names_ok and not unknown and len(sol) == len(set(sol))),
            "vals_ok": vals_ok, "status": status,
        })
    events.append({"tid": d["tid"], "k": "end", "backend_unverifiable": len(bogus)})
    return events


def raw_cbc_first(d):
    """Solve the same model through the raw OR-tools CBC API (no aldy code involved).
    Used only to attribute a non-optimal first solution: backend defect vs lpinterface defect."""
    from ortools.linear_solver import pywraplp

    s = pywraplp.Solver("raw", pywraplp.Solver.CBC_MIXED_INTEGER_PROGRAMMING)
    n = d["n"]
    X = [s.BoolVar(f"x{i}") for i in range(n)]
    obj = 0
    for j, e in enumerate(d["eq"]):
        bnd = e["ub"] / 2.0 + 0.25
        lb, ub = (-bnd, bnd) if e["ub"] >= 0 else (-s.infinity(), s.infinity())
        ev, av = s.NumVar(lb, ub, f"e{j}"), s.NumVar(0, s.infinity(), f"a{j}")
        ex = sum(e["a"][i] * X[i] for i in range(n)) + ev
        s.Add(ex <= e["b"] / 2.0)
        s.Add(ex >= e["b"] / 2.0)
        s.Add(av + ev >= 0)
        s.Add(av - ev >= 0)
        obj += e["w"] / 10.0 * av
    tt = d.get("t") or [0] * n
    obj += sum((d["c"][i] / 10.0 + tt[i] / 1000.0) * X[i] for i in range(n))
    for cc in d["card"]:
        ex = sum(X[i - 1] for i in cc["s"])
        if cc["op"] in ("le", "eq"):
            s.Add(ex <= cc["k"])
        if cc["op"] in ("ge", "eq"):
            s.Add(ex >= cc["k"])
    for i, j in d["ord"]:
        s.Add(X[i - 1] <= X[j - 1])
    for p in d["prod"]:
        for f in p["f"]:
            s.Add(X[p["r"] - 1] <= X[f - 1])
        s.Add(X[p["r"] - 1] >= sum(X[f - 1] for f in p["f"]) - (len(p["f"]) - 1))
    s.Minimize(obj)
    st = s.Solve()
    if st != pywraplp.Solver.OPTIMAL:
        return None
    return int(round(s.Objective().Value() * UNIT))


def corrupt(rng, events):
    """Return a corrupted copy of an accepted trace (must be REJECTed), or None."""
    ys = [e for e in events if e["k"] == "yield"]
    if not ys:
        return None
    ev = [dict(e) for e in events]
    kind = rng.choice(["obj", "dup", "objlow", "truncate"])
    yi = [i for i, e in enumerate(ev) if e["k"] == "yield"]
    if kind == "obj":
        ev[rng.choice(yi)]["obj"] += 1
    elif kind == "dup":
        i = rng.choice(yi)
        ev.insert(i + 1, dict(ev[i]))
    elif kind == "objlow":
        ev[yi[0]]["obj"] -= 1
    elif kind == "truncate":
        # claim the generator ended before the last yield although the loop must go on
        del ev[yi[-1]]
        if ev[0]["limit"] and len(yi) - 1 < ev[0]["limit"]:
            pass
    return ev, kind


# --------------------------------------------------------------------------- helpers (A)
def replay_linearise(ctx):
    from aldy import lpinterface

    out = os.path.join(tlc.scratch(), "lin_cases.ndjson")
    r = ctx.mc("Linearise", workers=1, env={"OUT_FILE": out}, label="Linearise(ASSUME ProdOK,AbsOK,AbsMinOK)")
    cases = tlc.read_ndjson(out)
    got = [p for p in r.prints if p[1] == "CASES"]
    if not got or got[0][2] + got[0][3] != len(cases):
        raise MachineryError("Linearise case emission mismatch")
    nprod = nabs = 0
    for c in cases:
        if c["k"] == "prod":
            nprod += 1
            res = []
            for sense in ("min", "max"):
                m = lpinterface.model("VerifProd", "any")
                fs = [m.addVar(vtype="B", name=f"F{i}") for i in range(len(c["f"]))]
                for v, val in zip(fs, c["f"]):
                    m.addConstr(v <= val)
                    m.addConstr(v >= val)
                rv = m.addVar(vtype="B", name="RES")
                out_v = m.prod(rv, fs)
                m.setObjective(1 * out_v, method=sense)
                try:
                    m.solve()
                    res.append(int(round(m.getValue(out_v))))
                except lpinterface.NoSolutionsError:
                    res.append("infeasible")
            ctx.count(1, key=("prod", tuple(c["f"])))
            ctx.traces += 1
            if res != [c["expect"], c["expect"]]:
                ctx.violation("ProdOK", {"helper": "prod", "n": len(c["f"])}, c, f"min/max of res = {res}")
        else:
            nabs += 1
            m = lpinterface.model("VerifAbs", "any")
            vs = [m.addVar(lb=-m.INF, ub=m.INF, name=f"E_{i}") for i in range(len(c["v"]))]
            for v, val in zip(vs, c["v"]):
                m.addConstr(v <= val)
                m.addConstr(v >= val)
            coeffs = {m.varName(v): float(k) for v, k in zip(vs, c["c"])}
            o = m.abssum(vs, coeffs=coeffs)
            m.setObjective(o)
            try:
                _, val = m.solve()
            except lpinterface.NoSolutionsError:
                val = None
            helpers = {m.varName(v): v for v in m.variables() if m.varName(v).startswith("ABS_")}
            hv = [
                (m.getValue(helpers["ABS_" + m.varName(v)]) if val is not None and "ABS_" + m.varName(v) in helpers else None)
                for v in vs
            ]
            ctx.count(1, key=("abs", tuple(c["v"]), tuple(c["c"])))
            ctx.traces += 1
            bad = val is None or abs(val - c["expect"]) > 1e-6
            # a helper whose coefficient is 0 is not pinned by the objective (Linearise!AbsFreeAtZeroCoeff): only its weight counts
            bad = bad or any(h is None or abs(h - e) > 1e-6 for h, e, k in zip(hv, c["helpers"], c["c"]) if k > 0)
            if bad:
                ctx.violation("AbsOK", {"helper": "abssum", "n": len(c["v"])}, c, f"objective={val} helpers={hv}")
    ctx.parts["linearise"] = {"prod_cases": nprod, "abs_cases": nabs, "exhaustive": True}
    ctx.sample({"linearise_case": cases[37]})
    ctx.sample({"linearise_case": cases[-1]})


# --------------------------------------------------------------------------- main
def run(ctx):
    aldyenv.setup()
    rng = random.Random(1000 + ctx.seed)
    quick = ctx.tier == "quick"
    ctx.rule = (
        "MC: every feasible-set/objective table over 3 binaries, objective 0..2, every solver tie-break. "
        "(A) every product of 1-4 factors, every pinned-value pattern of 1-4 absolute terms (-2..2, two coefficient vectors) "
        "through the real helpers. (B) random models (2-8 binaries, 1-5 error terms, cardinality/ordering/product constraints, "
        "hostile names) built through the real lpinterface API and replayed by ILPEnumTrace; distinct = distinct model "
        "description; non-trivial = at least one feasible assignment and at least one yield."
    )
    ctx.trusted = ["harness/checks/c05.py model builder", "TLC", "JSON projection of yields"]
    ctx.assumptions = [
        "objectives are non-negative (as in every aldy model)",
        "independent-solver comparison (SCIP/HiGHS) of the property's quantifier is outside this technique",
    ]
    # --- MC
    if quick:
        ctx.mc("mc/MC_ILPEnum", "mc/MC_ILPEnum_quick.cfg", label="MC_ILPEnum(quick)")
    else:
        ctx.mc("mc/MC_ILPEnum", "mc/MC_ILPEnum.cfg", label="MC_ILPEnum(full+liveness)", timeout=3600, coverage=True)
    # --- (A)
    with aldyenv.quiet_stderr():
        replay_linearise(ctx)
    # --- (B)
    nmodels = 1200 if quick else 12000
    rows = []
    canary_tids = {}
    descs = {}
    tid = 0
    with aldyenv.quiet_stderr():
        for _ in range(nmodels):
            tid += 1
            d = gen_model(rng, tid)
            evs = run_model(d)
            descs[tid] = (d, evs)
            rows.append(to_spec_event(d))
            rows += evs
            nyield = sum(1 for e in evs if e["k"] == "yield")
            ctx.count(1, key=repr(sorted((k, repr(v)) for k, v in d.items() if k not in ("tid", "names"))), nontrivial=nyield > 0)
            ctx.traces += 1
            if tid <= 3:
                ctx.sample({"model": {k: v for k, v in d.items()}, "recorded": evs})
            if rng.random() < 0.03:
                c = corrupt(rng, [to_spec_event(d)] + evs)
                if c:
                    cev, kind = c
                    tid += 1
                    for e in cev:
                        e["tid"] = tid
                    canary_tids[tid] = (kind, tid - 1)
                    rows += cev
    rej = ctx.trace_batch("trace/ILPEnumTrace", "trace/ILPEnumTrace.cfg", rows, label="ILPEnumTrace", timeout=3000)
    rejected = {}
    for r in rej:
        rejected.setdefault(r[0], r)
    for t, (kind, src) in canary_tids.items():
        # truncation is only a corruption when the loop really had to continue;
        # a canary is only meaningful when the trace it was derived from was accepted
        if (kind == "truncate" and t not in rejected) or src in rejected:
            continue
        if t not in rejected:
            import sys
            print("ACCEPTED CANARY", kind, [r for r in rows if r["tid"] == t], file=sys.stderr)
        ctx.canary(t in rejected)
    ctx.parts["random_models"] = {"models": nmodels, "canaries": len(canary_tids), "rows": len(rows)}
    for t, r in rejected.items():
        if t in canary_tids:
            continue
        d, evs = descs[t]
        hostile = any(not nm.startswith("V_") for nm in d["names"])
        fp = {"site": "lpinterface.solutions", "clause": r[1], "hostile_names": hostile}
        ys = [e for e in evs if e["k"] == "yield"]
        if r[1] == "NotOptimalAmongRemaining" and ys and rows.index(ys[0]) + 1 == r[2]:
            # first solve not optimal: is it the backend?  (raw OR-tools CBC, no aldy code)
            with aldyenv.quiet_stderr():
                raw = raw_cbc_first(d)
            fp["raw_cbc_returns_same_nonoptimal_objective"] = raw is not None and raw == ys[0]["obj"]
        if r[1] == "CompleteModuloSuperset/PrematureEnd":
            # the enumeration stopped although admissible assignments remain: did the backend hand back a
            # point flagged OPTIMAL that violates the model's own constraints (lpinterface then raises
            # NoSolutionsError, which ends the enumeration)?
            fp["backend_returned_unverifiable_point_as_optimal"] = bool(evs and evs[-1].get("backend_unverifiable"))
        ctx.violation(
            r[1],
            fp,
            {"model": d, "recorded": evs, "event_index": r[2]},
            f"trace {t} rejected at event {r[2]}: {r[1]}",
        )


def replay(path):
    import json

    from ..core import Ctx

    aldyenv.setup()
    with open(path) as f:
        case = json.load(f)["case"]
    ctx = Ctx("C05", "quick", 0)
    d = case["model"]
    with aldyenv.quiet_stderr():
        evs = run_model(d)
    rows = [to_spec_event(d)] + evs
    rej = ctx.trace_batch("trace/ILPEnumTrace", "trace/ILPEnumTrace.cfg", rows, label="replay")
    print("recorded now:", evs)
    if rej:
        print(f"VIOLATION property=C05 replay={path}")
        print("  rejected:", rej)
        return 1
    print("replay: accepted")
    return 0
