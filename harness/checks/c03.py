"""C03 — gene-structure (copy number) calls are well-formed and optimal.

Spec: spec/CNModel.tla (semantic layer: explanations = slot pair x extra copies x pseudogene
copies, folded into structures).  Binding (B): recorded calls of the real solve_cn_model /
estimate_cn on planted+noisy region-depth vectors validated by spec/trace/CNTrace.tla; routes
(user-supplied structure, default two copies, male X/Y) validated by spec/trace/CNRouteTrace.
"""
import json
import random

from .. import aldyenv, genes, par, project
from ..core import MachineryError

GENES_Q = ["toy", "toy", "toy", "cyp2a6", "gstm1", "cyp2d6"]


def _profile(**kw):
    from aldy.profile import Profile

    return Profile("verif", **kw)


def plant_depths(rng, gene, configs, M):
    """Region depths of a planted structure: two complete configurations + extra
    pseudogene-free default copies (+ optional pseudogene copy-number change)."""
    names = sorted(configs)
    dele = gene.deletion_allele()
    slots = [rng.choice(names), rng.choice(names)]
    if rng.random() < 0.5:
        slots[0] = "1"
    extra = rng.choice([0, 0, 0, 1, 1, 2, 3])
    if dele and rng.random() < 0.08:
        # rule witness (double deletion is exclusive): no gene copy at all, pseudogene copies may vary
        slots, extra = [dele, dele], 0
    has_ps = len(gene.regions) > 1
    c0, c1 = {}, {}
    for r in gene.unique_regions:
        g = sum(configs[s].cn[0][r] for s in slots) + extra * configs["1"].cn[0][r]
        p = sum(configs[s].cn[1][r] for s in slots) if has_ps else 0
        c0[r], c1[r] = g, p
    if has_ps and (rng.random() < 0.15 or (slots == [dele, dele] and rng.random() < 0.7)):
        k = rng.choice([-1, 1])
        for r in c1:
            c1[r] = max(0, c1[r] + k)
    return slots, extra, c0, c1


def _cases_task(task):
    gname, genome, seed, n = task
    from aldy.cn import solve_cn_model

    rng = random.Random(seed)
    g = genes.load(gname, genome)
    rows, meta = [], {}
    for k in range(n):
        configs = dict(g.cn_configs)
        M = rng.choice([3, 4, 4, 5, 6]) if gname != "cyp2d6" else rng.choice([3, 4, 5])
        slots, extra, c0, c1 = plant_depths(rng, g, configs, M)
        mode = rng.random()
        amp = 0.0 if mode < 0.2 else rng.choice([0.1, 0.25, 0.5])
        region_cov = {}
        for r in g.unique_regions:
            a = max(0.0, c0[r] + round(rng.uniform(-amp, amp), 2))
            b = max(0.0, c1[r] + round(rng.uniform(-amp, amp), 2)) if len(g.regions) > 1 else 0.0
            region_cov[r] = (round(a, 2), round(b, 2))
        gap = rng.choice([0, 0, 0.1, 0.3])
        kw = {}
        if rng.random() < 0.1:
            kw["cn_max"] = rng.choice([2, 3])
        if rng.random() < 0.3:
            # non-default weights of the documented objective (the stage must use the profile's values, not constants)
            kw.update(rng.choice([{"cn_diff": 5.0}, {"cn_diff": 20.0}, {"cn_fit": 0.5}, {"cn_fit": 2.0}, {"cn_parsimony": 0.25},
                                  {"cn_parsimony": 1.0}, {"cn_fusion_left": 0.1}, {"cn_fusion_left": 1.0}, {"cn_fusion_right": 1.0},
                                  {"cn_fusion_right": 0.1}, {"cn_pce_penalty": 1.0}, {"cn_pce_penalty": 4.0}]))
        prof = _profile(gap=gap, **kw)
        fs_raw, fs = None, None
        fus = [n_ for n_, c in configs.items() if c.kind.name in ("LEFT_FUSION", "RIGHT_FUSION")]
        if fus and rng.random() < 0.3:
            fs_raw = {}
            for n_ in fus:
                if rng.random() < 0.85:
                    b_ = rng.choice([4, 8, 10, 12, 20])
                    fs_raw[n_] = (rng.randint(0, b_), b_)
            if rng.random() < 0.1:
                fs_raw[rng.choice(fus)] = (0, 0)
            fs = {n_: ((a / b) if b else 0.0) for n_, (a, b) in fs_raw.items()}
        raised = ""
        try:
            res = solve_cn_model(g, prof, configs, M, region_cov, "any", fusion_support=fs)
        except Exception as ex:
            res, raised = [], f"{type(ex).__name__}: {ex}"
        cid = f"{gname}/{genome}/{seed}/{k}"
        rows.append(project.cn_case(cid, g, prof, configs, M, region_cov, fs, res, raised, fs_raw))
        meta[cid] = {"gene": f"{gname}/{genome}", "M": M, "region_cov": region_cov, "gap": gap, "params": kw,
                     "fusion_support": fs_raw, "planted": {"slots": slots, "extra": extra}, "raised": raised,
                     "result": [(sorted(s.solution.elements()), s.score) for s in res]}
    return rows, meta


def corrupt_case(rng, case):
    if not case["result"]:
        return None
    c = json.loads(json.dumps(case))
    kind = rng.choice(["score", "drop", "cfg"])
    if kind == "score":
        c["result"][0]["score"] += 40 * 10000 * c["nU"]  # +0.4
    elif kind == "drop":
        c["result"] = []  # nothing reported although a feasible explanation exists
    else:
        r = c["result"][0]
        r["cfgs"] = sorted(r["cfgs"] + [r["cfgs"][0] if r["cfgs"] else 1])
    return c


# --------------------------------------------------------------------------- routes
def route_rows(rng, quick):
    """User-supplied structures (verbatim / unknown name rejected) and the default route."""
    from aldy.cn import estimate_cn
    from aldy.common import AldyException

    rows = []
    # the user route is independent of whether copy-number calling is available: genes with and without structural
    # alleles, calling switched off the way genotype() does for exome profiles / VCF input, sample declared male
    names = ["toy", "cyp2d6", "cyp2a6", "gstm1", "cyp2c19", "g6pd"] + ([] if quick else ["tpmt", "ugt1a1", "nat2", "cyp2c9"])
    for gname in names:
        for mode in ("plain", "nocall", "male"):
            g = genes.load(gname)
            if mode == "plain" and not g.do_copy_number and gname not in ("cyp2c19", "g6pd"):
                continue
            if mode == "nocall":
                if not g.do_copy_number:
                    continue  # already off for this gene: "plain" covers it
                g.do_copy_number = False
            if mode == "male" and g.chr not in ("X", "Y") and gname != "toy":
                continue
            cfgs = sorted(g.cn_configs)
            lists = [[c] for c in cfgs] + [[a, b] for a in cfgs[:4] for b in cfgs[:4]] + [["1", "1", "1"], ["1", "nope"], ["zz"]]
            if mode != "plain" and quick:
                lists = lists[:: max(1, len(lists) // 8)] + [["1", "1", "1"], ["1"], ["1", "nope"]]
            for i, lst in enumerate(lists):
                prof = _profile(cn_solution=lst, male=True) if mode == "male" else _profile(cn_solution=lst)
                out, err = None, ""
                try:
                    out = estimate_cn(g, prof, None, "any")
                except AldyException as ex:
                    err = "AldyException"
                except Exception as ex:
                    err = type(ex).__name__
                rows.append({
                    "id": f"user/{gname}/{mode}/{i}", "route": "user", "given": lst, "known": cfgs, "err": err,
                    "n": len(out) if out is not None else 0,
                    "got": sorted(out[0].solution.elements()) if out else [], "score0": bool(out and out[0].score == 0),
                    "male": mode == "male", "sex": g.chr in ("X", "Y"), "defname": "1",
                })
    # default route: genes without structural alleles (do_copy_number False) and exome/VCF-like use
    for gname in genes.shipped_names() if not quick else ["cyp2c19", "g6pd", "tpmt", "nat2", "cyp2c9", "dpyd"][:5]:
        if gname == "dpyd" and quick:
            continue
        g = genes.load(gname)
        for male in (False, True):
            g.do_copy_number = False
            prof = _profile(male=True) if male else _profile()
            out, err = None, ""
            try:
                out = estimate_cn(g, prof, None, "any")
            except Exception as ex:
                err = type(ex).__name__
            rows.append({
                "id": f"default/{gname}/{male}", "route": "default", "given": [], "known": sorted(g.cn_configs), "err": err,
                "n": len(out) if out is not None else 0,
                "got": sorted(out[0].solution.elements()) if out else [], "score0": bool(out and out[0].score == 0),
                "male": male, "sex": g.chr in ("X", "Y"),
                "defname": [k for k, v in g.cn_configs.items() if v.kind.name == "DEFAULT"][0],
            })
    return rows


def run(ctx):
    aldyenv.setup()
    rng = random.Random(3000 + ctx.seed)
    quick = ctx.tier == "quick"
    ctx.rule = (
        "each case = one real solve_cn_model call on region depths planted from two complete configurations + extra "
        "default copies (+- pseudogene copy change) with additive noise up to +-0.5 on the 0.01 grid, M in 3..6, gap in "
        "{0,.1,.3}, optional long-read fusion support, optional small cn_max; CNTrace enumerates every explanation. "
        "distinct = distinct (gene, depths, M, gap, support); non-trivial = a feasible explanation exists. "
        "Routes: every user-supplied list of 1-2 known names + unknown names, default route x male for genes."
    )
    ctx.trusted = ["harness/project.py", "TLC"]
    ctx.assumptions = ["comparisons inside the fixed-point band (~5e-4 of the score) are undecided, never alarms"]
    # encoding layer (see c02): CNEncoding refines CNModel; per-rule witnesses replayed into solve_cn_model
    from . import enc
    enc.run_cn(ctx)
    tasks = []
    plan = [("toy", 10 if quick else 60, 100), ("cyp2a6", 3 if quick else 20, 40), ("gstm1", 2 if quick else 10, 40), ("cyp2d6", 6 if quick else 60, 12 if quick else 30)]
    for gname, ntask, n in plan:
        for j in range(ntask):
            tasks.append((gname, rng.choice(["hg19", "hg38"]), rng.randrange(1 << 30), n))
    rows, meta = [], {}
    for r, m in par.pmap(_cases_task, tasks):
        rows += r
        meta.update(m)
    for cid, m in meta.items():
        ctx.count(1, key=hash(json.dumps([m["gene"], m["M"], m["region_cov"], m["gap"], m["fusion_support"]], sort_keys=True)),
                  nontrivial=bool(m["result"]))
        ctx.traces += 1
    for k in list(meta)[:2] + list(meta)[-1:]:
        ctx.sample({"case": meta[k]})
    canaries = {}
    for i, case in enumerate(rng.sample(rows, min(40, len(rows)))):
        c = corrupt_case(rng, case)
        if c:
            c["id"] = f"canary/{i}"
            canaries[c["id"]] = case["id"]
            rows.append(c)
    rows.sort(key=lambda r: -len(r["cfgs"]) * r["M"] * r["M"])
    nch = 14
    rows = [r for i in range(nch) for r in rows[i::nch]]  # spread the heavy (many-configuration) cases
    rej = ctx.trace_batches("trace/CNTrace", "trace/CNTrace.cfg", rows, label="CNTrace", chunk=(len(rows) + nch - 1) // nch, jobs=nch)
    by_id = {}
    for r in rej:
        by_id.setdefault(r[0], r[1])
    for k, src in canaries.items():
        if src in by_id:
            continue
        ctx.canary(k in by_id and not by_id[k].startswith("UNDECIDED"))
    ctx.parts["ilp_cases"] = {"rows": len(rows), "canaries": len(canaries)}
    for k, clause in by_id.items():
        if k in canaries:
            continue
        if clause.startswith("UNDECIDED"):
            ctx.undecided += 1
            continue
        m = meta[k]
        fp = {"stage": "cn", "clause": clause, "gene": m["gene"].split("/")[0]}
        if clause in ("UnreportedContainsReported", "Optimal", "NoneReportedButAdmissibleExists"):
            # attribution: the SAME model with its depth equations in another order (the dictionary order of the region
            # depths; no aldy logic differs) - if that run satisfies the spec, the backend's result depends on the row order
            # of the model, i.e. it returned a non-optimal point as OPTIMAL in one of them (see C05's known finding)
            fp["same_model_other_row_order_is_accepted"] = _other_order_accepted(ctx, k, m)
            fp["cbc_objective_worse_than_scip_on_same_model"] = _backend_flag(m)
        ctx.violation(clause, fp, m, f"case {k}: M={m['M']} gap={m['gap']} cov={m['region_cov']} reported={m['result']}")
    # ---- routes
    rr = route_rows(rng, quick)
    n0 = len(rr)
    can = dict(rr[0], id="canary/route", got=["1"] if rr[0]["got"] != ["1"] else ["1", "1"])
    rr.append(can)
    rej = ctx.trace_batch("trace/CNRouteTrace", "trace/CNRouteTrace.cfg", rr, label="CNRouteTrace")
    rej_ids = {r[0]: r[1] for r in rej}
    ctx.canary("canary/route" in rej_ids)
    ctx.traces += n0
    for r in rr[:n0]:
        ctx.count(1, key=("route", r["id"]))
    ctx.parts["routes"] = {"rows": n0}
    ctx.sample({"route_case": rr[1]})
    for k, clause in rej_ids.items():
        if k.startswith("canary"):
            continue
        row = [r for r in rr if r["id"] == k][0]
        ctx.violation(clause, {"stage": "cn-route", "clause": clause, "route": row["route"]}, row, f"route case {k}: {row}")


def _backend_flag(m):
    """Re-run the recorded call with every CBC solve exported; True iff SCIP beats an objective CBC called optimal."""
    from aldy.cn import solve_cn_model

    from .. import backend

    try:
        gname, genome = m["gene"].split("/")
        g = genes.load(gname, genome)
        fs_raw = {n: tuple(v) for n, v in (m["fusion_support"] or {}).items()} or None
        fs = {n: ((a / b) if b else 0.0) for n, (a, b) in fs_raw.items()} if fs_raw else None
        rc = {r: tuple(m["region_cov"][r]) for r in m["region_cov"]}
        recs = []
        with backend.watch(recs), aldyenv.quiet_stderr():
            solve_cn_model(g, _profile(gap=m["gap"], **m.get("params", {})), dict(g.cn_configs), m["M"], rc, "any", fusion_support=fs)
        with aldyenv.quiet_stderr():
            return bool(backend.worse_than_scip(recs))
    except Exception:  # noqa: BLE001
        return False


def _other_order_accepted(ctx, cid, m):
    from aldy.cn import solve_cn_model

    gname, genome = m["gene"].split("/")
    g = genes.load(gname, genome)
    fs_raw = {n: tuple(v) for n, v in (m["fusion_support"] or {}).items()} or None
    fs = {n: ((a / b) if b else 0.0) for n, (a, b) in fs_raw.items()} if fs_raw else None
    rows = []
    for tag, keys in (("sorted", sorted(m["region_cov"])), ("reversed", list(m["region_cov"])[::-1])):
        rc = {r: tuple(m["region_cov"][r]) for r in keys}
        prof = _profile(gap=m["gap"], **m.get("params", {}))
        try:
            with aldyenv.quiet_stderr():
                res = solve_cn_model(g, prof, dict(g.cn_configs), m["M"], rc, "any", fusion_support=fs)
        except Exception:
            continue
        rows.append(project.cn_case(f"{cid}~{tag}", g, prof, dict(g.cn_configs), m["M"], rc, fs, res, "", fs_raw))
    if not rows:
        return False
    rej = {r[0] for r in ctx.trace_batch("trace/CNTrace", "trace/CNTrace.cfg", rows, label="CNTrace(attribution)")}
    return any(r["id"] not in rej for r in rows)


def replay(path):
    from ..core import Ctx

    aldyenv.setup()
    with open(path) as f:
        m = json.load(f)["case"]
    if m.get("enc"):
        from . import enc
        return enc.replay(path, "C03")
    if "route" in m:
        print("route cases are replayed by running the check")
        return 0
    from aldy.cn import solve_cn_model

    gname, genome = m["gene"].split("/")
    g = genes.load(gname, genome)
    prof = _profile(gap=m["gap"], **m.get("params", {}))
    fs_raw = {k: tuple(v) for k, v in (m["fusion_support"] or {}).items()} or None
    fs = {n_: ((a / b) if b else 0.0) for n_, (a, b) in fs_raw.items()} if fs_raw else None
    rc = {r: tuple(v) for r, v in m["region_cov"].items()}
    with aldyenv.quiet_stderr():
        res = solve_cn_model(g, prof, dict(g.cn_configs), m["M"], rc, "any", fusion_support=fs)
    case = project.cn_case("replay", g, prof, dict(g.cn_configs), m["M"], rc, fs, res, "", fs_raw)
    ctx = Ctx("C03", "quick", 0)
    rej = ctx.trace_batch("trace/CNTrace", "trace/CNTrace.cfg", [case], label="replay")
    print("result now:", [(sorted(s.solution.elements()), s.score) for s in res])
    if rej and not rej[0][1].startswith("UNDECIDED"):
        print(f"VIOLATION property=C03 replay={path}")
        print("  rejected:", rej)
        return 1
    print("replay: accepted")
    return 0
