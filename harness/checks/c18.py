"""C18 — model parameters take the values the user gave, through every route.

Spec: spec/Params.tla (Parse, Sem/Expected = semantic layer; SetCLI, SetAPI, LoadOptions,
      WriteProfile, UpdateStep, EndWrite, LoadProfile, EndRun = operational layer),
      spec/ParamsCases.tla (the bounded universe: 28 documented parameters + 3 unknown names x every
      spelling of the type x routes cli / api / options / write-then-load, plus short histories).
  MC   : mc/MC_Params — every case carried out by the actions, every update order, both branches
         where the property is silent; 7 invariants (+ termination in thorough; free interleavings).
  (A)  : gen/ParamsGen emits every case with the demanded outcome; EVERY case is replayed into the
         real code through the implementation paths of its route (Profile(), Profile.update,
         Profile.load, get_sam_profile_data+yaml.dump, genotype() on VCF / --cn / dump / BAM profile /
         YAML profile, aldy.__main__.main genotype and profile commands) and compared.
  (B)  : the observed (value, Python type) of every documented attribute of the Profile the run
         uses is validated by trace/ParamsTrace (same operators), with canaries; plus cases the
         harness builds from the SHIPPED profiles (their options sections, `exome`).

Observation point: the Profile handed to aldy.sam.Sample (wrapped in the harness process, then the
run is aborted); for dumps the Profile handed to aldy.cn.estimate_cn (after genotype() applied the
parameters to the unpickled Profile).  Nothing in /repo is edited.
"""
import contextlib
import gzip
import io
import json
import math
import os
import pickle
import random
import sys
import tarfile
import tempfile
from collections import Counter
from fractions import Fraction

from .. import aldyenv, tlc
from ..core import MachineryError, _fp_match

NON_PARAM_ATTRS = {"name", "cn_region", "data", "cn_solution", "neutral_value"}
CHEAP = {"Profile()", "Profile.update", "Profile.load"}
NWORKERS = max(1, min(12, (os.cpu_count() or 2) - 2))


class Abort(BaseException):
    """Raised by the wrappers once the Profile of the run has been captured."""


class W:
    """The world the cases are replayed in (built once per process)."""

    ready = False
    cap = None
    counter = 0
    maxlevel = 0


# --------------------------------------------------------------------------- world
def build_world():
    if W.ready:
        return
    aldyenv.setup()
    import pysam
    import yaml
    import aldy.cn
    import aldy.sam
    from aldy.common import GRange
    from aldy.gene import Gene
    from aldy.profile import Profile

    W.dir = tempfile.mkdtemp(prefix="c18_", dir=tlc.scratch())
    W.toy = os.path.join(aldyenv.ALDY_SRC, "aldy/tests/resources/toy.yml")
    W.gene = Gene(W.toy, genome="hg19")
    W.cnr = GRange("20", 100001050, 100001250)
    W.cnr_text = "20:100001050-100001250"
    wr = W.gene.get_wide_region()
    # tiny indexed BAM over the toy gene and a neutral region on the same contig
    W.bam = os.path.join(W.dir, "s.bam")
    hdr = {"HD": {"VN": "1.0", "SO": "coordinate"}, "SQ": [{"SN": "20", "LN": 110000000}]}
    with pysam.AlignmentFile(W.bam, "wb", header=hdr) as f:
        n = 0
        for start in list(range(wr.start - 60, wr.end + 10, 5)) + list(range(100001000, 100001300, 5)):
            a = pysam.AlignedSegment()
            a.query_name = f"r{n}"
            n += 1
            a.query_sequence = "A" * 50
            a.flag = 0
            a.reference_id = 0
            a.reference_start = start
            a.mapping_quality = 60
            a.cigar = ((0, 50),)
            a.query_qualities = pysam.qualitystring_to_array("I" * 50)
            f.write(a)
    pysam.index(W.bam)
    W.vcf = os.path.join(W.dir, "s.vcf")
    with open(W.vcf, "w") as f:
        f.write(
            "##fileformat=VCFv4.2\n##contig=<ID=20,length=110000000>\n"
            '##FORMAT=<ID=GT,Number=1,Type=String,Description="GT">\n'
            "#CHROM\tPOS\tID\tREF\tALT\tQUAL\tFILTER\tINFO\tFORMAT\tS1\n"
            "20\t100000106\t.\tT\tA\t.\t.\t.\tGT\t0/1\n"
        )
    W.regions = {(W.gene.name, r, gi): rng for gi, gr in enumerate(W.gene.regions) for r, rng in gr.items()}
    W.real_gspd = Profile.get_sam_profile_data
    W.real_Sample = aldy.sam.Sample
    W.real_estimate_cn = aldy.cn.estimate_cn
    W.noopt = W.real_gspd(W.bam, regions=dict(W.regions), cn_region=W.cnr, genome="hg19")
    if "options" in W.noopt or W.gene.name not in W.noopt:
        raise MachineryError("profile data of the tiny BAM is not as expected")
    W.noopt_yml = os.path.join(W.dir, "noopt.yml")
    with open(W.noopt_yml, "w") as f:
        yaml.safe_dump(W.noopt, f)
    # a dump (tar.gz) of the toy gene whose pickled Profile has default parameters
    dd = os.path.join(W.dir, "dd")
    os.makedirs(dd)
    norm = {p: Counter({(60, 40): 40}) for p in range(wr.start - 500, wr.end + 1)}
    cn = {p: 40 for p in range(W.cnr.start, W.cnr.end)}
    prof = Profile("dumped", W.cnr, W.noopt, neutral_value=W.noopt["neutral"]["value"])
    with open(f"{dd}/x.genome", "w") as fd:
        print("hg19", file=fd)
    with gzip.open(f"{dd}/x.{W.gene.name}.dump", "wb") as fd:
        pickle.dump(("x", prof, cn, norm, {}, [], {}, {}), fd)
    W.dump = os.path.join(W.dir, "x.tar.gz")
    with tarfile.open(W.dump, "w:gz") as tar:
        tar.add(f"{dd}/x.genome", arcname="x.genome")
        tar.add(f"{dd}/x.{W.gene.name}.dump", arcname=f"x.{W.gene.name}.dump")
    if aldy.sam.detect_genome(W.dump) != ("dump", "hg19") or aldy.sam.detect_genome(W.vcf)[0] != "vcf":
        raise MachineryError("generated dump / VCF not recognised by detect_genome")

    # ---- wrappers (harness process only) ----
    def sample_wrapper(gene, profile, path, *a, **k):
        if profile is not None:
            W.cap = profile
            raise Abort()
        return W.real_Sample(gene, profile, path, *a, **k)  # dump: the real loader supplies the Profile

    def estimate_cn_wrapper(gene, profile, *a, **k):
        W.cap = profile
        raise Abort()

    def gspd_wrapper(sam_path, *a, **k):
        # `aldy profile` scans all 38 shipped genes; restrict it to the toy gene (contents are not C18's matter)
        if len(a) < 2 and not k.get("regions"):
            k["regions"] = dict(W.regions)
        return W.real_gspd(sam_path, *a, **k)

    import logbook

    def note_level(record):  # every log record aldy emits passes here, whatever handler formats it
        W.maxlevel = max(W.maxlevel, record.level)

    logbook.Processor(note_level).push_application()
    aldy.sam.Sample = sample_wrapper
    aldy.cn.estimate_cn = estimate_cn_wrapper
    Profile.get_sam_profile_data = staticmethod(gspd_wrapper)
    W.baseline = {n: project(v) for n, v in Profile("x").__dict__.items() if n not in NON_PARAM_ATTRS}
    W.all_attrs = set(Profile("x").__dict__)
    W.ready = True


# --------------------------------------------------------------------------- projection
def project(v):
    """Python value -> <<type, n, d, b, chars>> (Params!Val)."""
    if isinstance(v, bool):
        return ["bool", 0, 1, v, []]
    if isinstance(v, int):
        if abs(v) <= 10**6:
            return ["int", int(v), 1, False, []]
    elif isinstance(v, float):
        if math.isfinite(v):
            f = Fraction(repr(v))
            if abs(f.numerator) <= 10**6 and f.denominator <= 10**4 and float(f) == v:
                return ["float", f.numerator, f.denominator, False, []]
    elif isinstance(v, str):
        return ["str", 0, 1, False, list(v)]
    return ["other", 0, 1, False, list(f"{type(v).__name__}:{v!r}"[:60])]


def observe(p):
    vals = {}
    for n, base in W.baseline.items():
        if n not in p.__dict__:
            vals[n] = ["missing", 0, 1, False, []]
            continue
        pv = project(p.__dict__[n])
        if pv != base:  # attributes equal to the (separately validated) baseline are omitted
            vals[n] = pv
    return {"st": "ok", "vals": vals, "extra": sorted(set(p.__dict__) - W.all_attrs), "msg": ""}


def failed(st, msg, stage="run"):
    return {"st": st, "vals": {}, "extra": [], "msg": str(msg)[:200], "stage": stage}


# --------------------------------------------------------------------------- realisation of a case
def py(sp):
    k = sp["k"]
    if k == "str":
        return "".join(sp["cs"])
    if k == "int":
        return int(sp["n"])
    if k == "float":
        return sp["n"] / sp["d"]
    if k == "bool":
        return bool(sp["b"])
    raise MachineryError(f"spelling kind {k}")


def kwargs_of(args):
    return {a["name"]: py(a["sp"]) for a in args}


def tokens_of(args):
    return ["".join(a["tok"]) for a in args]


def param_argv(tokens, grouped):
    if not tokens:
        return []
    if grouped:
        return ["--param"] + tokens
    out = []
    for t in tokens:
        out += ["--param", t]
    return out


def fresh(name):
    W.counter += 1
    return os.path.join(W.dir, f"{os.getpid()}_{W.counter}_{name}")


# --------------------------------------------------------------------------- drivers
def call_api(fn):
    from aldy.common import AldyException
    from aldy.profile import Profile

    W.cap = None
    r = None
    try:
        with aldyenv.quiet_stderr():
            r = fn()
    except Abort:
        pass
    except AldyException as ex:
        return failed("reject", ex)
    except Exception as ex:  # noqa
        return failed("crash", repr(ex))
    p = W.cap if W.cap is not None else (r if isinstance(r, Profile) else None)
    if p is None:
        return failed("silent", "no Profile and no error")
    return observe(p)


def run_main(argv):
    """aldy.__main__.main(argv) -> (exit code or None, stdout, stderr)."""
    import logbook
    import aldy.__main__ as M

    W.cap = None
    W.maxlevel = 0
    out, err = io.StringIO(), io.StringIO()
    old_err = sys.stderr
    sys.stderr = err
    code = None
    try:
        with contextlib.redirect_stdout(out):
            M.main(argv)
    except Abort:
        pass
    except SystemExit as ex:
        code = ex.code
    finally:
        sys.stderr = old_err
        # main() pushes a stderr handler on every call and never pops it
        while True:
            top = next(iter(logbook.Handler.stack_manager.iter_context_objects()), None)
            if isinstance(top, logbook.StderrHandler):
                top.pop_application()
            else:
                break
    return code, out.getvalue(), err.getvalue()


def logged_error():
    import logbook

    return W.maxlevel >= logbook.ERROR


def call_main_genotype(argv):
    code, out, err = run_main(argv)
    if W.cap is not None:
        return observe(W.cap)
    if code in (None, 0) and logged_error():
        return failed("reject", err.strip().splitlines()[-1] if err.strip() else "")
    if code not in (None, 0):
        return failed("crash", err.strip()[-200:])
    return failed("silent", "main returned without a Profile and without an error")


def write_stage(c):
    """The profile command.  -> (obs or None, path of the written YAML)."""
    import yaml
    from aldy.common import AldyException
    from aldy.profile import Profile

    if c["wmode"] == "api":
        try:
            d = Profile.get_sam_profile_data(
                W.bam, regions=dict(W.regions), cn_region=W.cnr, genome="hg19", params=kwargs_of(c["w"])
            )
            text = yaml.dump(d, default_flow_style=None)  # what `aldy profile` prints
        except AldyException as ex:
            return failed("reject", ex, "write"), None
        except Exception as ex:  # noqa
            return failed("crash", repr(ex), "write"), None
    else:
        argv = ["profile", W.bam, "-n", W.cnr_text, "--genome", "hg19"] + param_argv(tokens_of(c["w"]), len(c["w"]) % 2 == 0)
        code, text, err = run_main(argv)
        ok = False
        if code in (None, 0):
            try:
                d = yaml.safe_load(text)
                ok = isinstance(d, dict) and "neutral" in d
            except Exception:  # noqa
                ok = False
        if not ok:
            if code in (None, 0) and logged_error():
                return failed("reject", err.strip().splitlines()[-1] if err.strip() else "", "write"), None
            if code not in (None, 0):
                return failed("crash", err.strip()[-200:], "write"), None
            return failed("silent", "profile command printed neither a profile nor an error", "write"), None
    path = fresh("written.yml")
    with open(path, "w") as f:
        f.write(text)
    return None, path


def options_file(c):
    import yaml

    opts = kwargs_of(c["opts"])
    data = dict(W.noopt)
    data["options"] = opts
    text = yaml.safe_dump(data)
    back = yaml.safe_load(text)["options"]
    if back != opts or any(type(back[k]) is not type(opts[k]) for k in opts):
        raise MachineryError(f"YAML does not carry the options section faithfully: {opts}")
    path = fresh("opts.yml")
    with open(path, "w") as f:
        f.write(text)
    return path


def impls_of(c):
    route = c["route"]
    if c["wmode"] != "none" or c["opts"]:
        if route == "cli":
            return ["main/yaml"]
        if route == "api":
            return ["Profile.load", "genotype/yaml"]
        return ["Profile.load", "genotype/yaml", "main/yaml"]
    if route == "cli":
        return ["main/vcf", "main/cn", "main/dump", "main/bam-profile", "main/yaml"]
    lst = ["Profile()", "Profile.update", "Profile.load", "genotype/vcf", "genotype/cn", "genotype/dump",
           "genotype/bam-profile", "genotype/yaml"]
    if route == "none":
        lst.append("main/vcf")
    return lst


def execute(c, impl, grouped=False):
    """Carry out case c on the real code through implementation path impl; return the observation."""
    from aldy.genotype import genotype
    from aldy.profile import Profile

    build_world()
    yml = W.noopt_yml
    made = []
    try:
        if c["wmode"] != "none":
            obs, yml = write_stage(c)
            if obs is not None:
                return obs
            made.append(yml)
        elif c["opts"]:
            yml = options_file(c)
            made.append(yml)
        if impl.startswith("main/"):
            toks = tokens_of(c["ex"]) if c["route"] == "cli" else []
            if c["route"] == "api":
                raise MachineryError("api arguments cannot go through main()")
            base = {
                "main/vcf": ["genotype", W.vcf, "--gene", W.toy, "--genome", "hg19"],
                "main/cn": ["genotype", W.bam, "--gene", W.toy, "--genome", "hg19", "--cn", "1,1"],
                "main/dump": ["genotype", W.dump, "--gene", W.toy],
                "main/bam-profile": ["genotype", W.bam, "--gene", W.toy, "--genome", "hg19", "--profile", W.bam, "-n", W.cnr_text],
                "main/yaml": ["genotype", W.bam, "--gene", W.toy, "--genome", "hg19", "--profile", yml],
            }[impl]
            return call_main_genotype(base + param_argv(toks, grouped))
        kw = kwargs_of(c["ex"]) if c["route"] == "api" else {}
        if impl == "Profile()":
            return call_api(lambda: Profile("x", **kw))
        if impl == "Profile.update":
            def upd():
                p = Profile("x")
                p.update(kw)
                return p
            return call_api(upd)
        if impl == "Profile.load":
            return call_api(lambda: Profile.load(W.gene, yml, **kw))
        if impl == "genotype/vcf":
            return call_api(lambda: genotype(W.toy, W.vcf, None, None, genome="hg19", **kw))
        if impl == "genotype/cn":
            return call_api(lambda: genotype(W.toy, W.bam, None, None, cn_solution=["1", "1"], genome="hg19", **kw))
        if impl == "genotype/dump":
            return call_api(lambda: genotype(W.toy, W.dump, None, None, **kw))
        if impl == "genotype/bam-profile":
            return call_api(lambda: genotype(W.toy, W.bam, W.bam, None, cn_region=W.cnr, genome="hg19", **kw))
        if impl == "genotype/yaml":
            return call_api(lambda: genotype(W.toy, W.bam, yml, None, genome="hg19", **kw))
        raise MachineryError(f"unknown implementation path {impl}")
    finally:
        for p in made:
            try:
                os.unlink(p)
            except OSError:
                pass


def _work(jobs):
    out = []
    for eid, c, impl, extra in jobs:
        if isinstance(extra, tuple):  # a shipped profile: (alias, genome)
            out.append((eid, execute_shipped(c, extra[0], extra[1], impl)))
        else:
            out.append((eid, execute(c, impl, bool(extra))))
    return out


def make_pool():
    """Worker processes for the replay (forked after the world is built, before any thread is started)."""
    build_world()
    if NWORKERS < 2:
        return None
    import multiprocessing as mp

    return mp.get_context("fork").Pool(NWORKERS)


def execute_all(jobs, pool=None):
    """jobs: [(eid, case, impl, grouped | (alias, genome))] -> {eid: obs}."""
    build_world()
    if pool is None or len(jobs) < 200:
        return dict(_work(jobs))
    n = NWORKERS * 6
    chunks = [jobs[i::n] for i in range(n)]
    res = pool.map(_work, [ch for ch in chunks if ch], chunksize=1)
    out = {}
    for r in res:
        out.update(r)
    if len(out) != len(jobs):
        raise MachineryError("replay workers lost cases")
    return out


# --------------------------------------------------------------------------- (A) comparison in Python
def same_value(e, v):
    if e["t"] in ("int", "float") and v[0] in ("int", "float"):
        return e["n"] * v[2] == v[1] * e["d"]
    if e["t"] == "bool" and v[0] == "bool":
        return e["b"] == v[3]
    if e["t"] == "str" and v[0] == "str":
        return list(e["s"]) == list(v[4])
    return False


def agrees(row, obs):
    """Does the observation match what gen/ParamsGen demanded for this case?"""
    st = row["st"]
    rej = obs["st"] in ("reject", "crash")
    if obs["st"] == "silent":
        return False
    if st == "reject":
        return rej
    if rej:
        return st == "unspec"
    if obs["extra"]:
        return False
    given = {g["name"]: g for g in row["given"]}
    for n, base in W.baseline.items():
        v = obs["vals"].get(n, base)
        if n in given:
            e = given[n]["v"]
            if e["t"] == "unspec":
                if v[0] != given[n]["doc"]:
                    return False
            elif not (same_value(e, v) and v[0] == e["t"]):
                return False
        elif n in obs["vals"]:
            return False
    return True


# --------------------------------------------------------------------------- fingerprints
def spelling_text(sp):
    k = sp.get("k")
    if k == "str":
        return "str:" + "".join(sp["cs"])
    if k == "int":
        return f"int:{sp['n']}"
    if k == "float":
        return f"float:{sp['n']}/{sp['d']}"
    if k == "bool":
        return f"bool:{sp['b']}"
    return ""


def sclass(ptype, sp):
    k = sp.get("k")
    if k not in ("str", "int", "float", "bool"):
        return ""
    if ptype != "bool":
        return k
    if k == "str":
        t = "".join(sp["cs"])
        if t.lower() == "true":
            return "str:true-any-case"
        if t == "False":
            return "str:False"
        if t.lower() == "false":
            return "str:false-other-case"
        if t in ("0", "1"):
            return "str:" + t
        return "str:other-text"
    if k == "bool":
        return "bool:true" if sp["b"] else "bool:false"
    if k == "int":
        return f"int:{sp['n']}" if sp["n"] in (0, 1) else "int:other"
    return "float"


def shape_of(c):
    parts = []
    if c["wmode"] != "none":
        parts.append("write:" + c["wmode"])
    if c["opts"]:
        parts.append("options")
    if c["route"] != "none":
        parts.append("explicit:" + c["route"])
    return "+".join(parts) or "defaults"


def fingerprint(rej, c, impl, types):
    _, clause, name, src, sp = rej[:5]
    ptype = types.get(name, "")
    return {
        "clause": clause, "shape": shape_of(c), "impl": impl, "param": name, "ptype": ptype, "src": src,
        "sclass": sclass(ptype, sp) if isinstance(sp, dict) else "", "spelling": spelling_text(sp) if isinstance(sp, dict) else "",
    }


# --------------------------------------------------------------------------- shipped profiles (B only)
def native_spelling(v):
    if isinstance(v, bool):
        return {"k": "bool", "n": 0, "d": 1, "b": v, "cs": []}
    if isinstance(v, int):
        return {"k": "int", "n": v, "d": 1, "b": False, "cs": []}
    if isinstance(v, float):
        f = Fraction(repr(v))
        return {"k": "float", "n": f.numerator, "d": f.denominator, "b": False, "cs": []}
    if isinstance(v, str):
        return {"k": "str", "n": 0, "d": 1, "b": False, "cs": list(v)}
    raise MachineryError(f"shipped option of type {type(v)}")


def aarg(name, v):
    return {"tok": [], "name": name, "sp": native_spelling(v)}


def carg(text):
    return {"tok": list(text), "name": "", "sp": {"k": "none", "n": 0, "d": 1, "b": False, "cs": []}}


SHIPPED_EXPLICIT = {
    "bool": [True, False, "false", "TRUE", "0", 1],
    "int": [5, "7", 0],
    "float": [0.25, "3.5", 2],
    "str": ["map-ont"],
}


def shipped_jobs(types, quick):
    """Cases built from the options sections of the profiles shipped with aldy, run through the real
    Profile.load / genotype() / main() with the profile NAME (and its aliases).  -> [(case, alias, genome, impl)]"""
    import yaml
    from aldy.common import script_path

    pdir = script_path("aldy.resources.profiles/")
    aliases = {"illumina": ["illumina", "wgs"], "pgx1": ["pgx1", "pgrnseq-v1"], "pgx2": ["pgx2", "pgrnseq-v2"], "pgx3": ["pgx3", "pgrnseq-v3"]}
    jobs = []
    for fn in sorted(os.listdir(pdir)):
        if not fn.endswith(".yml"):
            continue
        name = fn[:-4]
        with open(os.path.join(pdir, fn)) as f:
            prof = yaml.safe_load(f)
        genome = "hg19" if "hg19" in prof["neutral"] else "hg38"
        if shipped_gene(genome).name not in prof:
            continue
        opts = [aarg(k, v) for k, v in sorted(prof.get("options", {}).items())]
        for alias in aliases.get(name, [name]) + (["exome"] if name == "illumina" else []):
            o = list(opts)
            if alias == "exome":  # documented: exome data implies min_coverage 5 (genotype.py)
                o = [a for a in o if a["name"] != "min_coverage"] + [aarg("min_coverage", 5.0)]
            explicit = [None]
            for a in o:
                for v in SHIPPED_EXPLICIT[types[a["name"]]]:
                    explicit.append((a["name"], v))
            if quick:
                explicit = explicit[:6] if alias in ("pgx1", "exome", "pacbio-hifi-targeted") else explicit[:1]
            for x in explicit:
                if x is None:
                    c = {"wmode": "none", "w": [], "opts": o, "route": "none", "ex": []}
                    impls = ["Profile.load", "genotype", "main"]
                    if quick:
                        impls = ["genotype"]
                    for impl in impls:
                        jobs.append((c, alias, genome, impl))
                    continue
                c = {"wmode": "none", "w": [], "opts": o, "route": "api", "ex": [aarg(x[0], x[1])]}
                for impl in ["Profile.load", "genotype"]:
                    if not (quick and impl == "Profile.load" and alias != "pgx1"):
                        jobs.append((c, alias, genome, impl))
                if isinstance(x[1], str):
                    c = {"wmode": "none", "w": [], "opts": o, "route": "cli", "ex": [carg(f"{x[0].replace('_', '-')}={x[1]}")]}
                    jobs.append((c, alias, genome, "main"))
    return [j for j in jobs if not (j[3] == "Profile.load" and j[1] in GENOTYPE_ONLY_ALIASES)]


_genes = {}


def shipped_gene(genome):
    from aldy.common import script_path
    from aldy.gene import Gene

    if genome not in _genes:
        _genes[genome] = Gene(script_path("aldy.resources.genes/ifnl3.yml"), genome=genome)
    return _genes[genome]


def execute_shipped(c, alias, genome, impl):
    from aldy.common import script_path
    from aldy.genotype import genotype
    from aldy.profile import Profile

    build_world()
    gene = shipped_gene(genome)
    gpath = script_path(f"aldy.resources.genes/{gene.name.lower()}.yml")
    if impl == "Profile.load":
        return call_api(lambda: Profile.load(gene, alias, **kwargs_of(c["ex"])))
    if impl == "genotype":
        return call_api(lambda: genotype(gpath, W.bam, alias, None, genome=genome, **kwargs_of(c["ex"])))
    if impl == "main":
        return call_main_genotype(
            ["genotype", W.bam, "--gene", gpath, "--genome", genome, "--profile", alias] + param_argv(tokens_of(c["ex"]), False)
        )
    raise MachineryError(impl)


def execute_full_profile(c):
    """`aldy profile <bam> --param ...` with NOTHING wrapped (all shipped genes are scanned: ~10 s), the
    printed YAML loaded by Profile.load for a shipped gene.  Thorough tier only."""
    import yaml
    from aldy.profile import Profile

    build_world()
    wrapped = Profile.__dict__["get_sam_profile_data"]
    Profile.get_sam_profile_data = staticmethod(W.real_gspd)
    try:
        code, text, err = run_main(["profile", W.bam, "--genome", "hg19"] + param_argv(tokens_of(c["w"]), True))
    finally:
        Profile.get_sam_profile_data = wrapped
    try:
        d = yaml.safe_load(text) if code in (None, 0) else None
    except Exception:  # noqa
        d = None
    if not (isinstance(d, dict) and "neutral" in d):
        if logged_error() and code in (None, 0):
            return failed("reject", err.strip().splitlines()[-1] if err.strip() else "", "write")
        return failed("crash" if code not in (None, 0) else "silent", err.strip()[-200:], "write")
    if len(d) < 30:
        raise MachineryError("the unwrapped profile command did not scan the shipped genes")
    path = fresh("full.yml")
    with open(path, "w") as f:
        f.write(text)
    try:
        return call_api(lambda: Profile.load(shipped_gene("hg19"), path, **kwargs_of(c["ex"])))
    finally:
        os.unlink(path)


GENOTYPE_ONLY_ALIASES = ("exome", "wgs", "pgrnseq-v1", "pgrnseq-v2", "pgrnseq-v3")  # resolved by genotype(), not by Profile.load


# --------------------------------------------------------------------------- main
def cross_check_header(hdr):
    """The specification's parameter table against the real class: a new / renamed / retyped-by-default
    parameter must be noticed (machinery failure: update Params.tla), not silently skipped."""
    from aldy.profile import Profile

    p = Profile("x")
    real = {n for n in p.__dict__ if n not in NON_PARAM_ATTRS}
    spec = set(hdr["types"])
    if real != spec:
        raise MachineryError(
            f"Params.tla is stale: attributes of Profile not in ParamType: {sorted(real - spec)}; in ParamType but not in Profile: {sorted(spec - real)}"
        )
    for n in hdr["unknown"]:
        if n in p.__dict__:
            raise MachineryError(f"'unknown' name {n} is an attribute of Profile")
    for n, d in hdr["defaults"].items():
        if not same_value(d, W.baseline[n]):
            raise MachineryError(f"Params.tla is stale: default of {n} is {p.__dict__[n]!r}, specification says {d}")


def mentioned(c):
    """Names a case mentions (for canary construction only)."""
    out = set()
    for a in c["w"] + c["opts"] + c["ex"]:
        out.add(a["name"] if a["sp"]["k"] != "none" else "".join(a["tok"]).split("=", 1)[0].replace("-", "_"))
    return out


def event(eid, c, obs):
    return {"id": eid, "c": c, "obs": {"st": obs["st"], "vals": obs["vals"], "extra": obs["extra"]}}


def make_canaries(rng, accepted, types):
    """Corrupted copies of ACCEPTED events; each must be rejected."""
    out = []
    oks = [e for e in accepted if e["obs"]["st"] == "ok" and e["obs"]["vals"]]
    rejs = [e for e in accepted if e["obs"]["st"] == "reject"]
    plain = [e for e in accepted if e["obs"]["st"] == "ok"]
    rng.shuffle(oks), rng.shuffle(rejs), rng.shuffle(plain)
    for e in oks[:12]:  # value of a set parameter changed
        n = sorted(e["obs"]["vals"])[0]
        v = list(e["obs"]["vals"][n])
        if v[0] == "bool":
            v[3] = not v[3]
        elif v[0] in ("int", "float"):
            v[1] += v[2]
        else:
            v[4] = list(v[4]) + ["x"]
        out.append((e, n, v, "value"))
    for e in oks[12:24]:  # right value, wrong Python type
        n = sorted(e["obs"]["vals"])[0]
        v = list(e["obs"]["vals"][n])
        if v[0] == "int":
            v[0] = "float"
        elif v[0] == "float":
            if v[2] != 1:
                continue
            v[0] = "int"
        elif v[0] == "bool":
            v = ["int", 1 if v[3] else 0, 1, False, []]
        else:
            continue
        out.append((e, n, v, "type"))
    res = []
    k = 0
    for e, n, v, kind in out:
        k += 1
        ce = json.loads(json.dumps(e))
        ce["id"] = f"canary{k}:{kind}"
        ce["obs"]["vals"][n] = v
        res.append(ce)
    for e in plain[:8]:  # an attribute nobody set has changed
        k += 1
        ce = json.loads(json.dumps(e))
        ce["id"] = f"canary{k}:untouched"
        free = [n for n in sorted(types) if n not in ce["obs"]["vals"] and types[n] == "int" and n not in mentioned(ce["c"])]
        if not free:
            continue
        ce["obs"]["vals"][free[0]] = ["int", 77777, 1, False, []]
        res.append(ce)
    for e in rejs[:8]:  # a malformed value accepted after all
        k += 1
        ce = json.loads(json.dumps(e))
        ce["id"] = f"canary{k}:accepted"
        ce["obs"] = {"st": "ok", "vals": {}, "extra": []}
        res.append(ce)
    for e in plain[:6]:  # a well-formed value refused
        if not (e["c"]["ex"] or e["c"]["opts"] or e["c"]["w"]):
            continue
        k += 1
        ce = json.loads(json.dumps(e))
        ce["id"] = f"canary{k}:refused"
        ce["obs"] = {"st": "reject", "vals": {}, "extra": []}
        res.append(ce)
    for e in plain[:3]:  # an unknown name became an attribute
        k += 1
        ce = json.loads(json.dumps(e))
        ce["id"] = f"canary{k}:extra"
        ce["obs"]["extra"] = ["bogus_name"]
        res.append(ce)
    return res


def validate(ctx, events, label):
    """ParamsTrace over the events, in chunks.  -> {id: [id, clause, name, src, spelling]}"""
    rej = {}
    for i in range(0, len(events), 12000):
        chunk = events[i:i + 12000]
        part = {}
        for r in ctx.trace_batch("trace/ParamsTrace", "trace/ParamsTrace.cfg", chunk, label=f"{label}{i // 12000}"):
            d = part.setdefault(r[0], {})
            if r[1] == "sp":
                d["src"], d["sp"] = r[2], {"k": r[3], "n": r[4], "d": r[5], "b": r[6], "cs": list(r[7])}
            else:
                d["cl"], d["name"] = r[1], r[2]
        for l, d in part.items():
            if set(d) != {"cl", "name", "src", "sp"}:
                raise MachineryError(f"incomplete rejection record from ParamsTrace: {l} {d}")
            eid = chunk[l - 1]["id"]
            rej[eid] = [eid, d["cl"], d["name"], d["src"], d["sp"]]
    return rej


def run(ctx):
    aldyenv.setup()
    quick = ctx.tier == "quick"
    rng = random.Random(1800 + ctx.seed)
    ctx.rule = (
        "Enumeration by TLC (gen/ParamsGen over ParamsCases!AllCases = the plans model-checked by mc/MC_Params): every one of the 28 documented "
        "parameters and 3 unknown names x every spelling of its type (text in several letter cases / native bool, int, float / malformed / left open) "
        "x route (--param token with '-' and '_' names, keyword, options section, profile command then load), plus histories on one representative "
        "parameter per type (options then explicit override, write then load with override, two parameters together). Every case is replayed into the "
        "real code through the implementation paths of its route (quick: every case through all its direct paths Profile()/update/load/get_sam_profile_data "
        "and one rotating genotype()/main() path - for histories that have a direct path only every 4th; thorough: every path of every case, plus the "
        "unwrapped `aldy profile` command). Cases built from the options sections of the shipped profiles (and `exome`) are validated by the trace spec only. "
        "distinct = (case, implementation path); non-trivial = the case sets at least one parameter and the specification decides its outcome (not 'unspec')."
    )
    ctx.trusted = [
        "TLC", "harness/checks/c18.py: realisation of a case as argv/kwargs/YAML, projection of a Python value to (type, fraction of repr) and "
        "omission of attributes equal to the baseline Profile('x') (the baseline itself is validated against Params!Default)",
        "wrappers of aldy.sam.Sample / aldy.cn.estimate_cn (capture the Profile, abort) and of Profile.get_sam_profile_data (restrict `aldy profile` to the toy gene)",
        "PyYAML round trip of native scalars (asserted per options file)",
    ]
    ctx.assumptions = [
        "cn_solution (list, own --cn flag) and neutral_value (profile data, 'neutral: value:') are not model parameters in the sense of C18; "
        "passing neutral_value next to a profile file raises TypeError (duplicate keyword) — reported, not judged",
        "spellings the property text does not decide are 'unspec' (never a violation except for the documented TYPE of an accepted value): a fraction or "
        "decimal text for an int parameter, a bool for a number, yes/no/on/off or a float for a bool, a non-string for a str parameter, a malformed option that is overridden explicitly",
        "'rejected with an error' = AldyException from the interface / an ERROR line (or non-zero exit) and no Profile from the command line; another exception type also counts as an error",
        "duplicate names within one stage, None values, names that collide with keywords of genotype() (solver, genome, cn_solution, ...) are outside the universe",
        "float values are short decimals, so repr(x) names the double exactly",
    ]
    # ---- (A) emission
    out = os.path.join(tlc.scratch(), "c18_cases.ndjson")
    r = ctx.mc("gen/ParamsGen", "gen/ParamsGen.cfg", workers=1, env={"OUT_FILE": out}, label="ParamsGen")
    rows = tlc.read_ndjson(out)
    hdr, rows = rows[0], rows[1:]
    got = [p for p in r.prints if p[1] == "CASES"]
    if not got or got[0][2] != len(rows) or hdr["ncases"] != len(rows):
        raise MachineryError("ParamsGen case emission mismatch")
    # ---- MC (in the background while the cases are replayed)
    import threading

    mc_err = []
    mc_cov = {}

    def mc():
        try:
            if quick:
                ctx.mc("mc/MC_Params", "mc/MC_Params_quick.cfg", workers=2, deadlock=True, label="MC_Params(plans, deadlock-free)")
            else:
                r_ = ctx.mc("mc/MC_Params", "mc/MC_Params.cfg", workers=4, label="MC_Params(plans, liveness)", coverage=True)
                mc_cov.update({k: list(v) for k, v in r_.coverage.items() if k.startswith("MC_Params!P")})
                ctx.mc("mc/MC_Params", "mc/MC_Params_free.cfg", workers=4, label="MC_Params(free interleavings)")
        except BaseException as ex:  # noqa
            mc_err.append(ex)

    build_world()
    pool = make_pool()
    th = threading.Thread(target=mc)
    th.start()
    try:
        cross_check_header(hdr)
        types = hdr["types"]
        # ---- replay
        jobs = []
        meta = {}
        for row in rows:
            c, cid = row["c"], row["id"]
            lst = impls_of(c)
            cheap = [i for i in lst if i in CHEAP]
            exp = [i for i in lst if i not in CHEAP]
            if quick:
                # every case is executed: all direct paths, plus one rotating genotype()/main() path (histories that
                # also have a direct path: for every 4th; command-line histories have main() as their only path:
                # always).  VERIF_SEED rotates the choices.
                single = len(c["w"]) + len(c["opts"]) + len(c["ex"]) <= 1
                pick = exp[(cid + ctx.seed) % len(exp)]
                if not (c["w"] or c["opts"] or c["ex"]):
                    pass  # no parameter at all: every path, and each must build a Profile (sanity of the harness world)
                elif single:
                    exp = [pick]
                elif cheap:
                    exp = [pick] if (cid + ctx.seed) % 4 == 0 else []
                else:
                    exp = [pick]
            for impl in cheap + exp:
                variants = [False]
                if impl.startswith("main/") and c["route"] == "cli" and len(c["ex"]) > 1:
                    variants = [cid % 2 == 0] if quick else [False, True]
                for g in variants:
                    eid = f"{cid}|{impl}" + ("|grouped" if g else "")
                    jobs.append((eid, c, impl, g))
                    meta[eid] = (row, impl, g)
        nship = 0
        for k, (c, alias, genome, impl) in enumerate(shipped_jobs(types, quick)):
            eid = f"shipped{k}|{alias}|{impl}"
            jobs.append((eid, c, impl, (alias, genome)))
            meta[eid] = ({"c": c, "st": None, "given": [], "id": eid}, f"{impl}/profile={alias}", False)
            nship += 1
        obs = execute_all(jobs, pool)
        if not quick:
            for k, (w, ex) in enumerate([
                (["phase=False", "cn-max=7", "gap=0.25", "sam-mappy-preset=map-ont", "bogus-name=1"], []),
                (["phase=TRUE", "min_mapq=0"], [aarg("min_mapq", 5)]),
                (["cn-max=abc"], []),
            ]):
                c = {"wmode": "cli", "w": [carg(t) for t in w], "opts": [], "route": "api" if ex else "none", "ex": ex}
                eid = f"fullprofile{k}|aldy profile (unwrapped)"
                jobs.append((eid, c, "aldy-profile-unwrapped", False))
                meta[eid] = ({"c": c, "st": None, "given": [], "id": eid}, "aldy-profile-unwrapped", False)
                obs[eid] = execute_full_profile(c)
        for eid, c, impl, g in jobs:
            if not (c["w"] or c["opts"] or c["ex"]) and obs[eid]["st"] != "ok":
                raise MachineryError(f"the harness world is not accepted by aldy without any parameter: {eid}: {obs[eid]}")
        events = [event("baseline", {"wmode": "none", "w": [], "opts": [], "route": "none", "ex": []},
                        {"st": "ok", "vals": W.baseline, "extra": []})]
        for eid, c, impl, g in jobs:
            events.append(event(eid, c, obs[eid]))
        # ---- canaries: corrupted copies of executions that met the emitted demand (and whose outcome the
        # specification decides: where the property is silent a changed value is still allowed)
        py_ok = {eid: agrees(row, obs[eid]) for eid, (row, impl, g) in meta.items() if row["st"] is not None}
        base = [e for e in events[1:] if py_ok.get(e["id"]) and meta[e["id"]][0]["st"] in ("ok", "reject")]
        canaries = make_canaries(rng, base, types)
        if len(canaries) < 20:
            raise MachineryError("too few canaries could be derived")
        # ---- (B) validation: one TLC batch
        rej = validate(ctx, events + canaries, "ParamsTrace")
    finally:
        th.join()
        if pool is not None:
            pool.terminate()
    if mc_err:
        raise mc_err[0]
    if "baseline" in rej:
        # the DEFAULT value or type of a parameter is not the documented one (Params!Default): every route then parses the
        # parameter with another type - a violation of the code under test, not a machinery failure
        ctx.violation("DefaultsAsDocumented", {"route": "baseline", "clause": "DefaultsAsDocumented", "detail": str(rej["baseline"])[:200]},
                      {"baseline": str(rej["baseline"])}, f"Profile('x') does not match the documented defaults: {rej['baseline']}")
        return
    # both directions must agree on the emitted cases
    for eid, a in py_ok.items():
        if a != (eid not in rej):
            raise MachineryError(f"spec->code comparison and trace validation disagree on {eid}: python={a} tlc={rej.get(eid)} obs={obs[eid]}")
    for ce in canaries:
        ctx.canary(ce["id"] in rej)
        rej.pop(ce["id"], None)
    # ---- accounting
    per_impl = Counter()
    per_st = Counter()
    for eid, (row, impl, g) in meta.items():
        c = row["c"]
        nontrivial = bool(c["ex"] or c["opts"] or c["w"]) and row["st"] != "unspec"
        ctx.count(1, key=eid, nontrivial=nontrivial)
        ctx.traces += 1
        per_impl[impl.split("=")[0]] += 1
        per_st[f"{row['st']}/{obs[eid]['st']}"] += 1
    ctx.exhaustive = not quick
    ctx.parts = {
        "cases_emitted": len(rows), "executions": len(meta), "shipped_profile_executions": nship,
        "per_implementation_path": dict(per_impl), "expected/observed": dict(per_st),
        "unspecified_by_property": sum(1 for r_ in rows if r_["st"] == "unspec"),
        "parameters": len(types), "canaries": len(canaries),
    }
    if mc_cov:
        ctx.parts["mc_action_coverage(distinct,total)"] = mc_cov
        idle = [a for a, v in mc_cov.items() if v[1] == 0]
        if idle or len(mc_cov) < 9:
            raise MachineryError(f"actions of Params never fired in the exhaustive run: {idle} (reported: {sorted(mc_cov)})")
    ctx.undecided = 0
    by_case = {}
    for e in meta:
        by_case.setdefault(e.split("|", 1)[0], []).append(e)
    for i in (700, 2100, 3500, 4800):
        for row in rows[i:i + 50]:
            eids = by_case.get(str(row["id"]), [])
            if eids:
                ctx.sample({"case": compact_case(row["c"]), "demanded": row["st"],
                            "given": [(g_["name"], g_["v"]["t"], g_["v"]) for g_ in row["given"]],
                            "executions": {e.split("|", 1)[1]: describe(obs[e], row["given"][0]["name"] if row["given"] else "") for e in eids}})
                break
    # ---- violations
    genome_of = {j[0]: j[3][1] for j in jobs if isinstance(j[3], tuple)}
    seen = Counter()
    for eid, rj in rej.items():
        row, impl, g = meta[eid]
        fp = fingerprint(rj, row["c"], impl, types)
        # one defect shows up in hundreds of executions: write at most 2 replay files per
        # (clause, history shape, implementation path, parameter type, spelling class); all are counted
        key = (fp["clause"], fp["shape"], fp["impl"], fp["ptype"], fp["sclass"], fp["src"])
        seen[key] += 1
        is_known = any(
            f.get("status") == "known" and f["clause"] == fp["clause"] and _fp_match(f["fingerprint"], fp) for f in ctx._findings
        )
        if seen[key] > 2 and not is_known:
            continue
        ctx.violation(
            rj[1], fp,
            {"case": row["c"], "impl": impl, "grouped": g, "shipped": eid.split("|")[1] if eid.startswith("shipped") else None,
             "genome": genome_of.get(eid),
             "observed": obs[eid], "demanded": row["st"], "readable": compact_case(row["c"])},
            f"{compact_case(row['c'])} via {impl}: {rj[1]} on {rj[2]} ({fp['spelling']}); observed {describe(obs[eid], rj[2])}",
        )
    ctx.parts["rejected_executions"] = len(rej)
    ctx.parts["rejected_classes"] = {" / ".join(k): v for k, v in sorted(seen.items())[:200]}


def compact_case(c):
    def a(x):
        return "".join(x["tok"]) if x["sp"]["k"] == "none" else f"{x['name']}={py(x['sp'])!r}"
    s = []
    if c["wmode"] != "none":
        s.append(f"profile[{c['wmode']}]({', '.join(a(x) for x in c['w'])})")
    if c["opts"]:
        s.append(f"options({', '.join(a(x) for x in c['opts'])})")
    s.append(f"run[{c['route']}]({', '.join(a(x) for x in c['ex'])})")
    return " ; ".join(s)


def describe(o, name):
    if o["st"] != "ok":
        return f"{o['st']}: {o.get('msg', '')}"
    v = o["vals"].get(name, W.baseline.get(name))
    if v is None:
        return "ok"
    t = v[0]
    val = v[3] if t == "bool" else v[1] if t == "int" else (v[1] / v[2]) if t == "float" else "".join(v[4])
    return f"{name}={val!r} ({t})"


def replay(path):
    from ..core import Ctx

    aldyenv.setup()
    with open(path) as f:
        case = json.load(f)["case"]
    build_world()
    ctx = Ctx("C18", "quick", 0)
    c = case["case"]
    if case["impl"] == "aldy-profile-unwrapped":
        o = execute_full_profile(c)
    elif case.get("shipped"):
        o = execute_shipped(c, case["shipped"], case["genome"], case["impl"].split("/")[0])
    else:
        o = execute(c, case["impl"], case.get("grouped", False))
    print("observed now:", describe(o, ""), {k: v for k, v in o["vals"].items()})
    rej = ctx.trace_batch("trace/ParamsTrace", "trace/ParamsTrace.cfg", [event("replay", c, o)], label="replay")
    if rej:
        print(f"VIOLATION property=C18 replay={path}")
        print("  rejected:", rej[0][:4])
        return 1
    print("replay: accepted")
    return 0
