"""C10 — reported solutions are the best candidates and are internally consistent.

Spec: spec/Pipeline.tla (genotype() as a state machine over stage oracles).
  MC : spec/mc/MC_Pipeline — every small combination of stage results, gaps {0,.1,.3}.
  (B): real genotype() runs on simulated noisy samples (several structures / major candidates
       compete), recorded stage returns replayed as Pipeline actions by spec/trace/PipelineTrace.tla.
"""
import json
import os
import random
import tempfile

from .. import aldyenv, gen_db, gen_reads, par, pipeline, tlc


def make_gene(rng, d, kind, delins=True):
    """Returns (yaml path, contig length)."""
    if kind == "toy":
        txt, _ = gen_reads.toy_yaml(rng.choice("+-"), rng.choice("+-"), seed=rng.randrange(50))
        yml = os.path.join(d, "toys.yml")
        with open(yml, "w") as f:
            f.write(txt)
        return yml, 20000
    kw = {} if delins else {"kinds": dict(sub=5, msub=1.5, **{"del": 2, "ins": 2, "delins": 0})}
    db = gen_db.random_db(rng, pseudogene=True if rng.random() < 0.7 else None, **kw)
    yml = os.path.join(d, "genx.yml")
    gen_db.realise(db, yml)
    return yml, gen_db.contig_length(db, "hg19")


def random_haps(rng, gene):
    """A random genotype: list of (structure, variants[, weak])."""
    dele = gene.deletion_allele()
    majors = {c: [a for a, al in gene.alleles.items() if al.cn_config == c] for c in gene.cn_configs}
    cfgs = [c for c in gene.cn_configs if c != dele and majors[c]]
    haps, planted = [], []
    for _ in range(2):
        c = "1" if rng.random() < 0.6 or len(cfgs) == 1 else rng.choice(cfgs + ([dele] if dele else []))
        if c == dele:
            haps.append((c, ()))
            planted.append((c, None))
            continue
        a = rng.choice(majors[c])
        mi = rng.choice(sorted(gene.alleles[a].minors))
        v = set(gene.alleles[a].func_muts) | set(gene.alleles[a].minors[mi].neutral_muts)
        haps.append((c, sorted(v)))
        planted.append((a, mi))
    if rng.random() < 0.3 and majors.get("1"):
        a = rng.choice(majors["1"])
        mi = rng.choice(sorted(gene.alleles[a].minors))
        v = set(gene.alleles[a].func_muts) | set(gene.alleles[a].minors[mi].neutral_muts)
        haps.append(("1", sorted(v), True))
        planted.append((a, mi))
    return haps, planted


def _run_task(task):
    seed, kind, n = task
    rng = random.Random(seed)
    out = []
    with tempfile.TemporaryDirectory(prefix="c10_", dir=tlc.scratch()) as d:
        yml, clen = make_gene(rng, d, "toy" if kind == "toylq" else kind)
        gene = gen_reads.load_gene(yml, "hg19")
        for k in range(n):
            haps, planted = random_haps(rng, gene)
            gap = rng.choice([0, 0, 0.1, 0.3])
            mms = rng.choice([1, 1, 2, 3])
            depth = rng.choice([5, 10, 10, 20, 25])
            mode = rng.choice(["sample", "sample", "tile"])
            bam = os.path.join(d, f"s{k}.bam")
            lowq = None
            if kind == "toylq" and "7" in gene.alleles:
                # witness for "a structure without major candidates simply drops out": the fused allele *7 is planted with
                # its core variant on LOW-quality bases only: the structure stage (no quality filter) keeps the fused
                # structure, the major stage finds no allele for it, competing structures (gap > 0) still have candidates
                core = sorted(gene.alleles["7"].func_muts)
                haps = rng.choice([[("1", ()), ("7", core)], [("1", ()), ("1", ()), ("7", core)], [("7", core), ("7", core)]])
                planted = [(h[0], None) for h in haps]
                gap, mms, depth, mode, lowq = rng.choice([0.1, 0.3, 0.3]), 1, rng.choice([10, 20]), "sample", core[0]
            try:
                s = gen_reads.simulate_sample(gene, haps, 100, depth, bam, rng, contig_len=clen, mode=mode)
                if lowq is not None:
                    for rd in s["reads"]:
                        if rd.cigar and all(c[0] == 0 for c in rd.cigar) and rd.start <= lowq.pos < rd.start + len(rd.seq) \
                                and rd.seq[lowq.pos - rd.start] == lowq.op[-1]:
                            q = list(rd.qual) if rd.qual is not None else [40] * len(rd.seq)
                            q[lowq.pos - rd.start] = 3
                            rd.qual = q
                    gen_reads.write_bam(s["bam"], gene.chr, clen, s["reads"])
            except Exception as ex:  # simulator limitation (variant crossing a segment end etc.): not a verdict
                out.append({"tid": f"{kind}/{seed}/{k}", "skip": f"{type(ex).__name__}: {ex}"})
                continue
            kw = dict(cn_region=s["cn_region"], genome="hg19", gap=gap, max_minor_solutions=mms)
            if kind != "toylq" and rng.random() < 0.2:
                # a user structure that may have no matching candidates -> exercises the empty-stage errors
                others = [c for c in gene.cn_configs if c != "1"]
                kw["cn_solution"] = rng.choice([["1"], ["1", "1", "1"]] + [[c, c] for c in others] + [[c, "1"] for c in others])
            if kind != "toylq" and rng.random() < 0.08:
                kw["min_coverage"] = 200  # nothing passes the filters: alleles with core variants cannot be called
            r = pipeline.run_genotype(yml, s["bam"], None if "cn_solution" in kw else s["profile_bam"], **kw)
            tid = f"{kind}/{seed}/{k}"
            rows = pipeline.trace_rows(r, tid, gap)
            out.append({"tid": tid, "rows": rows, "meta": {
                "gene_yaml": open(yml).read() if k == 0 else "(same as first run of the task)", "haps": [list(map(str, h)) for h in haps],
                "planted": planted, "gap": gap, "max_minor_solutions": mms, "depth": depth, "mode": mode,
                "cn_solution": kw.get("cn_solution"), "error": r["error"], "error_type": r["error_type"],
                "stages": [(e["k"], len(e.get("sols", [])), e.get("err", "")) for e in r["events"]],
                "result": [(x["major_diplotype"], x["score"]) for x in (r["result"] or [])]}})
            for f in (bam, bam + ".bai", s.get("profile_bam", ""), s.get("profile_bam", "") + ".bai"):
                if f and os.path.exists(f):
                    os.unlink(f)
    return out


# --------------------------------------------------------------------------- binding (A): scripted stage results
STRUCTS = [["1", "1"], ["1", "1", "1"]]           # structure i of a script
MAJORS = [[["1", "1"], ["1", "2"]], [["1", "1", "1"], ["1", "1", "2"]]]   # candidate j of structure i


def _script_task(task):
    """Run the REAL genotype() (and the real estimate_minor wrapper) on a small simulated toy sample while the three
    stage oracles return the scripted results (spec/gen/PipelineGen.tla) as real solution objects."""
    seed, scripts = task
    import collections

    from aldy.diplotype import estimate_diplotype
    from aldy.solutions import CNSolution, MajorSolution, MinorSolution, SolvedAllele

    rng = random.Random(seed)
    out = []
    with tempfile.TemporaryDirectory(prefix="c10s_", dir=tlc.scratch()) as d:
        txt, _ = gen_reads.toy_yaml("+", "-", seed=3, pseudogene=False)
        yml = os.path.join(d, "toys.yml")
        with open(yml, "w") as f:
            f.write(txt)
        gene = gen_reads.load_gene(yml, "hg19")
        smp = gen_reads.simulate_sample(gene, [("1", ()), ("1", ())], 100, 10, os.path.join(d, "s.bam"), rng, contig_len=20000, mode="tile")
        for sid, sc in scripts:
            gap = sc["g"] / pipeline.U

            def est_cn(gene_, profile, coverage, solver, debug=None, sc=sc):
                return [CNSolution(gene_, x / pipeline.U, list(STRUCTS[i])) for i, x in enumerate(sc["cn"])]

            def est_major(gene_, coverage, cn_solution, solver, identifier=0, debug=None, sc=sc):
                i = STRUCTS.index(sorted(cn_solution.solution.elements()))
                return [MajorSolution(score=x / pipeline.U, solution=collections.Counter(SolvedAllele(gene_, major=a) for a in MAJORS[i][j]),
                                      cn_solution=cn_solution, added=[]) for j, x in enumerate(sc["maj"][i])]

            def solve_minor(gene_, coverage, major_sol, alleles_list, mutations, solver, max_solutions=1, sc=sc):
                i = STRUCTS.index(sorted(major_sol.cn_solution.solution.elements()))
                ms = sorted(sa.major for sa, n_ in major_sol.solution.items() for _ in range(n_))
                j = MAJORS[i].index(ms)
                x = sc["min"][i][j]
                if x < 0:
                    return []
                sol = MinorSolution(score=x / pipeline.U, solution=[SolvedAllele(gene_, major=a, minor=sorted(gene_.alleles[a].minors)[0]) for a in ms],
                                    major_solution=major_sol)
                estimate_diplotype(gene_, sol)  # as the real solve_minor_model does for every solution it returns
                return [sol]

            r = pipeline.run_genotype(yml, smp["bam"], smp["profile_bam"], cn_region=smp["cn_region"], genome="hg19", gap=gap, max_minor_solutions=1,
                                      stubs={"estimate_cn": est_cn, "estimate_major": est_major, "solve_minor_model": solve_minor})
            tid = f"script/{sid}"
            out.append({"tid": tid, "rows": pipeline.trace_rows(r, tid, gap), "meta": {
                "script": sc, "error": r["error"], "error_type": r["error_type"],
                "stages": [(e["k"], len(e.get("sols", [])), e.get("err", "")) for e in r["events"]],
                "result": [(x["major_diplotype"], x["score"]) for x in (r["result"] or [])]}})
    return out


def scripts_from_spec(ctx, rng, n):
    """The script universe is the product of the three factors PipelineGen emits; a seeded sample of n scripts."""
    outp = os.path.join(tlc.scratch(), "pipeline_factors.ndjson")
    ctx.mc("gen/PipelineGen", "gen/PipelineGen.cfg", workers=1, env={"OUT_FILE": outp}, label="PipelineGen(script universe)")
    fac = {r["k"]: r["v"] for r in tlc.read_ndjson(outp)}
    total = len(fac["gaps"]) * sum(len(fac["per"]) ** len(c) for c in fac["cns"])
    scripts = []
    for sid in range(n):
        c = rng.choice(fac["cns"])
        per = [rng.choice(fac["per"]) for _ in c]
        if rng.random() < 0.5:  # bias towards scripts in which both structures have candidates with refinements
            per = [rng.choice([p for p in fac["per"] if p["maj"] and max(p["min"]) >= 0]) for _ in c]
        scripts.append((sid, {"g": rng.choice(fac["gaps"]), "cn": list(c), "maj": [list(p["maj"]) for p in per], "min": [list(p["min"]) for p in per]}))
    return scripts, total


def corrupt(rng, rows):
    c = json.loads(json.dumps(rows))
    rep = c[-1]
    kinds = []
    if rep["sols"]:
        kinds += ["final", "drop", "chain"]
    mi = [r for r in c if r["k"] == "minor" and r["sols"]]
    if mi:
        kinds.append("carried")
    sel = [r for r in c if r["k"] == "selmajor" and r["passed"]]
    if sel:
        kinds.append("passedscore")
    if not kinds:
        return None
    kind = rng.choice(kinds)
    if kind == "final":
        rep["sols"][0]["final"] += 2500
    elif kind == "drop":
        rep["sols"] = []
        rep["has_result"] = True
    elif kind == "chain":
        rep["sols"][0]["chain"]["dip_sorted"] = rep["sols"][0]["chain"]["dip_sorted"][:-1]
    elif kind == "carried":
        mi[0]["sols"][0]["carried"] += 2500
    else:
        sel[0]["passed"][0]["score"] += 2500
    return c, kind


def run(ctx):
    aldyenv.setup()
    rng = random.Random(10000 + ctx.seed)
    quick = ctx.tier == "quick"
    ctx.rule = (
        "MC: all stage-result combinations of the bounded Pipeline model. (B) each run = one real genotype() on a simulated "
        "sample (toy-like and gen_db genes, 2-3 copies incl. fusions/deletion/extra copy, sampled read starts = noise, depth "
        "10-25, gap {0,.1,.3}, up to 3 minor solutions per major, sometimes a user structure without candidates) with every "
        "stage return recorded; PipelineTrace replays them as Pipeline actions. distinct = distinct run; non-trivial = at "
        "least 2 candidates at some stage or an error path."
    )
    ctx.trusted = ["harness/pipeline.py recorders (snapshots at return)", "harness/gen_reads.py", "harness/gen_db.py", "TLC"]
    ctx.assumptions = ["candidates within 3e-4 of a selection threshold make the run UNDECIDED"]
    ctx.mc("mc/MC_Pipeline", "mc/MC_Pipeline_quick.cfg" if quick else "mc/MC_Pipeline.cfg", label="MC_Pipeline", timeout=3000)
    if not quick:
        # the composition Guards x Pipeline (spec/Aldy.tla): component properties survive the coupling; coupling invariants;
        # two configs that MUST fail (a run reporting two solutions exists; a stage failure exists) guard against vacuity
        ctx.mc("mc/MC_Aldy", label="MC_Aldy(composition)", timeout=3000)
        for cfg, inv in (("mc/MC_Aldy_vac1.cfg", "NeverTwoReported"), ("mc/MC_Aldy_vac2.cfg", "NeverStageFailure")):
            r = ctx.mc("mc/MC_Aldy", cfg, expect_ok=False, label=f"MC_Aldy({inv} must be violated)")
            if r.violated != inv:
                from ..core import MachineryError

                raise MachineryError(f"anti-vacuity config {cfg}: expected violation of {inv}, got {r.violated}")
    tasks = []
    for i in range(14 if quick else 120):
        tasks.append((rng.randrange(1 << 30), "toy" if i % 2 == 0 else "gendb", 6 if quick else 14))
    for i in range(2 if quick else 10):
        tasks.append((rng.randrange(1 << 30), "toylq", 5 if quick else 10))
    # (A) spec -> code: scripted stage results of the Pipeline universe replayed through the real genotype()
    scripts, total = scripts_from_spec(ctx, rng, 1400 if quick else 15000)
    per = 100 if quick else 500
    stasks = [(rng.randrange(1 << 30), scripts[i:i + per]) for i in range(0, len(scripts), per)]
    sruns = [r for out in par.pmap(_script_task, stasks) for r in out]
    ctx.parts["scripted_stage_results"] = {"universe": total, "replayed": len(sruns),
                                           "reported_something": sum(1 for r in sruns if r["meta"]["result"]),
                                           "ended_with_error": sum(1 for r in sruns if r["meta"]["error"])}
    runs = sruns + [r for out in par.pmap(_run_task, tasks, timeout=600 if quick else 1500,
                                  default=lambda t: [{"tid": f"watchdog/{t[0]}", "skip": "task killed by the watchdog (backend did not terminate)"}])
            for r in out]
    if par.TIMED_OUT:
        ctx.parts["tasks_killed_by_watchdog"] = [repr(x) for x in par.TIMED_OUT]
    rows, meta, skipped = [], {}, 0
    for r in runs:
        if "skip" in r:
            skipped += 1
            continue
        rows += r["rows"]
        meta[r["tid"]] = r
        st = r["meta"]["stages"]
        ctx.count(1, key=r["tid"], nontrivial=any(n >= 2 for _, n, _ in st) or bool(r["meta"]["error"]))
        ctx.traces += 1
    ctx.parts["runs"] = {"runs": len(meta), "skipped_by_simulator": skipped,
                         "with_error": sum(1 for r in meta.values() if r["meta"]["error"]),
                         "multi_candidate": sum(1 for r in meta.values() if any(n >= 2 for _, n, _ in r["meta"]["stages"]))}
    ks = list(meta)
    if ks:
        ctx.sample({"run": {k: v for k, v in meta[ks[0]]["meta"].items() if k != "gene_yaml"}, "rows": meta[ks[0]]["rows"]})
    canaries = {}
    for i, tid in enumerate(rng.sample(ks, min(25, len(ks)))):
        c = corrupt(rng, meta[tid]["rows"])
        if c:
            crow, kind = c
            ctid = f"canary/{i}"
            for r in crow:
                r["tid"] = ctid
            canaries[ctid] = (tid, kind)
            rows += crow
    rej = ctx.trace_batches("trace/PipelineTrace", "trace/PipelineTrace.cfg", rows, label="PipelineTrace", chunk=400, group=lambda r: r["tid"])
    by = {}
    for r in rej:
        by.setdefault(r[0], r[1])
    for ctid, (src, kind) in canaries.items():
        if src in by:
            continue
        ctx.canary(ctid in by and not by[ctid].startswith("UNDECIDED"))
    for tid, clause in by.items():
        if tid in canaries:
            continue
        if clause.startswith("UNDECIDED"):
            ctx.undecided += 1
            continue
        m = meta[tid]
        ctx.violation(clause, {"stage": "pipeline", "clause": clause}, {"meta": m["meta"], "rows": m["rows"]},
                      f"run {tid}: {m['meta']['stages']} result={m['meta']['result']} error={m['meta']['error'][:80]}")


def replay(path):
    """Re-run the recorded run against the working tree (the task seed and run number are in the run id; the random
    stream of a task is sequential, so running the task up to that run reproduces it) and validate the new rows."""
    from ..core import Ctx

    aldyenv.setup()
    with open(path) as f:
        case = json.load(f)["case"]
    rows = case["rows"]
    tid = rows[0]["tid"] if rows else ""
    parts = tid.split("/")
    fresh = False
    if len(parts) == 3 and parts[0] in ("toy", "gendb", "toylq") and parts[1].isdigit() and parts[2].isdigit():
        with aldyenv.quiet_stderr():
            out = _run_task((int(parts[1]), parts[0], int(parts[2]) + 1))
        mine = [r for r in out if r["tid"] == tid and "rows" in r]
        if mine:
            rows, fresh = mine[0]["rows"], True
            print("re-run result:", mine[0]["meta"]["result"], "stages:", mine[0]["meta"]["stages"])
    ctx = Ctx("C10", "quick", 0)
    rej = ctx.trace_batch("trace/PipelineTrace", "trace/PipelineTrace.cfg", rows, label="replay")
    if rej and not rej[0][1].startswith("UNDECIDED"):
        print(f"VIOLATION property=C10 replay={path}")
        print("  rejected:", rej)
        return 1
    print("replay (%s): accepted" % ("run repeated on the working tree" if fresh else "recorded rows re-validated"))
    return 0
