"""C12 — result files state exactly the reported solutions.

Spec: spec/Output.tla (Carried / Rows / GT-MA-MI / Spells = the property; writers as actions).
  MC  : spec/mc/MC_Output — solution lists over 4 variants (sub, ins, del, MNP) and 7 copy options:
        parse-back of what the spec's writers produce recovers the solutions; the shipped write_vcf
        (shared genotype table, lost variants not subtracted) fails it (design-level reproduction).
  (A) : every solution list of that universe (spec/gen/OutputGen) realised on a generated gene and
        written by the REAL write_decomposition / write_vcf into io.StringIO; a plain TSV / VCF reader
        (trusted, tiny) parses the text; spec/trace/OutputTrace compares it with Rows / GT computed by
        the spec from the abstract solutions.
  (B) : random lists of 1-4 solutions x 1-4 copies over CYP2D6, CYP2A6 and the generated gene with added /
        lost variants, insertions, deletions, multi-base substitutions, uncatalogued variants, and
        solutions that DIFFER from each other.
  (C) : thorough only — genotype() on NA10860.bam with output files *.vcf / *.simple / *.aldy:
        dispatch by extension and the file contents against the returned solutions.
"""
import collections
import io
import json
import os
import random
from concurrent.futures import ThreadPoolExecutor
from urllib.parse import unquote

from .. import aldyenv, tlc, toygen
from ..core import MachineryError

TRACE = ("trace/OutputTrace", "trace/OutputTrace.cfg")
FLANK = 12

_genes = {}


def get_gene(desc):
    from aldy.gene import Gene

    if desc not in _genes:
        if desc == "toyout":
            g = toygen.load(False, False, "hg19", toygen.OUT_ALLELES)
        elif desc == "toyx":
            g = toygen.load(True, True, "hg19")
        else:
            g = Gene(os.path.join(aldyenv.ALDY_SRC, f"aldy/resources/genes/{desc}.yml"), genome="hg19")
        _genes[desc] = g
    return _genes[desc]


# --------------------------------------------------------------------------- abstract side (projection)
def op_parts(op):
    if ">" in op:
        l, r = op.split(">")
        return "sub", list(l), list(r)
    if op.startswith("ins"):
        return "ins", [], list(op[3:])
    if op.startswith("del") and "ins" in op[3:]:
        d, i = op[3:].split("ins")
        return "delins", list(d), list(i)
    if op.startswith("del"):
        return "del", list(op[3:]), []
    raise MachineryError(f"unknown op {op}")


def varkind(t):
    if t["kind"] == "sub":
        return "snp" if len(t["l"]) == 1 and len(t["r"]) == 1 else "mnp"
    return t["kind"]


class Table:
    """Variant table of one event: interns (pos, op) -> id 1..K and holds the gene's data for them."""

    def __init__(self, gene, cov):
        self.gene, self.cov, self.ids, self.rows = gene, cov, {}, []

    def vid(self, m):
        m = (m[0], m[1])
        if m not in self.ids:
            kind, l, r = op_parts(m[1])
            info = self.gene.mutations.get(m)
            start = m[0] - FLANK
            n = len(l) + 2 * FLANK + 1
            self.ids[m] = len(self.rows) + 1
            self.rows.append({
                "site": m[0], "op": m[1], "kind": kind, "l": l, "r": r, "cov": self.cov.get(m, 0),
                "effect": (info[0] if info and info[0] else "none"), "rsid": (info[1] if info else "-"), "cat": info is not None,
                "win": {"start": start, "seq": list(self.gene[start:start + n])},
            })
        return self.ids[m]


def abstract_solution(gene, tab, ms, sid):
    copies = []
    for a in ms.solution:
        al = gene.alleles[a.major]
        copies.append({
            "major": a.major, "minor": a.minor,
            "core": sorted(tab.vid(m) for m in al.func_muts),
            "silent": sorted(tab.vid(m) for m in al.minors[a.minor].neutral_muts),
            "added": sorted(tab.vid(m) for m in a.added),
            "missing": sorted(tab.vid(m) for m in a.missing),
        })
    return {"sid": sid, "dipl": ms.get_major_diplotype().replace(" ", ""), "copies": copies}


# --------------------------------------------------------------------------- text readers (trusted, tiny)
def to_int(s, default=-2):
    try:
        return int(s)
    except ValueError:
        return default


def read_decomposition(text):
    rows = []
    for line in text.split("\n"):
        if not line or line.startswith("#"):
            continue
        f = line.split("\t") + [""] * 14
        rows.append({
            "sol": to_int(f[2]), "dipl": f[3], "minors": f[4].split(";"), "copy": to_int(f[5]), "allele": f[6],
            "empty": f[7] == "", "pos": to_int(f[7], -1), "op": f[8], "cov": to_int(f[9], -1 if f[7] == "" else -2),
            "effect": f[10], "rsid": f[11],
        })
    return rows


def read_vcf(text):
    cols, recs = [], []
    for line in text.split("\n"):
        if not line or line.startswith("##"):
            continue
        f = line.split("\t")
        if line.startswith("#CHROM"):
            for h in f[9:]:
                sample, idx, dipl = (h.split(":", 2) + ["", ""])[:3]
                cols.append({"sample": sample, "idx": to_int(idx), "dipl": dipl})
            continue
        keys = f[8].split(":")
        data = []
        name = lambda x: unquote(x[1:] if x.startswith("*") else x)  # noqa  (VCF: special characters are percent-encoded)
        for cell in f[9:]:
            vals = cell.split(":")
            d = dict(zip(keys, vals))
            data.append({
                "nf": len(vals),
                "gt": [to_int(x) for x in d.get("GT", "").split("|")],
                "dp": to_int(d.get("DP", "")),
                "ma": [name(x) for x in d.get("MA", "").split(",")],
                "mi": [name(x) for x in d.get("MI", "").split(",")],
            })
        recs.append({"chrom": f[0], "pos1": to_int(f[1]), "ref": list(f[3]), "alt": list(f[4]), "nkeys": len(keys), "data": data,
                     "line": line[:200]})
    return {"cols": cols, "recs": recs}


def file_kind(text):
    if text.startswith("##fileformat=VCF"):
        return "vcf"
    if text.startswith("#Sample\tGene"):
        return "aldy"
    return "simple"


# --------------------------------------------------------------------------- real execution
def build_solutions(gene, spec_list):
    """spec_list: [[ [major, minor, [[pos,op]..added], [[pos,op]..missing]] ...copies ] ...solutions]"""
    from aldy.diplotype import estimate_diplotype
    from aldy.gene import Mutation
    from aldy.solutions import CNSolution, MajorSolution, MinorSolution, SolvedAllele

    out = []
    for spec in spec_list:
        sols = [SolvedAllele(gene, a[0], a[1], [Mutation(p, o) for p, o in a[2]], [Mutation(p, o) for p, o in a[3]]) for a in spec]
        cns = [gene.alleles[a[0]].cn_config for a in spec]
        ms = MinorSolution(0, sols, MajorSolution(0, collections.Counter(sols), CNSolution(gene, 0, cns), []))
        estimate_diplotype(gene, ms)
        out.append(ms)
    return out


def coverage_for(gene, spec_list):
    """A Coverage object giving every variant involved its own read support (distinct numbers)."""
    from aldy.coverage import Coverage

    muts = set()
    for spec in spec_list:
        for a in spec:
            al = gene.alleles[a[0]]
            muts |= {(m.pos, m.op) for m in al.func_muts} | {(m.pos, m.op) for m in al.minors[a[1]].neutral_muts}
            muts |= {tuple(m) for m in a[2]} | {tuple(m) for m in a[3]}
    cov, table = {}, {}
    for i, m in enumerate(sorted(muts)):
        cov[m] = 3 + i
        table.setdefault(m[0], {})[m[1]] = [(60, 60)] * (3 + i)
    return Coverage(gene, None, None, table, None, {}), cov


def run_writers(gdesc, spec_list, eid0):
    """Write the list with the real writers (every solution's decomposition, one VCF); return ONE trace event."""
    from aldy.diplotype import write_decomposition, write_vcf

    gene = get_gene(gdesc)
    minors = build_solutions(gene, spec_list)
    coverage, cov = coverage_for(gene, spec_list)
    tab = Table(gene, cov)
    S = [abstract_solution(gene, tab, ms, i + 1) for i, ms in enumerate(minors)]
    rows = []
    try:
        for i, ms in enumerate(minors):
            f = io.StringIO()
            write_decomposition("S1", gene, coverage, i + 1, ms, f)
            rows.append(read_decomposition(f.getvalue()))
        f = io.StringIO()
        write_vcf("S1", gene, coverage, minors, f)
    except Exception as ex:  # a writer that raises on a well-formed solution list: a violation, not a machinery failure
        raise WriterRaised(f"{type(ex).__name__}: {ex}")
    return {"id": eid0, "k": "list", "T": tab.rows, "S": S, "rows": rows, "nodecomp": [False] * len(S), "f": read_vcf(f.getvalue()), "novcf": False}


class WriterRaised(Exception):
    pass


def run_writers_or_violation(ctx, gdesc, spec_list, eid):
    try:
        return run_writers(gdesc, spec_list, eid)
    except WriterRaised as ex:
        ctx.violation("WriterRaised", {"writer": "decomposition/vcf", "kind": "WriterRaised", "exception": str(ex).split(":")[0]},
                      {"gene": gdesc, "solutions": spec_list}, f"writers raised {ex} on {gdesc} {spec_list}")
        return None


# --------------------------------------------------------------------------- classification of deviations
def defined(c):
    return set(c["core"]) | set(c["silent"]) | set(c["added"])


def classify(ev, item):
    """Fingerprint of one deviation <<clause, ...>> reported by OutputTrace."""
    clause = item[0]
    if clause.startswith("Row") or clause.startswith("EmptyRow"):
        return clause, {"writer": "decomposition", "kind": clause}
    if ev["k"] in ("dispatch", "simple"):
        return clause, {"writer": "genotype", "kind": clause}
    T, S = ev["T"], ev["S"]
    if clause == "CellFields":
        j = item[2]
        colon = any(":" in c["major"] or ":" in c["minor"] for c in S[j - 1]["copies"])
        return clause, {"writer": "vcf", "kind": "colon-in-allele-name" if colon else "CellFields"}
    if clause == "RefAlt":
        return clause, {"writer": "vcf", "kind": "refalt", "varkind": varkind(T[item[4] - 1])}
    if clause in ("GT", "MA", "MI"):
        k, j, i, v = item[1], item[2], item[3], item[4]
        c = S[j - 1]["copies"][i]
        d = ev["f"]["recs"][k - 1]["data"][j - 1]
        field = {"GT": "gt", "MA": "ma", "MI": "mi"}[clause]
        shown = d[field][i] not in (0, "-")
        carried = v in (defined(c) - set(c["missing"]))
        kind = "other"
        if shown and not carried:
            name_ok = clause == "GT" or d[field][i] == (c["major"] if clause == "MA" else c["minor"])
            if not name_ok:
                kind = "wrong-name"
            elif v in defined(c) and v in c["missing"]:
                kind = "missing-not-subtracted"
            elif any(jj != j - 1 and i < len(s["copies"]) and v in defined(s["copies"][i]) for jj, s in enumerate(S)):
                kind = "shared-genotype-table"
        elif shown and carried:
            kind = "wrong-name"
        elif carried and not shown:
            kind = "carrier-not-shown"
        fp = {"writer": "vcf", "kind": kind, "field": clause}
        if kind == "shared-genotype-table":
            fp["shape"] = "solutions-differ-at-variant"
        return "VcfCopyCarries", fp
    return clause, {"writer": "vcf", "kind": clause}


# --------------------------------------------------------------------------- TLC batches
def run_batches(ctx, rows, label, chunk=400):
    chunks_ = [rows[i:i + chunk] for i in range(0, len(rows), chunk)]
    d = tlc.scratch()

    def one(ic):
        i, c = ic
        path = os.path.join(d, f"c12_{label}_{i}_{os.getpid()}.ndjson")
        tlc.write_ndjson(path, c)
        r = tlc.run(TRACE[0], TRACE[1], workers=1, env={"TRACE_FILE": path}, heap="3g", timeout=1700)
        os.unlink(path)
        return r, len(c)

    with ThreadPoolExecutor(max_workers=12) as ex:
        results = list(ex.map(one, enumerate(chunks_)))
    rej, st, tr, wall = [], 0, 0, 0.0
    for r, n in results:
        if not r.ok:
            raise MachineryError(f"trace batch {label} did not complete: {r.violated}\n{r.error_text[:2000]}")
        done = [p for p in r.prints if len(p) >= 3 and p[1] == "DONE"]
        if not done or done[-1][2] != n:
            raise MachineryError(f"trace batch {label}: consumed {done[-1][2] if done else '?'} of {n} rows")
        rej += [p[1:] for p in r.prints if p[1] != "DONE"]
        st += r.distinct
        tr += r.generated
        wall += r.wall
    ctx.states += st
    ctx.transitions += tr
    ctx.mc_runs.append({"module": f"OutputTrace[{label}]", "ok": True, "distinct": st, "generated": tr, "rows": len(rows),
                        "tlc_processes": len(chunks_), "wall_s": round(wall, 2), "violated": None, "depth": 0})
    return rej


# --------------------------------------------------------------------------- case sources
def realise_option(gene, opt):
    """MC option <<allele, added ids, missing ids>> -> called allele of the generated gene."""
    major, minor = toygen.OUT_NAMES[opt[0]]
    conv = lambda ids: [[100000000 + toygen.OUT_VARIANTS[i][0] - 1, toygen.OUT_VARIANTS[i][1]] for i in ids]  # noqa
    return [major, minor, conv(opt[1]), conv(opt[2])]


def ambiguous(gene, spec_list):
    """Two non-SNP variants at one VCF position: a misspelled record could not be attributed."""
    muts = set()
    for spec in spec_list:
        for a in spec:
            al = gene.alleles[a[0]]
            muts |= {(m.pos, m.op) for m in al.func_muts} | {(m.pos, m.op) for m in al.minors[a[1]].neutral_muts}
            muts |= {tuple(m) for m in a[2]} | {tuple(m) for m in a[3]}
    seen = collections.Counter()
    for p, op in muts:
        kind, l, r = op_parts(op)
        if not (kind == "sub" and len(l) == 1 and len(r) == 1):
            seen[p] += 1
            if kind == "del":
                seen[p - 1] += 1
    return any(v > 1 for v in seen.values())


def random_list(rng, gene, interesting):
    """1-4 solutions x 1-4 copies; later solutions are perturbations of the first or independent."""
    names = [a for a in gene.alleles if a != gene.deletion_allele()]
    muts = sorted(gene.mutations)
    nonsnp = [m for m in muts if len(m[1]) != 3]

    def copy_():
        major = rng.choice(interesting if (interesting and rng.random() < 0.5) else names)
        al = gene.alleles[major]
        minor = rng.choice(list(al.minors))
        own = sorted({(m.pos, m.op) for m in al.func_muts} | {(m.pos, m.op) for m in al.minors[minor].neutral_muts})
        added, missing = [], []
        r = rng.random()
        if r < 0.45:
            for _ in range(rng.randint(1, 2)):
                m = rng.choice(nonsnp if (nonsnp and rng.random() < 0.5) else muts)
                if m not in own and list(m) not in added:
                    added.append(list(m))
        if r > 0.88:
            w = gene.get_wide_region()
            p = rng.randint(w.start + 20, w.end - 20)
            b = gene[p]
            if b in "ACGT":
                added.append([p, f"{b}>{rng.choice([x for x in 'ACGT' if x != b])}"])
        if own and rng.random() < 0.3:
            for m in rng.sample(own, min(len(own), rng.randint(1, 2))):
                missing.append(list(m))
        return [major, minor, added, missing]

    nsol = rng.choice([1, 2, 2, 2, 3, 3, 4])
    first = [copy_() for _ in range(rng.randint(1, 4))]
    out = [first]
    for _ in range(nsol - 1):
        r = rng.random()
        if r < 0.6:  # same shape, one copy changed: the solutions DIFFER at a few variants
            s = [list(c) for c in first]
            s[rng.randrange(len(s))] = copy_()
        elif r < 0.8:  # another number of copies
            s = [list(c) for c in first][: rng.randint(1, len(first))] + [copy_() for _ in range(rng.randint(0, 2))]
            s = s[:4]
        else:
            s = [copy_() for _ in range(rng.randint(1, 4))]
        out.append(s)
    return out


# --------------------------------------------------------------------------- canaries
DECOMP_CANARIES = ["droprow", "dropempty", "cov", "pos", "rsid", "copy", "dipl", "lostshown"]
VCF_CANARIES = ["gtflip", "pos0", "mami", "droprec", "dp", "coldipl", "cellfields"]


def corrupt(rng, ev, kind):
    e = json.loads(json.dumps(ev))
    if kind in DECOMP_CANARIES:
        j = rng.randrange(len(e["S"]))
        rows, sol = e["rows"][j], e["S"][j]
        real = [i for i, r in enumerate(rows) if not r["empty"]]
        empty = [i for i, r in enumerate(rows) if r["empty"]]
        if kind == "droprow" and real:
            del rows[rng.choice(real)]
        elif kind == "dropempty" and empty:
            del rows[rng.choice(empty)]
        elif kind == "cov" and real:
            rows[rng.choice(real)]["cov"] += 1
        elif kind == "pos" and real:
            rows[rng.choice(real)]["pos"] += 1
        elif kind == "rsid" and real:
            rows[rng.choice(real)]["rsid"] += "x"
        elif kind == "copy" and real and len(sol["copies"]) > 1:
            i = rng.choice(real)
            rows[i]["copy"] = (rows[i]["copy"] + 1) % len(sol["copies"])
        elif kind == "dipl" and rows:
            rows[0]["dipl"] += "+*1"
        elif kind == "lostshown" and rows:
            # a row for a variant the copy is reported to have lost
            for ci, c in enumerate(sol["copies"]):
                lost = [v for v in c["missing"] if v in defined(c)]
                if lost:
                    t = e["T"][lost[0] - 1]
                    rows.append(dict(rows[0], copy=ci, allele=c["minor"], empty=False, pos=t["site"], op=t["op"], cov=t["cov"],
                                     effect=t["effect"], rsid=t["rsid"]))
                    break
            else:
                return None
        else:
            return None
        e["novcf"] = True  # only the corrupted part is judged (the VCF part may carry known findings)
        e["nodecomp"] = [x != j for x in range(len(e["S"]))]
        return e
    e["nodecomp"] = [True] * len(e["S"])
    recs = e["f"]["recs"]
    if not recs:
        return None
    k = rng.randrange(len(recs))
    d = recs[k]["data"][rng.randrange(len(recs[k]["data"]))]
    if kind == "gtflip":
        i = rng.randrange(len(d["gt"]))
        d["gt"][i] = 1 - d["gt"][i] if d["gt"][i] in (0, 1) else 0
    elif kind == "pos0":
        recs[k]["pos1"] -= 1
    elif kind == "mami":
        if d["ma"] == d["mi"]:
            return None
        d["ma"], d["mi"] = d["mi"], d["ma"]
    elif kind == "droprec":
        if not any(1 in x["gt"] for x in recs[k]["data"]):  # a record of a variant nobody carries may be absent
            return None
        del recs[k]
    elif kind == "dp":
        d["dp"] += 1
    elif kind == "coldipl":
        e["f"]["cols"][0]["dipl"] += "x"
    elif kind == "cellfields":
        d["nf"] += 1
    else:
        return None
    return e




# --------------------------------------------------------------------------- (C) genotype() dispatch
def genotype_dispatch(ctx, eid0):
    """Run genotype() on the recorded NA10860 sample with three output file names."""
    import subprocess
    import sys

    d = tlc.scratch()
    script = os.path.join(d, "c12_dispatch.py")
    with open(script, "w") as f:
        f.write(DISPATCH_SCRIPT)
    procs = []
    for ext in ("vcf", "simple", "aldy", "txt"):
        out = os.path.join(d, f"na10860_out.{ext}")
        res = os.path.join(d, f"na10860_{ext}.json")
        env = dict(os.environ, ALDY_SRC=aldyenv.ALDY_SRC, PYTHONPATH=os.path.dirname(os.path.dirname(os.path.dirname(os.path.abspath(__file__)))))
        procs.append((ext, out, res, subprocess.Popen([sys.executable, "-W", "ignore", script, out, res], env=env,
                                                       stdout=subprocess.DEVNULL, stderr=subprocess.DEVNULL)))
    events = []
    eid = eid0
    gene = get_gene("cyp2d6")
    for ext, out, res, p in procs:
        p.wait(timeout=1500)
        if p.returncode != 0 or not os.path.exists(res):
            raise MachineryError(f"genotype() run for .{ext} failed (rc={p.returncode})")
        with open(res) as f:
            info = json.load(f)
        with open(out) as f:
            text = f.read()
        spec_list, cov = info["solutions"], {tuple(json.loads(k)): v for k, v in info["cov"].items()}
        minors = build_solutions(gene, spec_list)
        # the diplotype the run itself reported
        tab = Table(gene, cov)
        S = [abstract_solution(gene, tab, ms, i + 1) for i, ms in enumerate(minors)]
        for s, dip in zip(S, info["dipl"]):
            s["dipl"] = dip
        kind = file_kind(text)
        nblocks = 0
        none_f = {"cols": [], "recs": []}
        if kind == "vcf":
            fv = read_vcf(text)
            nblocks = len(fv["cols"])
            eid += 1
            events.append({"id": eid, "k": "list", "T": tab.rows, "S": S, "rows": [[] for _ in S], "nodecomp": [True] * len(S),
                           "f": fv, "novcf": False, "src": "genotype()"})
        elif kind == "aldy":
            rows = read_decomposition(text)
            nblocks = sum(1 for ln in text.split("\n") if ln.startswith("#Solution "))
            eid += 1
            events.append({"id": eid, "k": "list", "T": tab.rows, "S": S, "rows": [[r for r in rows if r["sol"] == s_["sid"]] for s_ in S],
                           "nodecomp": [False] * len(S), "f": none_f, "novcf": True, "src": "genotype()"})
        else:
            f = text.rstrip("\n").split("\t")
            pairs = [[f[i], f[i + 1]] for i in range(2, len(f) - 1, 2)]
            nblocks = len(pairs)
            eid += 1
            events.append({"id": eid, "k": "simple", "pairs": pairs, "want": [[a, b] for a, b in zip(info["dipl"], info["minor_legacy"])]})
        eid += 1
        events.append({"id": eid, "k": "dispatch", "ext": ext, "kind": kind, "nsols": len(S), "nblocks": nblocks})
        ctx.traces += 1
    return events


DISPATCH_SCRIPT = r'''
import json, sys, os
from harness import aldyenv
aldyenv.setup()
import aldy.genotype as G
from aldy.common import script_path
out, res = sys.argv[1], sys.argv[2]
captured = {}
import aldy.sam as sam
_orig = sam.Sample.__init__
def _init(self, *a, **k):
    _orig(self, *a, **k)
    captured["sample"] = self
sam.Sample.__init__ = _init
bam = os.path.join(aldyenv.ALDY_SRC, "aldy/tests/resources/NA10860.bam")
with aldyenv.quiet_stderr():
    with open(out, "w") as f:
        sols = list(G.genotype("cyp2d6", bam, "illumina", f, solver="any", max_minor_solutions=3, minor_phase_vars=10).values())[0]
cov = captured["sample"].coverage
muts = set()
spec = []
for ms in sols:
    cs = []
    for a in ms.solution:
        cs.append([a.major, a.minor, [[m.pos, m.op] for m in a.added], [[m.pos, m.op] for m in a.missing]])
        al = ms.major_solution.cn_solution.gene.alleles[a.major]
        muts |= set(al.func_muts) | set(al.minors[a.minor].neutral_muts) | set(a.added) | set(a.missing)
    spec.append(cs)
json.dump({"solutions": spec, "cov": {json.dumps([m.pos, m.op]): cov[m] for m in muts},
           "dipl": [ms.get_major_diplotype().replace(" ", "") for ms in sols],
           "minor_legacy": [ms.get_minor_diplotype(legacy=True).replace(" ", "") for ms in sols]}, open(res, "w"))
'''


# --------------------------------------------------------------------------- main
def run(ctx):
    aldyenv.setup()
    rng = random.Random(1200 + ctx.seed)
    quick = ctx.tier == "quick"
    ctx.rule = (
        "MC: all lists of <=%s solutions x <=%s copies over 7 copy options / 4 variants (sub, ins, del, MNP), 4 file extensions. "
        "(A) every such list (2x2; thorough also a sample of 3x2 and 2x3) realised on a generated gene and written by the real "
        "write_decomposition / write_vcf. (B) random lists of 1-4 solutions x 1-4 copies over CYP2D6, CYP2A6 and the generated gene "
        "with added/lost/uncatalogued variants, indels, multi-base substitutions, solutions that differ. distinct = (gene, solution list); "
        "non-trivial = >= 2 solutions that differ, or an added/lost variant. One execution = one writer call."
        % (("2", "2") if quick else ("3 (2)", "2 (3)"))
    )
    ctx.trusted = ["harness/checks/c12.py read_decomposition/read_vcf (plain TSV/VCF split), Table (lookup in gene.mutations, gene[a:b])",
                   "harness/toygen.py generated database", "TLC"]
    ctx.assumptions = [
        "decomposition positions are the gene's 0-based genome positions (as NA10860.out.expected pins); VCF POS is one-based",
        "a loaded insertion (site, insX) inserts X AFTER genome base `site` (C08 convention); REF/ALT correctness is semantic: "
        "REF equals the reference at POS and replacing it by ALT yields the variant's haplotype (any anchoring is accepted)",
        "VCF INFO/ID fields and the text layout are not constrained by the property",
    ]
    # ------------------------------------------------------------------ MC
    if quick:
        ctx.mc("mc/MC_Output", "mc/MC_Output_quick.cfg", label="MC_Output(2 solutions x 2 copies)")
    else:
        ctx.mc("mc/MC_Output", "mc/MC_Output.cfg", label="MC_Output(3 solutions x 2 copies)", timeout=3000)
        ctx.mc("mc/MC_Output", "mc/MC_Output_wide.cfg", label="MC_Output(2 solutions x 3 copies)", timeout=3000)
    for cfg, what in (("mc/MC_Output_shared.cfg", "shared genotype table"), ("mc/MC_Output_nomissing.cfg", "lost variants not subtracted")):
        r = ctx.mc("mc/MC_Output", cfg, expect_ok=False, label=f"MC_Output(shipped write_vcf: {what} - EXPECTED to fail)")
        if r.ok or r.violated != "InvParseBackVcf":
            raise MachineryError(f"{cfg}: the model of the shipped write_vcf no longer fails parse-back ({r.violated})")
    ctx.parts["design_findings"] = "write_vcf as shipped (bug=shared / bug=nomissing in Output.tla) violates InvParseBackVcf; minimal counterexamples: " \
        "two 1-copy solutions that differ by one added variant; one solution with a copy that lost a variant"
    # ------------------------------------------------------------------ (A)
    out = os.path.join(tlc.scratch(), "out_cases.ndjson")
    r = ctx.mc("gen/OutputGen", workers=1, env={"OUT_FILE": out, "GEN_SHAPE": "2x2"}, label="OutputGen(2x2)")
    lists = [c["s"] for c in tlc.read_ndjson(out)]
    opts = tlc.read_ndjson(out + ".opts")[0]["opts"]
    got = [p for p in r.prints if p[1] == "CASES"]
    if not got or got[0][2] != len(lists):
        raise MachineryError("OutputGen case emission mismatch")
    ctx.parts["A_universe"] = {"lists_2x2": len(lists), "exhaustive": True}
    if not quick:
        for shape in ("3x2", "2x3"):
            ctx.mc("gen/OutputGen", workers=1, env={"OUT_FILE": out, "GEN_SHAPE": shape}, label=f"OutputGen({shape})", heap="6g")
            more = [c["s"] for c in tlc.read_ndjson(out)]
            more = [m for m in more if (len(m) == 3 if shape == "3x2" else any(len(s) == 3 for s in m))]
            lists += rng.sample(more, 4000)
            ctx.parts["A_universe"][f"sampled_{shape}"] = 4000
    ctx.exhaustive = True
    rows, cases, evs = [], {}, {}
    eid = 1
    gene = get_gene("toyout")
    for L in lists:
        spec_list = [[realise_option(gene, opts[o - 1]) for o in sol] for sol in L]
        e = run_writers_or_violation(ctx, "toyout", spec_list, eid)
        if e is None:
            continue
        cases[eid] = {"gene": "toyout", "solutions": spec_list}
        evs[eid] = e
        rows.append(e)
        eid += 1
        ctx.traces += len(spec_list) + 1
        differ = len(L) > 1 and any(L[0] != x for x in L[1:])
        ctx.count(1, key=("A", json.dumps(L)), nontrivial=differ or any(opts[o - 1][1] or opts[o - 1][2] for s in L for o in s))
    nA = len(rows)
    # ------------------------------------------------------------------ (B)
    nB = 0
    plan = [("cyp2d6", 300 if quick else 3000), ("cyp2a6", 80 if quick else 800), ("toyx", 150 if quick else 1500)]
    amb = 0
    for gd, count in plan:
        gene = get_gene(gd)
        interesting = [a for a, al in gene.alleles.items() if a != gene.deletion_allele()
                       and any(len(m.op) != 3 for m in set(al.func_muts) | {x for mi in al.minors.values() for x in mi.neutral_muts})]
        made = 0
        colon = [a for a in gene.alleles if ":" in a]  # aldy's own renaming makes such names (CYP2D6 *68:2)
        while made < count:
            spec_list = random_list(rng, gene, interesting)
            if colon and made < 3:
                a = colon[made % len(colon)]
                spec_list[0][0] = [a, next(iter(gene.alleles[a].minors)), [], []]
            if ambiguous(gene, spec_list):
                amb += 1
                continue
            made += 1
            e = run_writers_or_violation(ctx, gd, spec_list, eid)
            if e is None:
                continue
            cases[eid] = {"gene": gd, "solutions": spec_list}
            evs[eid] = e
            rows.append(e)
            eid += 1
            nB += 1
            ctx.traces += len(spec_list) + 1
            differ = len(spec_list) > 1 and any(spec_list[0] != x for x in spec_list[1:])
            ctx.count(1, key=("B", gd, json.dumps(spec_list)), nontrivial=differ or any(a[2] or a[3] for s in spec_list for a in s))
            if len(ctx.samples) < 3 and differ and gd == "cyp2d6":
                ctx.sample({"gene": gd, "solutions": spec_list, "vcf_columns": e["f"]["cols"],
                            "first_record": e["f"]["recs"][0] if e["f"]["recs"] else None})
    ctx.parts["B_random"] = {"lists": nB, "per_gene": dict(plan), "skipped_ambiguous_positions": amb, "events": len(rows) - nA}
    # ------------------------------------------------------------------ (C)
    if not quick:
        ces = genotype_dispatch(ctx, eid)
        for e in ces:
            cases[e["id"]] = {"gene": "cyp2d6", "source": "genotype(NA10860.bam)", "event": e}
            evs[e["id"]] = e
        rows += ces
        eid += len(ces) + 1
        ctx.parts["C_genotype_dispatch"] = {"runs": 4, "events": len(ces)}

    rej = run_batches(ctx, rows, "AB")
    bad_events, bad_decomp = set(), set()
    written = collections.Counter()
    kinds = collections.Counter()
    for x in rej:
        i, item = x[0], x[2]
        ev = evs[i]
        clause, fp = classify(ev, item)
        bad_events.add(i)
        if fp["writer"] == "decomposition":
            bad_decomp.add(i)
        kinds[(clause, fp.get("kind"), fp.get("varkind", ""))] += 1
        fpk = json.dumps(fp, sort_keys=True)
        if written[fpk] >= 20:
            ctx.parts["further_violations_not_written"] = ctx.parts.get("further_violations_not_written", 0) + 1
            continue
        case = dict(cases[i], item=item)
        if ctx.violation(clause, fp, case, f"{cases[i].get('gene')} {ev['k']} event: {item}"):
            written[fpk] += 1
    ctx.parts["deviations_by_kind"] = {"/".join(map(str, k)): v for k, v in sorted(kinds.items())}
    # ------------------------------------------------------------------ canaries
    # decomposition canaries: from lists whose decomposition part was accepted; VCF canaries: from lists accepted entirely
    ok = [i for i in evs if i not in bad_decomp]
    ok_vcf = [i for i in evs if i not in bad_events]
    rng.shuffle(ok)
    rng.shuffle(ok_vcf)
    crow, planted = [], {}
    per_kind = 5 if quick else 15
    for kind in DECOMP_CANARIES + VCF_CANARIES:
        n = 0
        for i in (ok if kind in DECOMP_CANARIES else ok_vcf):
            if n >= per_kind:
                break
            if evs[i]["k"] != "list":
                continue
            c = corrupt(rng, evs[i], kind)
            if c is None:
                continue
            eid += 1
            c["id"] = eid
            planted[eid] = kind
            crow.append(c)
            n += 1
        if n == 0 and not ctx.violations:
            raise MachineryError(f"no accepted event admits canary kind {kind}")
    crej = collections.defaultdict(set)
    for x in run_batches(ctx, crow, "canary"):
        crej[x[0]].add(x[1])
    ck = collections.Counter()
    for i, kind in planted.items():
        ctx.canary(bool(crej.get(i)))
        ck[f"{kind}->{','.join(sorted(crej[i])) if crej.get(i) else 'ACCEPTED'}"] += 1
    ctx.parts["canaries"] = dict(sorted(ck.items()))


def replay(path):
    from ..core import Ctx

    aldyenv.setup()
    with open(path) as f:
        blob = json.load(f)
    case = blob["case"]
    ctx = Ctx("C12", "quick", 0)
    if "solutions" in case:
        es = [run_writers(case["gene"], case["solutions"], 1)]
    else:
        es = [case["event"]]
    rej = run_batches(ctx, es, "replay")
    want = blob.get("clause")
    hits = []
    for x in rej:
        ev = next(e for e in es if e["id"] == x[0])
        clause, fp = classify(ev, x[2])
        hits.append((clause, fp, x[2]))
    for h in hits[:10]:
        print("  deviation:", h)
    if any(h[0] == want for h in hits) or (hits and want is None):
        print(f"VIOLATION property=C12 replay={path}")
        return 1
    print("replay: accepted" if not hits else f"replay: the recorded clause {want} no longer fails (other deviations listed above)")
    return 0
