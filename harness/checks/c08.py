"""C08 - a catalogued variant denotes the same haplotype in every coordinate system.

Spec: spec/Coords.tla (maps from the alignment string, HGVS meaning of written variants, the
loader's per-kind strand conversion, the theorem, indel anchoring at the consumers).
  MC  : spec/mc/MC_Coords - every sequence of length 6, both strands, alignment strings with
        <= 1 I and <= 1 D, every variant of the five kinds with alleles of length <= 2.
  (A) : spec/gen/CoordsGen emits the MC databases with the maps / lookup / loaded variants the
        spec demands; each is realised with gen_db (one allele per variant), loaded by the real
        Gene and compared.
  (B) : every written variant of the 38 shipped databases x {hg19, hg38} (written record parsed
        by gen_db.from_yaml, independent of aldy) and of generated databases, as window rows
        validated by spec/trace/CoordsTrace.tla; the Variant(pos, ref, alt) handed to indelpost
        and the long-read equivalence keys are captured from the real _realign_indels.
  toy.yml is the negative control (its alleles do not match its sequence).
"""
import json
import os
import random
import re

from .. import aldyenv, gen_db, tlc, tracerun
from ..core import MachineryError

GENES_DIR = os.path.join(aldyenv.ALDY_SRC, "aldy", "resources", "genes")
TOY = os.path.join(aldyenv.ALDY_SRC, "aldy", "tests", "resources", "toy.yml")
LET = {"A": 0, "C": 1, "G": 2, "T": 3, "N": 4, ".": 5}
TEL = "ACGTN."
PAD = 12
DROPPED = {"site": 0, "kind": "dropped", "ref": [], "alt": []}

CODON = dict(zip(
    (a + b + c for a in "TCAG" for b in "TCAG" for c in "TCAG"),
    "FFLLSSSSYYXXCCXWLLLLPPPPHHQQRRRRIIIMTTTTNNKKSSRRVVVVAAAADDEEGGGG",
))


def enc(s):
    return [LET.get(ch, 4) for ch in s]


def dec(a):
    return "".join(TEL[x] for x in a)


def rec_of(op):
    """op text -> (kind, ref letters, alt letters) or None when it is not one of the five kinds."""
    try:
        k = gen_db.kind_of(op)
        r, a = gen_db.parts_of(op)
    except Exception:
        return None
    if not re.fullmatch(r"[ACGTN.]*", r) or not re.fullmatch(r"[ACGTN.]*", a):
        return None
    return k, r, a


def op_of(kind, ref, alt):
    if kind in ("sub", "msub"):
        return f"{dec(ref)}>{dec(alt)}"
    if kind == "ins":
        return "ins" + dec(alt)
    if kind == "del":
        return "del" + dec(ref)
    return f"del{dec(ref)}ins{dec(alt)}"


# --------------------------------------------------------------------------- observation
def sparse_fasta(gene, path, rname, pad=20000):
    """FASTA + index holding gene._lookup_seq at its genome offset, N-padded by `pad` letters on both
    sides, in the single-line layout _realign_indels writes itself.  Farther away the file has holes
    (never fetched: indelpost reads at most a few hundred letters around a variant); this avoids a
    250 MB N-padded file for shipped coordinates.  Small contigs are written in full."""
    s, e = gene._lookup_range
    sz = e + pad
    off = len(rname) + 2
    lo = max(0, s - pad)
    with open(path, "wb") as f:
        f.write(f">{rname}\n".encode())
        f.seek(off + lo)
        f.write(b"N" * (s - lo))
        f.write(gene._lookup_seq.encode())
        f.write(b"N" * (sz - e))
        f.write(b"\n")
    with open(path + ".fai", "w") as f:
        print(rname, sz, off, sz, sz + 1, sep="\t", file=f)


def observe_consumers(gene, tmpdir):
    """Run the real Sample._realign_indels (long-read branch: equivalents only) with
    aldy.indelpost.Variant wrapped, then one synthetic read per indel through _parse_read; returns
    ({(site, op): (pos, ref, alt)}, {(site, op): [(np, no)]}, {(site, op): (reported indels, credit)})."""
    import aldy.indelpost as ip
    from aldy.sam import Sample

    real = ip.Variant
    cap = []

    def wrapper(chrom, pos, ref, alt, reference, **kw):
        cap.append((pos, ref, alt))
        return real(chrom, pos, ref, alt, reference, **kw)

    s = Sample.__new__(Sample)
    s.gene = gene

    class P:
        indelpost = True
        min_mapq = 10
        min_quality = 10

    s.profile = P()
    s._prefix = ""
    s._indel_sites = {(pos, op): [0, 0] for pos, op in gene.mutations if op[:3] in ["ins", "del"]}
    s._indel_sites_eqs = {}
    if not s._indel_sites:
        return {}, {}, {}
    fa = os.path.join(tmpdir, f"ref_{os.getpid()}_{gene.name}_{gene.genome}.fa")
    sparse_fasta(gene, fa, gene.chr)
    ip.Variant = wrapper
    try:
        s._realign_indels(tmpdir, None, fa, True)
    finally:
        ip.Variant = real
        for p in (fa, fa + ".fai"):
            if os.path.exists(p):
                os.unlink(p)
    order = sorted(s._indel_sites, key=lambda x: (x[0], -len(x[1])))  # the loop order of _realign_indels
    if len(cap) != len(order):
        raise MachineryError(f"captured {len(cap)} Variant() calls for {len(order)} indel sites")
    rvs = dict(zip(order, cap))
    keys = {}
    for k, tgt in s._indel_sites_eqs.items():
        keys.setdefault(tgt, []).append(k)
    # long-read matching end to end: a read carrying the loaded variant (insertion AFTER the anchor
    # letter) goes through the real _parse_read; what it reports and which catalogued indel it is
    # credited to are observed
    from collections import defaultdict

    s.phases, s.phaseable, s._multi_sites = {}, {}, {}
    reads = {}
    for site, op in order:
        x = op[3:]
        if op.startswith("del") and "ins" in x:
            continue
        if op.startswith("ins"):
            start, cigar = site - 5, [(0, 6), (1, len(x)), (0, 5)]
            seq = gene[site - 5:site + 1] + x + gene[site + 1:site + 6]
        else:
            start, cigar = site - 5, [(0, 5), (2, len(x)), (0, 5)]
            seq = gene[site - 5:site] + gene[site + len(x):site + len(x) + 5]
        if "N" in seq:
            continue
        before = s._indel_sites[site, op][1]
        _, dump = s._parse_read("r", start, cigar, seq, defaultdict(list), defaultdict(list), 60, [40] * len(seq))
        reads[site, op] = ([d for d in dump if d[1][:3] in ("ins", "del")], s._indel_sites[site, op][1] - before)
    return rvs, keys, reads


def effect(seq, exons0, r, b):
    """Harness translation (trusted, no maps/strand involved): effect text of putting letter b at
    0-based RefSeq position r, '' when outside exons or synonymous."""
    if not any(s <= r < e for s, e in exons0):
        return ""
    cod = "".join(seq[s:e] for s, e in exons0)
    off = 0
    for s, e in exons0:
        if s <= r < e:
            off += r - s
            break
        off += e - s
    new = cod[:off] + b + cod[off + 1:]

    def tr(x):
        return "".join(CODON.get(x[i:i + 3], "?") for i in range(0, len(x) - len(x) % 3, 3))

    a1, a2 = tr(cod), tr(new)
    if a1 == a2:
        return ""
    i = next(i for i in range(len(a1)) if a1[i] != a2[i])
    return f"{a1[i]}{i + 1}{a2[i]}"


def rows_for_gene(db, gene, src, rng, consumers=True, n_infer=4, tmpdir=None, only=None):
    """Trace rows for every written variant of `db` under the loaded `gene`.
    Returns (rows, info) - info[id] describes the case for violation reports."""
    L = len(gene.seq)
    r2c, c2r = gene.ref_to_chr, gene.chr_to_ref
    strand = 1 if gene.strand > 0 else -1
    by_orig = {}
    for key, val in gene.mutations.items():
        by_orig.setdefault((val[3] + 1, val[4]), []).append(key)
    rvs, keys, reads = ({}, {}, {})
    if consumers:
        rvs, keys, reads = observe_consumers(gene, tmpdir or tlc.scratch())
    rows, info = [], {}
    harness_viol = []

    def window(rlo, rhi):
        cs = [r2c[r] for r in range(rlo, rhi) if r in r2c]
        if not cs:
            return 0, 0, [], [0] * (rhi - rlo), []
        glo, ghi = min(cs), max(cs) + 1
        g = gene[glo:ghi]
        if g != "".join(gene[i] for i in range(glo, ghi)):
            harness_viol.append(("LookupSliceVsIndex", glo, ghi))
        return (glo, ghi, enc(g),
                [(r2c[r] - glo + 1) if r in r2c else 0 for r in range(rlo, rhi)],
                [(c2r[c] - rlo + 1) if c in c2r else 0 for c in range(glo, ghi)])

    for pos, op in gen_db.written_variants(db):
        if only and (pos, op) != only:
            continue
        rid = f"{src}:{gene.name}:{gene.genome}:{pos}{op}"
        pr = rec_of(op)
        if pr is None or not isinstance(pos, int):
            harness_viol.append(("UnparsableWritten", pos, op))
            continue
        kind, ref, alt = pr
        p0 = pos - 1
        pad = max(PAD, len(ref) + len(alt) + 4)
        rlo, rhi = max(0, p0 - pad), min(L, p0 + len(ref) + pad)
        glo, ghi, g, wr2c, wc2r = window(rlo, rhi)
        row = dict(k="var", id=rid, strand=strand, seq=enc(gene.seq[rlo:rhi]), g=g, r2c=wr2c, c2r=wc2r,
                   w=dict(pos=pos - rlo, kind=kind, ref=enc(ref), alt=enc(alt)),
                   v=dict(DROPPED), back=dict(pos=0, kind="none", ref=[], alt=[]), text_ok=True,
                   has_rv=False, rv=dict(pos=0, ref=[], alt=[]), has_keys=False, keys=[],
                   has_read=False, read_keys=[], read_hit=0)
        lk = by_orig.get((pos, op), [])
        if len(lk) > 1:
            harness_viol.append(("TwoLoadedRecordsForOneWritten", pos, op))
        if lk:
            site, lop = lk[0]
            lp = rec_of(lop)
            if lp is None:
                harness_viol.append(("UnparsableLoaded", site, lop))
                continue
            row["v"] = dict(site=site - glo + 1, kind=lp[0], ref=enc(lp[1]), alt=enc(lp[2]))
            txt = gene.get_refseq(site, lop)
            m = re.fullmatch(r"(-?\d+)(.*)", txt)
            bp = rec_of(m.group(2)) if m else None
            row["text_ok"] = txt == f"{pos}{op}"
            if bp:
                row["back"] = dict(pos=int(m.group(1)) - rlo, kind=bp[0], ref=enc(bp[1]), alt=enc(bp[2]))
            if (site, lop) in rvs:
                vp, vr, va = rvs[site, lop]
                row["has_rv"] = True
                row["rv"] = dict(pos=vp - glo, ref=enc(vr), alt=enc(va))
                ks = []
                for np_, no in keys.get((site, lop), []):
                    at = np_ - glo + 1
                    if at >= 1 and at + (len(no) - 3 if no.startswith("del") else 0) <= len(g) + 1:
                        ks.append(dict(at=at, kind=no[:3], seq=enc(no[3:])))
                row["has_keys"] = True
                row["keys"] = ks
            if (site, lop) in reads:
                ind, hit = reads[site, lop]
                row["has_read"] = True
                row["read_keys"] = [dict(at=p - glo + 1, kind=o[:3], seq=enc(o[3:])) for p, o in ind]
                row["read_hit"] = hit
        rows.append(row)
        info[rid] = dict(src=src, gene=gene.name, build=gene.genome, pos=pos, op=op, kind=kind, strand=strand)

    # novel exonic substitutions -> effect inference
    exons0 = sorted((s - 1, e - 1) for s, e in db["exons"])
    ex_pos = [r for s, e in exons0 for r in range(s, min(e, s + 3000))]
    for j in range(n_infer if ex_pos and not only else 0):
        r = rng.choice(ex_pos)
        if r not in r2c:
            continue
        c = r2c[r]
        gref = gene[c]
        if gref not in "ACGT":
            continue
        galt = rng.choice([b for b in "ACGT" if b != gref])
        gop = f"{gref}>{galt}"
        if (c, gop) in gene.mutations:
            continue
        rlo, rhi = max(0, r - 3), min(L, r + 4)
        glo, ghi, g, wr2c, wc2r = window(rlo, rhi)
        rid = f"{src}:{gene.name}:{gene.genome}:infer{c}{gop}"
        obs = gene.get_functional((c, gop))
        rows.append(dict(k="infer", id=rid, strand=strand, seq=enc(gene.seq[rlo:rhi]), g=g, r2c=wr2c, c2r=wc2r,
                         c=c - glo + 1, gref=LET[gref], galt=LET[galt], observed=obs or "",
                         eff=[[effect(gene.seq, exons0, x, b) for b in "ACGT"] for x in range(rlo, rhi)]))
        info[rid] = dict(src=src, gene=gene.name, build=gene.genome, pos=c, op=gop, kind="infer", strand=strand)
    return rows, info, harness_viol


def maps_row(db, gene, rid):
    bd = db["builds"][gene.genome]
    org = gene._lookup_range[0]
    L = len(gene.seq)
    span = gene._lookup_range[1] - org
    return dict(k="maps", id=rid, seq=enc(gene.seq), strand=1 if gene.strand > 0 else -1,
                cig=[[t[0], int(t[1:])] for t in bd["cigar"].split()],
                r2c=[(gene.ref_to_chr[r] - org + 1) if r in gene.ref_to_chr else 0 for r in range(L)],
                c2r=[(gene.chr_to_ref[c] + 1) if c in gene.chr_to_ref else 0 for c in range(org, org + span)],
                g=enc(gene[org:org + span]))


# --------------------------------------------------------------------------- workers (forked)
def _shipped_worker(args):
    path, seed = args
    aldyenv.setup()
    from aldy.gene import Gene

    rng = random.Random(seed)
    db = gen_db.from_yaml(path)
    out = []
    for b in ("hg19", "hg38"):
        try:
            g = Gene(path, genome=b)
        except Exception as ex:  # a shipped database must load
            out.append((b, [], {}, [("LoaderRaised", type(ex).__name__, str(ex)[:200])]))
            continue
        try:
            rows, info, hv = rows_for_gene(db, g, "shipped", rng, consumers=True, n_infer=6)
        except Exception as ex:  # an accessor of the loaded gene (lookup, maps, get_refseq, consumers) raised
            import traceback
            rows, info, hv = [], {}, [("AccessorRaised", type(ex).__name__, traceback.format_exc()[-400:])]
        out.append((b, rows, info, hv))
    return os.path.basename(path), out


def _generated_worker(args):
    idx, seed, small = args
    aldyenv.setup()
    rng = random.Random(810000 + seed * 1000003 + idx)
    opts = dict(hostile=idx % 4 == 3)
    if small:
        opts.update(seq_len=(150, 300), gaps=1.0, n_exons=(2, 2))
    else:
        opts.update(gaps=0.5)
    if idx % 5 == 4:
        opts.update(boundary_margin=False, clean_indels=False)  # repeats / region borders allowed
    if idx % 3 == 1:
        opts.update(mnp_literal_unchanged=True, neutral_mnp=True)  # every spelling of a multi-base substitution
    db = gen_db.random_db(rng, **opts)
    out = []
    for b in ("hg19", "hg38"):
        try:
            g = gen_db.load(db, b)
        except Exception as ex:  # the generator must only produce loadable databases
            return idx, db, [(b, None, {}, [("GeneRaised", type(ex).__name__, str(ex)[:200])])]
        try:
            rows, info, hv = rows_for_gene(db, g, f"gen{idx}", rng, consumers=True, n_infer=2)
        except Exception as ex:  # an accessor of the loaded gene (lookup, maps, get_refseq, consumers) raised
            import traceback
            out.append((b, [], {}, [("AccessorRaised", type(ex).__name__, traceback.format_exc()[-400:])]))
            continue
        if small:
            rid = f"gen{idx}:{g.name}:{b}:maps"
            rows.append(maps_row(db, g, rid))
            info[rid] = dict(src=f"gen{idx}", gene=g.name, build=b, pos=0, op="maps", kind="maps", strand=g.strand)
        out.append((b, rows, info, hv))
    return idx, db, out


def _pool(n=14):
    import multiprocessing as mp

    return mp.get_context("fork").Pool(n)


# --------------------------------------------------------------------------- binding (A)
def mc_db(rec, start=1001):
    """One-allele-per-variant database for an emitted MC case."""
    L = len(rec["seq"])
    cigar = " ".join(f"{a}{n}" for a, n in rec["cig"])
    span = gen_db.genome_span(cigar)
    strand = "+" if rec["strand"] == 1 else "-"
    b = dict(chr="20", start=start, end=start + span, strand=strand, cigar=cigar,
             regions={"e1": [start, start + span]}, contig_length=20000)
    alleles = []
    for k, x in enumerate(rec["vars"]):
        w = x["w"]
        alleles.append(dict(name=f"MCG*{k + 1}.001", label=None, structural=None,
                            mutations=[[w["pos"], op_of(w["kind"], w["ref"], w["alt"]), "-", "f"]]))
    return dict(name="MCG", pseudogenes=[], refseq_name="NG_MC", seq=dec(rec["seq"]), exons=[[1, L + 1]],
                regions_ref=[["e1", 1, L + 1]], cn_regions=["e1"], builds={"hg19": b, "hg38": dict(b)},
                alleles=alleles, random=[], groups={}, tandems=[])


def check_mc_case(rec):
    """Load the realised MC database and compare with what the spec demands.  Returns a list of
    (clause, detail)."""
    db = mc_db(rec)
    g = gen_db.load(db, "hg19")
    bad = []
    org = db["builds"]["hg19"]["start"] - 1
    want_r2c = {r: org + c - 1 for r, c in enumerate(rec["r2c"]) if c}
    want_c2r = {org + c: r - 1 for c, r in enumerate(rec["c2r"]) if r}
    if g.ref_to_chr != want_r2c or g.chr_to_ref != want_c2r:
        bad.append(("MapsFromAlignment", f"r2c={sorted(g.ref_to_chr.items())} want={sorted(want_r2c.items())}"))
    span = len(rec["g"])
    look = "".join(g[i] for i in range(org, org + span))
    if look != dec(rec["g"]) or g[org - 2:org + span + 3] != "NN" + dec(rec["g"]) + "NNN":
        bad.append(("LookupSequence", f"{look} want {dec(rec['g'])}"))
    by_orig = {(v[3] + 1, v[4]): k for k, v in g.mutations.items()}
    for x in rec["vars"]:
        w, v = x["w"], x["v"]
        wop = op_of(w["kind"], w["ref"], w["alt"])
        got = by_orig.get((w["pos"], wop))
        want = None if v["kind"] == "dropped" else (org + v["site"] - 1, op_of(v["kind"], v["ref"], v["alt"]))
        if got != want:
            bad.append(("Conv", f"written {w['pos']}{wop} strand {rec['strand']} cigar {rec['cig']}: loaded {got}, spec {want}"))
        elif got is not None and g.get_refseq(*got) != f"{w['pos']}{wop}":
            bad.append(("NotationRoundTrip", f"{g.get_refseq(*got)} != {w['pos']}{wop}"))
    return bad


def _mc_worker(recs):
    aldyenv.setup()
    out = []
    for i, rec in recs:
        try:
            out.append((i, check_mc_case(rec)))
        except Exception as ex:
            out.append((i, [("GeneRaised", f"{type(ex).__name__}: {ex}")]))
    return out


# --------------------------------------------------------------------------- trace batches
def run_rows(ctx, rows, label, chunks=8):
    """Validate rows with CoordsTrace in parallel TLC runs; returns {id: clause}."""
    return tracerun.run_rows(ctx, "trace/CoordsTrace", "trace/CoordsTrace.cfg", rows, label, chunks=chunks)


def corrupt(rng, row):
    """One-field corruption of an ACCEPTED row; returns (row, what) or None."""
    r = json.loads(json.dumps(row))
    if r["k"] == "infer":
        r["observed"] = "Q1Z" if r["observed"] != "Q1Z" else ""
        return r, "infer_observed"
    if r["k"] != "var" or r["v"]["kind"] == "dropped":
        return None
    opts = ["site", "seq", "c2r", "g", "back"]
    if r["strand"] == -1 and len(r["v"]["alt"]) >= 2 and r["v"]["alt"] != r["v"]["alt"][::-1]:
        opts.append("norev")
    if r["has_rv"]:
        opts += ["rvpos", "rvpos"]
    if r["has_keys"] and r["v"]["kind"] in ("ins", "del") and r["keys"]:
        opts += ["keys", "keys"]
    if r.get("has_read") and r["read_keys"]:
        opts += ["readat", "readhit"]
    what = rng.choice(opts)
    v = r["v"]
    if what == "site":
        v["site"] += rng.choice([1, -1])
    elif what == "norev":
        v["alt"] = v["alt"][::-1]
    elif what == "seq":
        if r["w"]["kind"] == "ins":
            return None
        i = r["w"]["pos"] - 1
        r["seq"][i] = (r["seq"][i] + 1) % 4
    elif what == "c2r":
        i = v["site"] - 1
        r["c2r"][i] += 1
    elif what == "g":
        i = v["site"] - 1
        r["g"][i] = (r["g"][i] + 2) % 4
    elif what == "back":
        r["back"]["pos"] += 1
    elif what == "rvpos":
        r["rv"]["pos"] += 1
    elif what == "readat":
        r["read_keys"][0]["at"] -= 1
    elif what == "readhit":
        r["read_hit"] = 0
    elif what == "keys":
        want_at = v["site"] + 1 if v["kind"] == "ins" else v["site"]
        r["keys"] = [k for k in r["keys"] if k["at"] != want_at]
    r["id"] = "canary:" + what + ":" + r["id"]
    return r, what


# --------------------------------------------------------------------------- main
def run(ctx):
    aldyenv.setup()
    quick = ctx.tier == "quick"
    rng = random.Random(8000 + ctx.seed)
    ctx.rule = (
        "MC: every RefSeq sequence of length 6 over 2 letters x both strands x alignment strings with <=1 I and <=1 D "
        "x every written variant (5 kinds, alleles <= 2 letters + dotted 3-letter substitution) with one flanking letter. "
        "(A) the MC databases realised and loaded by the real Gene. (B) every written variant of the 38 shipped databases "
        "x 2 builds and of generated databases (random sequence, either strand, alignment I/D) as +-12 windows; "
        "distinct = (source, gene, build, position, operation); non-trivial = loaded (not dropped) and footprint gap-free."
    )
    ctx.trusted = ["gen_db.from_yaml / to_yaml", "window extraction and letter encoding in harness/checks/c08.py",
                   "harness codon translation for the effect table", "TLC"]
    ctx.assumptions = [
        "with alignment gaps the theorem is evaluated on the maximal gap-free block around the variant footprint; a footprint touching a gap is counted undecided",
        "long-read keys farther than the window from the variant are not evaluated",
    ]
    # ---- MC of the rules
    if quick:
        ctx.mc("mc/MC_Coords", "mc/MC_Coords_quick.cfg", label="MC_Coords(quick)")
    else:
        ctx.mc("mc/MC_Coords", "mc/MC_Coords.cfg", label="MC_Coords(full)", timeout=3000)

    pool = _pool()
    try:
        # ---- start the shipped and generated observations in the background
        paths = sorted(os.path.join(GENES_DIR, f) for f in os.listdir(GENES_DIR) if f.endswith(".yml"))
        paths.sort(key=lambda p: -os.path.getsize(p))
        shipped_async = pool.map_async(_shipped_worker, [(p, 8100 + ctx.seed) for p in paths], chunksize=1)
        ngen = 2000 if quick else 12000
        nsmall = 60 if quick else 400
        gen_async = pool.map_async(
            _generated_worker, [(i, ctx.seed, i < nsmall) for i in range(ngen)], chunksize=25)

        # ---- (A)
        out = os.path.join(tlc.scratch(), "coords_cases.ndjson")
        r = ctx.mc("gen/CoordsGen", "gen/CoordsGen_quick.cfg" if quick else "gen/CoordsGen.cfg", workers=1,
                   env={"OUT_FILE": out}, label="CoordsGen", timeout=3000)
        cases = tlc.read_ndjson(out)
        os.unlink(out)
        got = [p for p in r.prints if p[1] == "CASES"]
        if not got or got[0][2] != len(cases):
            raise MachineryError("CoordsGen emission mismatch")
        idx = list(range(len(cases)))
        if quick:
            rng.shuffle(idx)
            idx = sorted(idx[:400])
        chunks = [[(i, cases[i]) for i in idx[j::14]] for j in range(14)]
        mc_res = pool.map_async(_mc_worker, chunks)

        # ---- toy gene: negative control for RefAlleleMatches
        from aldy.gene import Gene

        toy_db = gen_db.from_yaml(TOY)
        toy_rows = []
        for b in ("hg19", "hg38"):
            rows, _, _ = rows_for_gene(toy_db, Gene(TOY, genome=b), "toy", rng, consumers=False, n_infer=0)
            toy_rows += rows

        # ---- collect
        rows, info, dbs = [], {}, {}
        nship = 0
        for fn, res in shipped_async.get(timeout=3000):
            for b, rws, inf, hv in res:
                rows += rws
                info.update(inf)
                nship += sum(1 for x in rws if x["k"] == "var")
                for h in hv:
                    ctx.violation(h[0], {"source": "shipped", "clause": h[0], "gene": fn}, {"path": fn, "build": b, "detail": h}, str(h))
        ctx.parts["shipped"] = {"databases": len(paths), "variant_build_pairs": nship, "exhaustive": True}
        ngrows = 0
        for i, db, res in gen_async.get(timeout=3000):
            dbs[f"gen{i}"] = db
            for b, rws, inf, hv in res:
                for h in hv:
                    # gen_db only produces databases that load on the unchanged tree (its self test)
                    cl = "LoaderRaised" if h[0] == "GeneRaised" else h[0]
                    ctx.violation(cl, {"source": "generated", "clause": cl}, {"db": db, "build": b, "detail": h}, str(h))
                rows += rws or []
                info.update(inf)
                ngrows += len(rws or [])
        ctx.parts["generated"] = {"databases": ngen, "rows": ngrows, "with_full_map_rows": nsmall}

        nbad_mc = 0
        for part in mc_res.get(timeout=3000):
            for i, bad in part:
                rec = cases[i]
                ctx.traces += 1
                for x in rec["vars"]:
                    ctx.count(1, key=("mc", i, x["w"]["pos"], x["w"]["kind"], tuple(x["w"]["alt"]), tuple(x["w"]["ref"])),
                              nontrivial=x["decidable"] and x["v"]["kind"] != "dropped")
                for clause, detail in bad:
                    if clause == "GeneRaised":
                        clause = "LoaderRaised"
                    nbad_mc += 1
                    ctx.violation(clause, {"source": "mc", "clause": clause, "strand": rec["strand"]},
                                  {"mc_case": {k: rec[k] for k in ("seq", "strand", "cig")}, "detail": detail}, detail)
        ctx.parts["binding_A"] = {"mc_databases_loaded": len(idx), "of": len(cases), "mismatches": nbad_mc}
        ctx.sample({"mc_case": {k: cases[idx[0]][k] for k in ("seq", "strand", "cig", "g", "r2c", "c2r")}, "first_var": cases[idx[0]]["vars"][0]})
    finally:
        pool.terminate()

    # ---- (B) validate
    verdicts = run_rows(ctx, rows, "B", chunks=12)
    accepted = []
    kinds = {}
    for row in rows:
        c = verdicts.get(row["id"], "")
        inf = info[row["id"]]
        nontriv = c == "" and (row["k"] != "var" or row["v"]["kind"] != "dropped")
        ctx.count(1, key=row["id"], nontrivial=nontriv)
        ctx.traces += 1
        if c.startswith("U:"):
            ctx.undecided += 1
            kinds[c] = kinds.get(c, 0) + 1
            continue
        if c == "":
            accepted.append(row)
            kinds[inf["kind"]] = kinds.get(inf["kind"], 0) + 1
            continue
        src = "shipped" if inf["src"] == "shipped" else "generated"
        case = {"row": row, "info": inf}
        if src == "generated":
            case["db"] = dbs[inf["src"]]
        else:
            case["path"] = os.path.join("aldy/resources/genes", inf["gene"].lower() + ".yml")
        ctx.violation(c, {"source": src, "clause": c, "kind": inf["kind"], "strand": inf["strand"]}, case,
                      f"{row['id']}: {c}")
    ctx.parts["accepted_by_kind"] = kinds
    for row in accepted[:2] + [x for x in accepted if x["k"] == "var" and x["has_keys"]][:1]:
        ctx.sample(row)
    ctx.exhaustive = True  # over the 38 shipped databases x 2 builds

    # ---- negative control + canaries
    tv = run_rows(ctx, toy_rows, "toy", chunks=1)
    toy_bad = [r["id"] for r in toy_rows if tv.get(r["id"]) == "RefAlleleMatches"]
    ctx.parts["toy_negative_control"] = {"rows": len(toy_rows), "RefAlleleMatches_rejected": len(toy_bad)}
    ctx.canary(len(toy_bad) > 0)
    can = []
    pool_rows = [r for r in accepted if r["k"] != "maps"]
    rng.shuffle(pool_rows)
    want = {}
    for r in pool_rows:
        if len(can) >= 60:
            break
        c = corrupt(rng, r)
        if c and want.get(c[1], 0) < 8:
            want[c[1]] = want.get(c[1], 0) + 1
            can.append(c[0])
    cv = run_rows(ctx, can, "canary", chunks=2)
    for c in can:
        rejected = bool(cv.get(c["id"], "")) and not cv.get(c["id"], "").startswith("U:")
        if not rejected:
            print(f"[C08] canary ACCEPTED: {c['id']} verdict={cv.get(c['id'], '')!r} row={json.dumps(c)[:1200]}")
        ctx.canary(rejected)
    ctx.parts["canaries"] = want


def replay(path):
    from ..core import Ctx

    aldyenv.setup()
    with open(path) as f:
        blob = json.load(f)
    case = blob["case"]
    ctx = Ctx("C08", "quick", 0)
    rng = random.Random(0)
    if "mc_case" in case:
        out = os.path.join(tlc.scratch(), "coords_cases.ndjson")
        tlc.run("gen/CoordsGen", "gen/CoordsGen.cfg", workers=1, env={"OUT_FILE": out})
        mc = case["mc_case"]
        rec = next(r for r in tlc.read_ndjson(out) if all(r[k] == mc[k] for k in ("seq", "strand", "cig")))
        bad = check_mc_case(rec)
        print("replay (A):", bad[:5])
        if bad:
            print(f"VIOLATION property=C08 replay={path}")
            return 1
        return 0
    if "row" not in case:
        print("replay: harness-level case", case.get("detail"))
        return 1
    inf = case["info"]
    if "db" in case:
        db = case["db"]
        gene = gen_db.load(db, inf["build"])
    else:
        from aldy.gene import Gene

        p = os.path.join(aldyenv.ALDY_SRC, case["path"])
        db = gen_db.from_yaml(p)
        gene = Gene(p, genome=inf["build"])
    if inf["kind"] in ("maps",):
        rows = [maps_row(db, gene, case["row"]["id"])]
    elif inf["kind"] == "infer":
        rows = [case["row"]]
        c, gop = inf["pos"], inf["op"]
        rows[0]["observed"] = gene.get_functional((c, gop)) or ""
    else:
        rows, _, hv = rows_for_gene(db, gene, inf["src"], rng, consumers=True, n_infer=0, only=(inf["pos"], inf["op"]))
    v = run_rows(ctx, rows, "replay", chunks=1)
    print("replay rows:", json.dumps(rows)[:1500])
    bad = {k: c for k, c in v.items() if not c.startswith("U:")}
    if bad:
        print(f"VIOLATION property=C08 replay={path}")
        print("  rejected:", bad)
        return 1
    print("replay: accepted")
    return 0
