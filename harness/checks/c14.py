"""C14 — genotyping is deterministic, isolated and leaves the database untouched.

Spec   : spec/History.tla (operations of one/several aldy processes as pure functions + one write-only store;
         monitors Deterministic, DbUntouched, EvUntouched, MultiIsUnionOfSingles, RefinementIndependent,
         StoreIsWriteOnly; hazard actions transcribed from the code).
MC     : spec/mc/MC_History (16 operations, histories <= 4 quick / <= 5; five hazard cfgs that MUST violate the
         monitor named after them).
(A)    : spec/gen/HistoryGen -- TLC enumerates every history of length 2 over the full alphabet and samples
         (-simulate) histories of length 3-6; the harness replays each into ONE real Python process per process
         segment (harness/c14_world.py; FreshProcess(seed) = a new interpreter with that PYTHONHASHSEED).
(B)    : spec/trace/HistoryTrace validates the recorded events step by step with the monitors of History.
Families: all orderings of all sub-lists of 2-4 candidate major solutions handed to the real estimate_minor
         (RefinementIndependent), hash-seed sweeps [o1, o2, FreshProcess(s), o1, o2].
"""
import json
import os
import random
import tempfile

from .. import aldyenv, c14_world as W, par, tlc
from ..core import MachineryError

HAZARDS = [("accessor", "DbUntouched", "AccessorMutatesDb (solutions.py:88-95)"),
           ("filter", "RefinementIndependent", "FilterFromLastCandidate (minor.py:57-74)"),
           ("tiebreak", "Deterministic", "TieBreakFromHashOrder (minor.py:444-450)"),
           ("store", "StoreIsWriteOnly", "ResultFromStore (regression: cache keyed by gene only)"),
           ("leak", "MultiIsUnionOfSingles", "FailingGeneLeaks (regression: state survives a failed gene)")]
CORE_KINDS = ("Genotype", "GenotypeMulti", "Stage", "Write", "Store", "FreshProcess")


# =========================================================================== TLC as generator
def generate(ctx, sim, n_seeds, length, mode, num=0, seed=0):
    """-> (alphabet [op records], histories [[index, ...]]) from spec/gen/HistoryGen."""
    out = os.path.join(tlc.scratch(), f"alphabet_{int(sim)}_{mode}_{length}.ndjson")
    env = {"OUT_FILE": out, "GEN_SEEDS": n_seeds, "GEN_SIM": "1" if sim else "0", "GEN_LEN": length}
    if mode == "pairs":
        r = ctx.mc("gen/HistoryGen", "gen/HistoryGen_pairs.cfg", workers=4, env=env, label=f"HistoryGen(all length-{length}, sim={int(sim)})")
    else:
        r = ctx.mc("gen/HistoryGen", "gen/HistoryGen_sim.cfg", workers=2, env=env, simulate=f"num={num}", depth=length + 2, seed=seed,
                   label=f"HistoryGen(-simulate length {length}, sim={int(sim)})")
    alpha = tlc.read_ndjson(out)
    hs = sorted({tuple(p[2]) for p in r.prints if len(p) >= 3 and p[1] == "H"})
    if not hs:
        raise MachineryError("HistoryGen emitted no history")
    return alpha, [list(h) for h in hs]


def check_alphabet(alpha, sim):
    """The specification's alphabet and the harness' implementation agree (every accessor has a handler)."""
    names = [o["a"] for o in alpha if o["k"] == "Accessor"]
    if names != W.ACCESSORS:
        raise MachineryError(f"accessor alphabet of HistoryGen.tla and harness/c14_world.py differ: {set(names) ^ set(W.ACCESSORS)}")
    kinds = {o["k"] for o in alpha}
    need = {"Stage", "Accessor", "Write", "Query", "Store", "FreshProcess"} | ({"Genotype", "GenotypeMulti"} if sim else set())
    if kinds != need:
        raise MachineryError(f"alphabet kinds {kinds} != {need}")


# =========================================================================== tasks (process pool)
def _history_task(task):
    spec, ops, tid, reload_cov = task
    import time

    t0 = time.time()
    try:
        rows, _ = W.run_history(spec, ops, tid, reload_cov=reload_cov)
        return {"tid": tid, "rows": rows, "wall": time.time() - t0}
    except Exception as ex:  # machinery (a crash of the history child), reported by the parent
        return {"tid": tid, "fail": f"{type(ex).__name__}: {ex}"[:1500]}


def _family_task(fam):
    import time

    t0 = time.time()
    try:
        rows, meta = W._in_fork(W.refine_family, fam)
        return {"fid": fam["fid"], "rows": rows, "meta": meta, "wall": time.time() - t0}
    except Exception as ex:
        return {"fid": fam["fid"], "fail": f"{type(ex).__name__}: {ex}"[:1500]}


# =========================================================================== RefinementIndependent families
def make_families(rng, n, fid0, gene_specs, small=False):
    """Pools of 2-4 candidate major solutions with DIFFERENT gene structures over evidence whose allele fractions sit
    between the filter thresholds of the structures (so that the structure the filter uses matters)."""
    aldyenv.setup()
    from .. import evidence, genes

    fams = []
    tries = 0
    while len(fams) < n and tries < n * 20:
        tries += 1
        gname, genome = rng.choice(gene_specs)
        gene = genes.load(gname, genome)
        dele = gene.deletion_allele()
        ones = [a for a, al in gene.alleles.items() if al.cn_config == "1"]
        other = [a for a, al in gene.alleles.items() if al.cn_config not in ("1", dele) and gene.cn_configs[al.cn_config].kind.name != "DELETION"]
        base = rng.sample(ones, min(len(ones), rng.choice([1, 2, 2])))
        same_universe = rng.random() < 0.6
        pool = []
        want = rng.choice([2, 3, 3, 4])
        if gname != "toy" and small:
            want = min(want, 3)
        shapes = [1, 2, 3, 4]
        rng.shuffle(shapes)
        for ncopies in shapes:
            if len(pool) >= want:
                break
            if same_universe:
                if ncopies < len(base):
                    continue
                majors = list(base) + [rng.choice(base) for _ in range(ncopies - len(base))]
            else:
                majors = [rng.choice(ones) for _ in range(ncopies)]
            struct = ["1"] * ncopies
            if other and rng.random() < 0.25 and not same_universe:
                a = rng.choice(other)
                majors.append(a)
                struct.append(gene.alleles[a].cn_config)
            pool.append([struct, sorted(majors), rng.choice([0, 0, 0.25, 0.5])])
        # twins: the same number of copies but another structure (one copy replaced by its partial fusion allele, whose
        # variants are a subset of the parent's: the variant universe stays the same).  Thresholds of the evidence
        # filter depend on the per-region copy number, so such a twin must not influence its neighbour either.
        if same_universe and rng.random() < 0.7:
            for struct, majors, sc in list(pool):
                if len(pool) > want or (gname != "toy" and small and len(pool) >= 3):
                    break
                cands = [(a, f) for a in set(majors) for f in other if f.endswith(f"#{a}")]
                if not cands:
                    continue
                a, f = rng.choice(sorted(cands))
                tm = list(majors)
                tm.remove(a)
                tm.append(f)
                pool.append([["1"] * (len(struct) - 1) + [gene.alleles[f].cn_config], sorted(tm), rng.choice([0, 0, 0.25])])
        if len(pool) < 2 or len({tuple(sorted(p[0])) for p in pool}) < 2:
            continue
        # evidence: planted from one candidate, then the fractions of its variants pushed into the band between thresholds
        src = rng.choice(pool)
        bag = [(a, rng.choice(sorted(gene.alleles[a].minors))) for a in src[1]]
        table = evidence.plant(gene, bag, depth=20)
        for p, ops in table.items():
            tot = sum(v for o, v in ops.items() if not o.startswith("ins"))
            for o in list(ops):
                if o != "_" and not o.startswith("ins") and rng.random() < 0.7:
                    k = max(1, int(round(tot * rng.choice([0.12, 0.17, 0.22, 0.26, 0.3, 0.36, 0.45]))))
                    ops[o] = k
                    ops["_"] = max(0, tot - k)
        fams.append({"fid": fid0 + len(fams), "gene": gname, "genome": genome, "table": {str(p): v for p, v in table.items()}, "params": {},
                     "pool": pool, "same_universe": same_universe})
    return fams


def make_twin_families(rng, n, fid0, gene_specs):
    """Witness families for the structure-specific evidence filter: candidate A = two default copies of an allele, candidate
    B = the same number of copies with one of them replaced by its partial fusion allele (same variant universe); every
    variant read fraction sits between the thresholds 0.5/(cn+0.5) of two copies (0.2) and of one copy (0.33)."""
    aldyenv.setup()
    from .. import evidence, genes

    fams, tries = [], 0
    while len(fams) < n and tries < n * 30:
        tries += 1
        gname, genome = rng.choice(gene_specs)
        gene = genes.load(gname, genome)
        dele = gene.deletion_allele()
        pairs = sorted((f.split("#", 1)[1], f) for f, al in gene.alleles.items()
                       if "#" in f and al.cn_config not in ("1", dele) and f.split("#", 1)[1] in gene.alleles
                       and gene.alleles[f.split("#", 1)[1]].cn_config == "1")
        pairs = [(a, f) for a, f in pairs if any(mi.neutral_muts for mi in gene.alleles[a].minors.values()) or gene.alleles[a].func_muts]
        if not pairs:
            continue
        a, f = rng.choice(pairs)
        extra = rng.choice([0, 0, 1])
        A = [["1"] * (2 + extra), [a] * (2 + extra), 0]
        B = [["1"] * (1 + extra) + [gene.alleles[f].cn_config], sorted([a] * (1 + extra) + [f]), rng.choice([0, 0, 0.25])]
        minors = sorted(gene.alleles[a].minors)
        withvars = [m for m in minors if gene.alleles[a].minors[m].neutral_muts] or minors
        bag = [(a, minors[0])] * (1 + extra) + [(a, rng.choice(withvars))]
        table = evidence.plant(gene, bag, depth=20)
        for p_, ops in table.items():
            tot = sum(v for o, v in ops.items() if not o.startswith("ins"))
            for o in list(ops):
                if o != "_" and not o.startswith("ins"):
                    k = max(1, int(round(tot * rng.choice([0.24, 0.27, 0.3]))))
                    ops[o] = k
                    ops["_"] = max(0, tot - k)
        pool = [A, B] if rng.random() < 0.5 else [B, A]
        fams.append({"fid": fid0 + len(fams), "gene": gname, "genome": genome, "table": {str(p_): v for p_, v in table.items()}, "params": {},
                     "pool": pool, "same_universe": True, "twin": True})
    return fams


# =========================================================================== verdict helpers
def op_name(op):
    """Call site of an operation without the gene / sample it was applied to."""
    k = op["k"]
    if k in ("Genotype", "GenotypeMulti"):
        return f"{k}({op['a'].split('/')[0]})"
    if k in ("Accessor",):
        return op["a"]
    if k in ("Stage", "Write", "Query", "Store"):
        return f"{k}({op['a']})"
    return k


def corrupt(rng, rows):
    """One field of an ACCEPTED trace changed -> (rows, expected clause) or None."""
    c = json.loads(json.dumps(rows))
    cand = [i for i, r in enumerate(c) if r["op"]["k"] in ("Stage", "Accessor", "Write", "Query", "Genotype") and r["raised"] == ""]
    if not cand:
        return None
    kind = rng.choice(["db", "ev", "repeat", "repeat_score", "inner"])
    i = rng.choice(cand)
    if kind == "db":
        g = [x for x in c[i]["db"] if x != "_"]
        if not g:
            return None
        c[i]["db"][g[0]] = "f" * 16
        return c, "DbUntouched"
    if kind == "ev":
        g = [x for x in c[i]["ev"] if x != "_"]
        if not g:
            return None
        c[i]["ev"][g[0]] = "e" * 16
        return c, "EvUntouched"
    if kind == "inner":
        c[i]["inner"] = c[i]["inner"] + [{"t": "db", "g": "A", "a": "a" * 16, "b": "b" * 16, "cmp": False}]
        return c, "DbUntouched"
    # the same operation once more, with another result, right after the original
    dup = json.loads(json.dumps(c[i]))
    if kind == "repeat":
        dup["res"], dup["resS"] = "0" * 16, "1" * 16
        exp = "Deterministic|DeterministicAcrossHashSeeds|StoreIsWriteOnly"   # named after where the first result came from
    else:
        if not dup["sc"]:
            return None
        dup["res"] = "2" * 16
        dup["sc"] = [dup["sc"][0] + 3] + dup["sc"][1:]
        dup["seed"] = dup["seed"] + 1
        exp = "ScoreBitsDependOnHashSeed"
    c.insert(i + 1, dup)
    for j, r in enumerate(c):
        r["i"] = j
    return c, exp


# =========================================================================== the check
def run(ctx):
    aldyenv.setup()
    rng = random.Random(14000 + ctx.seed)
    quick = ctx.tier == "quick"
    ctx.rule = (
        "history = sequence of 2-6 operations generated by TLC from History.tla (ALL behaviours of length 2 over the full "
        "alphabet [thorough; seeded sample in quick] + -simulate length 3-6 + hash-seed sweeps o1,o2,FreshProcess(s),o1,o2), "
        "replayed into one real Python process per process segment over worlds {two generated genes (toy_yaml both strands / "
        "gen_db) sequenced in one simulated BAM + a gene without reads; repo toy gene + a shipped gene with synthetic Coverage; "
        "thorough: CYP2D6 on NA10860.bam}; after EVERY operation all live Gene/Coverage objects and the result are projected "
        "and HistoryTrace applies the monitors. Refinement families = all orderings of all sub-lists of 2-4 candidates of "
        "different structure. distinct = distinct (world, history) / (family, list); non-trivial = the history has two "
        "operations that interact (a repeated or memo-sharing operation, a multi-gene run, a FreshProcess or store "
        "perturbation followed by a result) / the list has >= 2 candidates."
    )
    ctx.trusted = ["harness/c14_world.py (operation drivers, result projection)", "harness/c14_digest.py (structural digests)",
                   "harness/pipeline.py recorders", "harness/gen_reads.py, gen_db.py, evidence.py", "TLC"]
    ctx.assumptions = [
        "digests treat dicts and sets as unordered (Python equality); lists/tuples are ordered",
        "order of the solution lists returned by the stages is not part of a result (sorted before comparison); everything "
        "else (alleles, added/missing, diplotype, output text, scores) is compared exactly",
        "a score-only difference < 1e-5 between hash seeds is reported as ScoreBitsDependOnHashSeed, anything else as "
        "DeterministicAcrossHashSeeds",
        "the debug store is perturbed (cleared / filled with junk entries for the genes of the world) by the harness: "
        "results must not change (StoreIsWriteOnly)",
        "RefinementIndependent compares a refinement as the multiset of refined copies (minor, added, missing) and its score "
        "minus the carried term; the same assignment with scores within 1e-5 is NOT decided (the low-order score digits are "
        "the construction-order tie-break weights of minor.py:446-452, which follow the order of the pooled allele list): "
        "counted in undecided_in_fixed_point_band",
        "the monitor's memory (first result per operation and arguments) is shared by all histories replayed on the same "
        "world, so a result is also compared with what OTHER processes returned for the same call",
    ]
    # ------------------------------------------------------------------ MC + hazards
    ctx.mc("mc/MC_History", "mc/MC_History_quick.cfg" if quick else "mc/MC_History.cfg", label="MC_History(len<=%d)" % (4 if quick else 5),
           timeout=3000, workers=8 if quick else 16)
    hz = {}
    for name, prop, what in HAZARDS:
        r = ctx.mc("mc/MC_History", f"mc/MC_History_hazard_{name}.cfg", expect_ok=False, workers=2,
                   label=f"MC_History(+{what}: EXPECTED to violate {prop})")
        hz[name] = r.violated
        if r.ok or r.violated != prop:
            raise MachineryError(f"hazard cfg {name}: expected a violation of {prop}, got {r.violated}")
    ctx.parts["hazards"] = hz

    # ------------------------------------------------------------------ worlds
    d = tempfile.mkdtemp(prefix="c14_", dir=tlc.scratch())
    sim_worlds, syn_worlds = [], []
    for i, variant in enumerate(["toy2", "gendb"] if quick else ["toy2", "gendb", "toy2", "gendb", "toy2", "gendb"]):
        wd = os.path.join(d, f"w{i}")
        os.makedirs(wd)
        # every other toy2 world is genotyped with an EXPLICIT genome that the BAM header does not reveal (hg38)
        sim_worlds.append(W.build_sim_world(wd, rng.randrange(1 << 30), variant, genome="hg38" if variant == "toy2" and i % 4 == 0 else "hg19"))
    for g in (["cyp2c19", "nudt15"] if quick else ["cyp2c19", "nudt15", "tpmt", "cyp3a5", "cyp2b6", "cyp2w1"]):
        syn_worlds.append(W.build_syn_world(rng.randrange(1 << 30), g))
    ctx.parts["worlds"] = {"sim": [{"variant": w["variant"], "genes": {g: x["name"] for g, x in w["genes"].items()},
                                    "planted": {s: x["planted"] for s, x in w["samples"].items()}} for w in sim_worlds],
                           "syn": [w["genes"]["B"]["name"] for w in syn_worlds]}

    # ------------------------------------------------------------------ histories from TLC
    tasks, hmeta = [], {}

    wids = {}
    NG = 2 if quick else 3   # memo groups per world (parallel TLC runs); traces of a group share the monitor's memory

    def add(spec, ops, kind, reload_cov=False):
        tid = len(tasks) + 1
        tasks.append((spec, ops, tid, reload_cov))
        w0 = wids.setdefault(json.dumps(spec, sort_keys=True), len(wids))
        hmeta[tid] = {"w": w0 * 10 + tid % NG, "world": spec["kind"] + "/" + spec.get("variant", spec["genes"].get("B", spec["genes"]["A"])["name"]), "spec": spec,
                      "ops": ops, "kind": kind}

    for sim, worlds in ((True, sim_worlds), (False, syn_worlds)):
        alpha, pairs = generate(ctx, sim, 1, 2, "pairs")
        check_alphabet(alpha, sim)
        if sim:
            # simulated samples are expensive to load: pairs of two light operations (accessor / query) run on the
            # synthetic worlds only (a seeded sample of them here)
            pairs_sel = [h for h in pairs if any(alpha[i - 1]["k"] in CORE_KINDS for i in h)]
        else:
            pairs_sel = pairs
        ctx.parts[f"pairs_{'sim' if sim else 'syn'}"] = {"alphabet": len(alpha), "all_length2": len(pairs), "eligible": len(pairs_sel)}
        if quick:
            pairs_sel = rng.sample(pairs_sel, min(len(pairs_sel), 110 if sim else 150))
        for j, h in enumerate(pairs_sel):
            add(worlds[j % len(worlds)], [alpha[i - 1] for i in h], "length2", reload_cov=(j % 5 == 0))
        ctx.parts[f"pairs_{'sim' if sim else 'syn'}"]["run"] = len(pairs_sel)
        nsim = (16 if sim else 30) if quick else (300 if sim else 700)
        alpha6, longs = generate(ctx, sim, 2 if quick else 7, 6, "sim", num=max(20, nsim // 2), seed=1000 + ctx.seed)
        rng.shuffle(longs)
        for j, h in enumerate(longs[:nsim]):
            ops = [alpha6[i - 1] for i in h][: 3 + j % 4]
            while ops and ops[-1]["k"] == "FreshProcess":
                ops.pop()
            if quick and sum(1 for o in ops if o["k"] == "FreshProcess") > 1:
                continue
            add(worlds[j % len(worlds)], ops, "simulated", reload_cov=(j % 4 == 0))
        # hash-seed sweeps: o1, o2, FreshProcess(s), o1, o2
        by = {W.op_key(o): o for o in alpha6}
        if sim:
            sweep = [("Genotype(aldy/s1,A)", "Genotype(cn/s1,B)"), ("GenotypeMulti(aldy/s1,ACB)", "Stage(minor,A)"),
                     ("Write(vcf,A)", "Write(decomposition,B)"), ("GenotypeMulti(cn/s1,AB)", "Genotype(vcf/s1,B)"),
                     ("Stage(major,B)", "Accessor(MinorSolution.get_mutation_coverages,AB)"), ("Genotype(aldy/s2,A)", "Stage(cn,B)")]
        else:
            sweep = [("Stage(minor,B)", "Stage(minor,A)"), ("Query(minor,B)", "Query(major,A)"), ("Write(vcf,B)", "Write(decomposition,A)"), ("Stage(major,B)", "Stage(cn,A)"),
                     ("Accessor(Coverage.filtered,AB)", "Accessor(SolvedAllele.__str__,AB)"), ("Query(all,A)", "Query(minor,B)")]
        # store sweeps: o1, o2, Store(clear|poison), o1, o2 (same process: only the debug store differs)
        stsweep = ([("Genotype(aldy/s1,A)", "Stage(cn,B)"), ("Stage(cn,A)", "GenotypeMulti(aldy/s1,AB)"), ("Stage(major,A)", "Genotype(cn/s1,B)")]
                   if sim else [("Stage(cn,A)", "Stage(minor,B)"), ("Stage(major,A)", "Write(vcf,B)"), ("Stage(minor,A)", "Stage(cn,B)")])
        for j, (a, b) in enumerate(stsweep[:2] if quick else stsweep):
            for what in ("poison", "clear"):
                add(worlds[j % len(worlds)], [by[a], by[b], by[f"Store({what})"], by[a], by[b]], "store-sweep")
        seeds = [1, 2] if quick else [1, 2, 3, 4, 5, 6, 7]
        if quick:
            sweep = sweep[:2] if sim else sweep[:2]
        for j, (a, b) in enumerate(sweep):
            for s in seeds:
                ops = [by[a], by[b], W.mkop("FreshProcess", "", [], s), by[a], by[b]]
                add(worlds[(j + s) % len(worlds)], ops, "seed-sweep")
    # a run with OTHER parameters between two identical runs (same process): the named profile, the loaded database and
    # every cache must be as before (real data: the shipped illumina profile is the only one that takes a custom region)
    realf = W.build_real_world(fast=True)
    g0, g1 = W.mkop("Genotype", "aldy/s1", ["A"]), W.mkop("Genotype", "nreg/s1", ["A"])
    add(realf, [g0, g1, g0], "other-parameters-in-between")
    if not quick:
        add(realf, [g1, g0, g1, W.mkop("FreshProcess", "", [], 1), g0], "other-parameters-in-between")
        real = W.build_real_world()
        g = W.mkop("Genotype", "aldy/s1", ["A"])
        for s in range(1, 8):
            add(real, [g, W.mkop("FreshProcess", "", [], s), g], "seed-sweep-real")

    # ------------------------------------------------------------------ refinement families
    gene_specs = [("toy", "hg19"), ("toy", "hg38"), ("cyp2c19", "hg19"), ("cyp2d6", "hg19")] if quick else [
        ("toy", "hg19"), ("toy", "hg38"), ("cyp2c19", "hg19"), ("cyp2d6", "hg19"), ("cyp2c9", "hg38"), ("cyp2a6", "hg19"), ("cyp2b6", "hg19")]
    fams = make_families(rng, 10 if quick else 60, 1000000, gene_specs, small=quick)
    fams += make_twin_families(rng, 6 if quick else 40, 1000000 + len(fams), gene_specs)

    # ------------------------------------------------------------------ execute
    order = sorted(range(len(tasks)), key=lambda i: -(3 * sum(1 for o in tasks[i][1] if o["k"] in ("Genotype", "GenotypeMulti", "FreshProcess"))
                                                    + (30 if tasks[i][0]["kind"] == "real" else 0) + len(tasks[i][1])))
    import time

    t0 = time.time()
    results = par.pmap(_history_task, [tasks[i] for i in order])
    t1 = time.time()
    fres = par.pmap(_family_task, fams)
    ctx.parts["timing"] = {"histories_wall_s": round(t1 - t0, 1), "families_wall_s": round(time.time() - t1, 1),
                           "history_cpu_s": round(sum(r.get("wall", 0) for r in results), 1),
                           "slowest_histories": sorted(((round(r.get("wall", 0), 1), hmeta[r["tid"]]["world"], hmeta[r["tid"]]["kind"]) for r in results), reverse=True)[:5],
                           "family_cpu_s": round(sum(r.get("wall", 0) for r in fres), 1),
                           "slowest_families": sorted(((round(r.get("wall", 0), 1), f["gene"], len(f["pool"])) for r, f in zip(fres, fams)), reverse=True)[:5]}
    print("[C14] timing", ctx.parts["timing"])
    rows, by_tid = [], {}
    for r in results:
        if "fail" in r:
            raise MachineryError(f"history {r['tid']} {[W.op_key(o) for o in hmeta[r['tid']]['ops']]}: {r['fail']}")
        by_tid[r["tid"]] = r["rows"]
    fam_by = {}
    for r, fam in zip(fres, fams):
        if "fail" in r:
            raise MachineryError(f"refinement family {fam['fid']}: {r['fail']}")
        fam_by[fam["fid"]] = (fam, r["rows"], r["meta"])
    # accounting
    for tid, rs in by_tid.items():
        m = hmeta[tid]
        keys = [W.op_key(o) for o in m["ops"]]
        interacting = len(set(keys)) < len(keys) or any(o["k"] in ("GenotypeMulti", "FreshProcess", "Store") for o in m["ops"]) or \
            len({json.dumps(r["op"], sort_keys=True) for r in rs}) < len(rs)
        ctx.count(len(rs), key=(m["world"], tuple(keys)), nontrivial=interacting)
        ctx.traces += 1
    nl = 0
    for fid, (fam, rs, meta) in fam_by.items():
        for r in rs:
            ctx.count(1, key=(fid, tuple(r["op"]["g"])), nontrivial=len(r["op"]["g"]) >= 2)
            nl += 1
        ctx.traces += 1
    ctx.parts["histories"] = {k: sum(1 for m in hmeta.values() if m["kind"] == k) for k in sorted({m["kind"] for m in hmeta.values()})}
    ctx.parts["histories"]["events"] = sum(len(r) for r in by_tid.values())
    ctx.parts["refinement"] = {"families": len(fams), "estimate_minor_calls": nl,
                               "same_universe_families": sum(1 for f in fams if f["same_universe"])}
    for tid in list(by_tid)[:2]:
        ctx.sample({"world": hmeta[tid]["world"], "history": [W.op_key(o) for o in hmeta[tid]["ops"]],
                    "executed": [[r["i"], W.op_key(r["op"]), r["res"], {k: v for k, v in r["db"].items() if k != "_"}] for r in by_tid[tid]]})
    if fams:
        f0 = fams[0]
        ctx.sample({"refinement_family": {k: f0[k] for k in ("gene", "genome", "pool", "same_universe")},
                    "lists": [r["op"]["g"] for r in fam_by[f0["fid"]][1]][:12]})

    # ------------------------------------------------------------------ validate with TLC
    for tid in sorted(by_tid, key=lambda t: (hmeta[t]["w"], t)):
        for r in by_tid[tid]:
            r["w"] = hmeta[tid]["w"]
        rows += by_tid[tid]
    for fid in sorted(fam_by):
        for r in fam_by[fid][1]:
            r["w"] = fid
        rows += fam_by[fid][1]
    rej = ctx.trace_batches("trace/HistoryTrace", "trace/HistoryTrace.cfg", rows, label="HistoryTrace", chunk=400 if quick else 2500,
                            group=lambda r: r["w"], jobs=12)
    bad = {}
    for tid, clause, i, part in rej:
        if clause.startswith("UNDECIDED"):
            ctx.undecided += 1
            continue
        bad.setdefault(tid, []).append((clause, i, part))
    # canaries: corrupted copies of accepted traces
    clean = [t for t in by_tid if t not in bad and by_tid[t]]
    crow, expect = [], {}
    for k, tid in enumerate(rng.sample(clean, min(30, len(clean)))):
        c = corrupt(rng, by_tid[tid])
        if c:
            ctid = 5000000 + k
            for r in c[0]:
                r["tid"], r["w"] = ctid, ctid
            crow += c[0]
            expect[ctid] = c[1]
    cleanf = [f for f in fam_by if f not in bad]
    for k, fid in enumerate(cleanf[:5]):
        rs = json.loads(json.dumps(fam_by[fid][1]))
        multi = [r for r in rs if len(r["per"]) >= 2]
        if multi:
            multi[-1]["per"][0]["res"], multi[-1]["per"][0]["resS"] = "9" * 16, "8" * 16
            ctid = 6000000 + k
            for r in rs:
                r["tid"], r["w"] = ctid, ctid
            crow += rs
            expect[ctid] = "RefinementIndependent"
    if crow:
        crej = ctx.trace_batch("trace/HistoryTrace", "trace/HistoryTrace.cfg", crow, label="HistoryTrace(canaries)")
        got = {}
        for tid, clause, i, part in crej:
            got.setdefault(tid, set()).add(clause)
        for ctid, exp in expect.items():
            hit = bool(set(exp.split("|")) & got.get(ctid, set()))
            ctx.canary(hit)
            if not hit:
                print(f"[C14] canary {ctid} expected {exp}, got {sorted(got.get(ctid, set()))}: "
                      f"{[(r['i'], W.op_key(r['op']), r['seed'], r['res']) for r in crow if r['tid'] == ctid][:40]}")
    if not expect and not bad:
        raise MachineryError("no canary could be derived")

    # ------------------------------------------------------------------ violations
    report(ctx, bad, hmeta, by_tid, fam_by)


def report(ctx, bad, hmeta, by_tid, fam_by):
    for tid, items in sorted(bad.items()):
        if tid in fam_by:
            fam, rs, meta = fam_by[tid]
            base = {}
            for r in rs:  # first list in which every candidate occurs
                for p in r["per"]:
                    base.setdefault(p["g"], r["i"])
            seen = set()
            for clause, i, part in items:
                m = meta[i]
                r = next(x for x in rs if x["i"] == i)
                if clause == "RefinementIndependent":
                    cand = r["per"][part - 1]["g"]
                    b = meta[base[cand]]
                    cv = next(x["value"] for x in m["parts"] if f"c{x['cand']}" == cand)
                    bv = next(x["value"] for x in b["parts"] if f"c{x['cand']}" == cand)
                    tie = cv["sc"] and len(cv["sc"]) == len(bv["sc"]) and all(abs(x - y) < 1e-5 for x, y in zip(cv["sc"], bv["sc"]))
                    same_ref = cv["s"]["refinement"] == bv["s"]["refinement"]
                    nadd = sum(len(c_[2]) for r_ in cv["s"]["refinement"] for c_ in r_)
                    if same_ref and nadd and len(cv["sc"]) == len(bv["sc"]) and \
                            all(abs(x - y) <= 0.2 * nadd + 1e-5 for x, y in zip(cv["sc"], bv["sc"])):
                        # the SAME alleles, added and lost variants: the objective proper is the same; what differs is the
                        # tie-break weight minor_add * cnt / 1e6 of the added variants, cnt = ordinal in the pooled model
                        shape = "same-refinement-tie-weight-digits"
                    elif m["univ"] != b["univ"]:
                        shape = "co-candidates-contribute-variants"
                    elif tie:
                        shape = "equal-score-tie"          # another optimal assignment of the same model
                    elif m["laststruct"] != b["laststruct"]:
                        shape = "candidates-with-different-structures"
                    else:
                        shape = "same-universe-same-last-structure"
                    if (clause, shape, cand) in seen:
                        continue
                    seen.add((clause, shape, cand))
                    ctx.violation(clause, {"clause": clause, "shape": shape},
                                  {"family": fam, "list": r["op"]["g"], "base_list": [f"c{x}" for x in b["L"]], "candidate": cand,
                                   "refinement": cv, "refinement_in_base_list": bv},
                                  f"family {tid} gene {fam['gene']}: candidate {cand} {fam['pool'][int(cand[1:])][:2]} refined as {cv['s']['refinement']} "
                                  f"{cv['sc']} in list {r['op']['g']} but {bv['s']['refinement']} {bv['sc']} in list {[f'c{x}' for x in b['L']]}")
                else:
                    fp = {"clause": clause, "op": "estimate_minor", "parts": ",".join(m["db_parts"] + m["ev_parts"])}
                    if (clause, fp["parts"]) in seen:
                        continue
                    seen.add((clause, fp["parts"]))
                    ctx.violation(clause, fp, {"family": fam, "list": r["op"]["g"]}, f"family {tid}: estimate_minor on list {r['op']['g']}: {clause} {fp['parts']} {r['raised']}")
            continue
        m = hmeta[tid]
        rs = by_tid[tid]
        seen = set()
        values = None
        for clause, i, part in items:
            r = next(x for x in rs if x["i"] == i)
            fp = {"clause": clause, "op": op_name(r["op"]), "world": m["world"].split("/")[0]}
            detail = f"history {tid} on {m['world']}: {[W.op_key(o) for o in m['ops']]}; event {i} {W.op_key(r['op'])}"
            case = {"world": m["spec"], "history": m["ops"], "event": i, "executed": [W.op_key(x["op"]) for x in rs]}
            if values is None:   # run the history once more, keeping the values, for the report
                values = _values_of(m, tid)
            v = values.get(i, {})
            if clause in ("DbUntouched", "EvUntouched", "EqualsFreshLoad"):
                parts = set()
                key = "db_parts" if clause != "EvUntouched" else "ev_parts"
                pv = values.get(i - 1, {})
                for g, ps in (v.get(key) or {}).items():
                    for k, dg in ps.items():
                        if (pv.get(key) or {}).get(g, {}).get(k, dg) != dg:
                            parts.add(k)
                for x in v.get("inner", []):
                    parts |= set(x.get("parts", []))
                fp["parts"] = ",".join(sorted(parts))
                detail += f": {clause}: changed parts {sorted(parts)}" + (" (against a fresh load)" if r["op"]["k"] == "Reload" else "")
            elif clause == "OpRaised":
                fp["raised"] = r["raised"].split(":")[0]
                detail += f": raised {r['raised']}"
            else:
                # the memoised value: first event of the memo group (world) with the same (operation, arguments)
                if part:
                    key = {"k": "Genotype", "a": r["op"]["a"], "g": [r["per"][part - 1]["g"]]}
                    now = (v.get("per") or {}).get(r["per"][part - 1]["g"])
                else:
                    key = {"k": r["op"]["k"], "a": r["op"]["a"], "g": r["op"]["g"]}
                    now = v.get("value")
                was, base_tid = None, None
                for t2 in sorted((t for t in by_tid if hmeta[t]["w"] == m["w"] and t <= tid), key=lambda t: t):
                    for x in by_tid[t2]:
                        if t2 == tid and x["i"] >= i:
                            break
                        if {"k": x["op"]["k"], "a": x["op"]["a"], "g": x["op"]["g"]} == key:
                            base_tid, bi, bp = t2, x["i"], None
                        elif x["op"]["k"] == "GenotypeMulti" and key["k"] == "Genotype" and x["op"]["a"] == key["a"] and key["g"][0] in x["op"]["g"]:
                            base_tid, bi, bp = t2, x["i"], key["g"][0]
                        else:
                            continue
                        bv = values if t2 == tid else _values_of(hmeta[t2], t2)
                        was = bv.get(bi, {}).get("value") if bp is None else (bv.get(bi, {}).get("per") or {}).get(bp)
                        break
                    if base_tid is not None:
                        break
                if base_tid is not None and base_tid != tid:
                    case["base_history"] = hmeta[base_tid]["ops"]
                    detail += f"; first seen in history {base_tid} {[W.op_key(o) for o in hmeta[base_tid]['ops']]}"
                if isinstance(now, dict) and isinstance(was, dict):
                    fp["kind"] = "score-only" if (now.get("s"), now.get("t")) == (was.get("s"), was.get("t")) else (
                        "text-only" if now.get("s") == was.get("s") else "structure")
                    if fp["kind"] == "score-only":
                        detail += f": scores {was.get('sc')} -> {now.get('sc')}"
                    else:
                        detail += f": {json.dumps(was)[:400]} -> {json.dumps(now)[:400]}"
                case["value_now"], case["value_first"] = now, was
            sig = json.dumps(fp, sort_keys=True)
            if sig in seen:
                continue
            seen.add(sig)
            ctx.violation(clause, fp, case, detail)


_VAL_CACHE = {}


def _values_of(m, tid):
    if tid not in _VAL_CACHE:
        try:
            if any(o["k"] == "FreshProcess" for o in m["ops"]):
                _, values = W.run_history(m["spec"], m["ops"], tid, False, True)
            else:
                _, values = W._in_fork(W.run_history, m["spec"], m["ops"], tid, False, True, False)
        except Exception as ex:  # noqa
            values = {}
            print(f"  (re-run of history {tid} for the report failed: {ex})")
        if len(_VAL_CACHE) > 50:
            _VAL_CACHE.clear()
        _VAL_CACHE[tid] = values
    return _VAL_CACHE[tid]


def replay(path):
    aldyenv.setup()
    from ..core import Ctx

    with open(path) as f:
        blob = json.load(f)
    case = blob["case"]
    ctx = Ctx("C14", "quick", 0)
    if "family" in case:
        fam = case["family"]
        rows, meta = W.refine_family(fam)
        for r in rows:
            r["tid"], r["w"] = 1, 1
        rej = ctx.trace_batch("trace/HistoryTrace", "trace/HistoryTrace.cfg", rows, label="replay")
    else:
        spec = case["world"]
        for g in spec["genes"].values():
            if not os.path.exists(g["yml"]):
                print(f"replay: the generated inputs of this world ({g['yml']}) lived in a scratch directory; re-running the check with the same "
                      f"VERIF_SEED regenerates them. World description: kind={spec['kind']} variant={spec.get('variant')} seed={spec['seed']}")
                d = tempfile.mkdtemp(prefix="c14r_", dir=tlc.scratch())
                if spec["kind"] == "sim":
                    spec = W.build_sim_world(d, spec["seed"], spec["variant"])
                break
        rows = []
        if case.get("base_history"):
            rows, _ = W.run_history(spec, case["base_history"], 1, reload_cov=False)
        r2, _ = W.run_history(spec, case["history"], 2, reload_cov=True)
        rows += r2
        for r in rows:
            r["w"] = 1
        rej = ctx.trace_batch("trace/HistoryTrace", "trace/HistoryTrace.cfg", rows, label="replay")
    want = blob["clause"]
    hit = [r for r in rej if r[1] == want]
    print("rejections now:", rej)
    if hit:
        print(f"VIOLATION property=C14 replay={path}")
        return 1
    print("replay: accepted")
    return 0
