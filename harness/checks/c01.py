"""C01 — error-free reads from a catalogued genotype are called as that genotype.

Spec: spec/Planted.tla (end-to-end relations; precondition decided by CNModel on the recorded
normalised depths) over the Pipeline.  Binding (B): planted genotypes -> gen_reads (error-free,
tiled, uniform depth; profile = simulated two-copy reference sample) -> real genotype() with
recorders -> spec/trace/PlantedTrace.tla; the same runs are also validated by PipelineTrace (C10).
"""
import collections
import json
import math
import os
import random
import tempfile

from natsort import natsorted

from .. import aldyenv, gen_db, gen_reads, par, pipeline, project, tlc
from . import c10

READS = [(100, 20), (60, 20), (120, 30), (150, 30), (200, 40), (240, 40), (250, 25), (100, 25), (50, 25)]


def present(gene, major, minor):
    al = gene.alleles[major]
    v = set(al.func_muts) | set(al.minors[minor].neutral_muts)
    return {m for m in v if gene.has_coverage(major, m.pos)}


def plantable(gene, major, minor):
    """The property covers SNPs, insertions and deletions (plus structures).  Alleles defined by a
    deletion-insertion (delXinsY) or by a NEUTRAL multi-base substitution are left out: aldy has no
    pileup support for either (multi-base substitutions are merged only when function-altering; see C06)."""
    al = gene.alleles[major]
    for m in al.func_muts:
        if m.op.startswith("del") and "ins" in m.op:
            return False
    for m in al.minors[minor].neutral_muts:
        if (m.op.startswith("del") and "ins" in m.op) or (">" in m.op and len(m.op) > 3):
            return False
    return True


def random_genotype(rng, gene):
    """An admissible multiset of 1-4 catalogued alleles: two complete haplotypes (default / fused /
    whole-gene deletion) + extra (pseudogene-free) copies of default-configuration alleles."""
    dele = gene.deletion_allele()
    by_cfg = collections.defaultdict(list)
    for a, al in gene.alleles.items():
        if a != dele:
            by_cfg[al.cn_config].append(a)
    cfgs = [c for c in gene.cn_configs if c != dele and by_cfg[c]]
    haps, planted = [], []

    def pick(cfg):
        ok = [(a, mi) for a in sorted(by_cfg[cfg]) for mi in sorted(gene.alleles[a].minors) if plantable(gene, a, mi)]
        return rng.choice(ok) if ok else None

    for _ in range(2):
        r = rng.random()
        if dele and r < 0.12:
            haps.append((dele, ()))
            continue
        cfg = "1" if r < 0.7 or len(cfgs) == 1 else rng.choice(cfgs)
        pk = pick(cfg) or pick("1")
        if pk is None:
            continue
        a, mi = pk
        cfg = gene.alleles[a].cn_config
        haps.append((cfg, sorted(present(gene, a, mi))))
        planted.append((a, mi))
    # a gene without structural alleles has no copy-number calling: exactly two default copies are assumed (C03),
    # so only two-copy genotypes are admissible for it
    nextra = rng.choice([0, 0, 0, 1, 1, 2]) if gene.do_copy_number else 0
    if by_cfg.get("1"):
        for _ in range(nextra):
            pk = pick("1")
            if pk is None:
                break
            a, mi = pk
            haps.append(("1", sorted(present(gene, a, mi)), True))
            planted.append((a, mi))
    return haps, planted


def _run_task(task):
    seed, kind, n = task
    rng = random.Random(seed)
    out = []
    with tempfile.TemporaryDirectory(prefix="c01_", dir=tlc.scratch()) as d:
        forced = []
        if kind == "toyov":
            # overlap witness: a neutral 4-base intronic deletion (*1.004: 180delCGTT) and a function-altering SNP of ANOTHER
            # allele inside the deleted interval (*9: 182T>A); the depth at 182 must still count the deletion copies
            txt, _ = gen_reads.toy_yaml(rng.choice("+-"), rng.choice("+-"), seed=rng.randrange(50), patches=[(178, "GACGTTCA")],
                                        extra_alleles={"1.004": [(180, "delCGTT", "rs180", None)], "9.001": [(182, "T>A", "rs182", "functional")]})
            yml, clen = os.path.join(d, "toyov.yml"), 20000
            with open(yml, "w") as f:
                f.write(txt)
            forced = [[("1", "1.004"), ("9", "9.001")], [("1", "1.004"), ("1", "1.004"), ("9", "9.001")],
                      [("1", "1.004"), ("9", "9.001"), ("3", "3.001")], [("9", "9.001"), ("9", "9.001"), ("1", "1.004")]]
        else:
            yml, clen = c10.make_gene(rng, d, kind, delins=False)  # the property names SNPs, insertions, deletions
        for genome in ("hg19", "hg38"):
            gene = gen_reads.load_gene(yml, genome)
            if kind == "gendb":
                db = gen_db.from_yaml(yml)
            for k in range(n):
                if k < len(forced) and all(a in gene.alleles and mi in gene.alleles[a].minors for a, mi in forced[k]):
                    planted = list(forced[k])
                    haps = [("1", sorted(present(gene, a, mi))) + ((True,) if j >= 2 else ()) for j, (a, mi) in enumerate(planted)]
                else:
                    haps, planted = random_genotype(rng, gene)
                rl, depth = rng.choice(READS)
                bam = os.path.join(d, f"s{genome}{k}.bam")
                tid = f"{kind}/{seed}/{genome}/{k}"
                try:
                    s = gen_reads.simulate_sample(gene, haps, rl, depth, bam, rng, contig_len=clen, mode="tile")
                except Exception as ex:
                    out.append({"tid": tid, "skip": f"{type(ex).__name__}: {ex}"})
                    continue
                r = pipeline.run_genotype(yml, s["bam"], s["profile_bam"], capture_sample=True, cn_region=s["cn_region"], genome=genome)
                row = planted_case(tid, gene, r, haps, planted)

                def spans(h1, h2):  # a deletion of copy h1 covers the site of a variant only copy h2 carries
                    for m in h1[1]:
                        if m.op.startswith("del") and "ins" not in m.op:
                            lo, hi = m.pos, m.pos + len(m.op) - 3
                            if any(lo <= q.pos < hi and q not in h1[1] and not q.op.startswith("ins") and q != m for q in h2[1]):
                                return True
                    return False

                overlap = any(spans(a, b) for i, a in enumerate(haps) for j, b in enumerate(haps) if i != j and len(a) > 1 and len(b) > 1)
                out.append({"tid": tid, "row": row, "rows10": pipeline.trace_rows(r, tid, 0.0), "meta": {
                    "deletion_of_one_copy_spans_variant_site_of_another_copy": overlap,
                    "gene_yaml": open(yml).read(), "genome": genome, "strand": gene.strand, "pseudogene": bool(gene.pseudogenes),
                    "haps": [[h[0], [str(m) for m in h[1]], bool(len(h) > 2 and h[2])] for h in haps], "planted": planted,
                    "read_len": rl, "depth": depth, "error": r["error"],
                    "region_cov": row["cn"]["regs"] if row else None,
                    "result": [(x["major_diplotype"], x["minor_diplotype"], x["score"]) for x in (r["result"] or [])]}})
                for f in (bam, bam + ".bai", s.get("profile_bam", ""), s.get("profile_bam", "") + ".bai"):
                    if f and os.path.exists(f):
                        os.unlink(f)
    return out


def planted_case(tid, gene, r, haps, planted):
    from aldy.profile import Profile

    smp = r["sample"]
    if smp is None or not getattr(smp, "coverage", None) or not smp.coverage._region_coverage:
        return None
    cov = smp.coverage
    region_cov = {rg: (cov.region_coverage(0, rg), cov.region_coverage(1, rg) if len(gene.regions) > 1 else 0.0) for rg in gene.unique_regions}
    M = 1 + max(math.ceil(cov.region_coverage(gi, rg)) for gi, g in enumerate(gene.regions) for rg in g)
    prof = smp.profile
    cn = project.cn_case(tid, gene, prof, dict(gene.cn_configs), M, region_cov, None, [], "")
    idx = {c["name"]: i + 1 for i, c in enumerate(cn["cfgs"])}
    dele = gene.deletion_allele()
    pv = collections.Counter()
    for a, mi in planted:
        for m in present(gene, a, mi):
            pv[str(m)] += 1
    rep = []
    for sol in r["result_objs"] or []:
        vv = collections.Counter()
        for sa in sol.solution:
            vs = (set(gene.alleles[sa.major].func_muts) | set(gene.alleles[sa.major].minors[sa.minor].neutral_muts) | set(sa.added)) - set(sa.missing)
            for m in vs:
                vv[str(m)] += 1
        rep.append({"struct": sorted(idx[c] for c in sol.major_solution.cn_solution.solution.elements()),
                    "majors": sorted(sa.major for sa in sol.solution),
                    "variants": [{"v": v, "n": n} for v, n in sorted(vv.items())]})
    return {"id": tid, "cn": cn, "err": r["error"],
            "planted": {"struct": sorted(idx[h[0]] for h in haps if h[0] != dele), "majors": sorted(a for a, _ in planted),
                        "variants": [{"v": v, "n": n} for v, n in sorted(pv.items())]},
            "reported": rep}


def run(ctx):
    aldyenv.setup()
    rng = random.Random(1000 + ctx.seed)
    quick = ctx.tier == "quick"
    ctx.rule = (
        "each case = a random admissible multiset of 1-4 catalogued alleles (two complete haplotypes: default, fused or "
        "whole-gene deletion; extra default copies) of a generated database (toy-like and gen_db; + and - strand builds, with and "
        "without pseudogene; SNP/MNP/insertion/deletion alleles), simulated error-free with tiled reads (read length 50-250, "
        "per-copy depth 20-40), profile = simulated two-copy reference sample, genotyped by the real genotype(); PlantedTrace "
        "decides the precondition with CNModel on the recorded depths. distinct = distinct (database, build, genotype, reads); "
        "non-trivial = precondition holds (planted structure optimal)."
    )
    ctx.trusted = ["harness/gen_reads.py (cross-checked by C06/C07 on the same simulator)", "harness/gen_db.py", "harness/project.py", "TLC"]
    ctx.assumptions = ["long-read remapping, CRAM and 10X barcodes are out of reach", "shipped genes at real coordinates are not simulated (contig size)"]
    # design level: a chain whose stage scores are the stage minima (what MC_MajorModel / MC_MinorModel / MC_CNEncoding
    # establish for the planted genotype on noise-free evidence) survives both selection steps of the Pipeline model
    # and is reported first, for every gap; the vacuity config must be violated (such a run with a rival exists)
    ctx.mc("mc/MC_PlantedPipeline", "mc/MC_PlantedPipeline_quick.cfg" if quick else "mc/MC_PlantedPipeline.cfg",
           label="MC_PlantedPipeline(planted chain survives the selections)", timeout=3000)
    rv = ctx.mc("mc/MC_PlantedPipeline", "mc/MC_PlantedPipeline_vac.cfg", expect_ok=False, label="MC_PlantedPipeline(NeverZeroChainWithRival must be violated)")
    if rv.violated != "NeverZeroChainWithRival":
        from ..core import MachineryError

        raise MachineryError(f"anti-vacuity config: expected violation of NeverZeroChainWithRival, got {rv.violated}")
    tasks = []
    for i in range(14 if quick else 140):
        tasks.append((rng.randrange(1 << 30), "toy" if i % 2 == 0 else "gendb", 3 if quick else 8))
    for i in range(2 if quick else 10):
        tasks.append((rng.randrange(1 << 30), "toyov", 4 if quick else 8))
    runs = [r for out in par.pmap(_run_task, tasks, timeout=600 if quick else 1500,
                                  default=lambda t: [{"tid": f"watchdog/{t[0]}", "skip": "task killed by the watchdog (backend did not terminate)"}])
            for r in out]
    if par.TIMED_OUT:
        ctx.parts["tasks_killed_by_watchdog"] = [repr(x) for x in par.TIMED_OUT]
    rows, rows10, meta, skipped = [], [], {}, 0
    for r in runs:
        if "skip" in r or r.get("row") is None:
            skipped += 1
            continue
        rows.append(r["row"])
        rows10 += r["rows10"]
        meta[r["tid"]] = r["meta"]
    ks = list(meta)
    if ks:
        ctx.sample({"run": {k: v for k, v in meta[ks[0]].items() if k != "gene_yaml"}})
        ctx.sample({"run": {k: v for k, v in meta[ks[-1]].items() if k != "gene_yaml"}})
    # canaries
    canaries = {}
    cand = [r for r in rows if r["reported"] and not r["err"]]
    for i, r in enumerate(rng.sample(cand, min(15, len(cand)))):
        c = json.loads(json.dumps(r))
        c["id"] = f"canary/{i}"
        if rng.random() < 0.5 or not c["reported"][0]["variants"]:
            c["reported"][0]["variants"].append({"v": "999.A>C", "n": 1})
        else:
            for rep in c["reported"]:
                rep["majors"] = rep["majors"][:-1] + ["nope"]
                rep["variants"] = rep["variants"][1:]
        canaries[c["id"]] = r["id"]
        rows.append(c)
    rej = ctx.trace_batches("trace/PlantedTrace", "trace/PlantedTrace.cfg", rows, label="PlantedTrace", chunk=60)
    by = {}
    for x in rej:
        by.setdefault(x[0], x[1])
    na = 0
    for cid, src in canaries.items():
        if src in by:
            continue
        ctx.canary(cid in by and not by[cid].startswith("NA:"))
    for tid in meta:
        v = by.get(tid, "")
        ctx.count(1, key=tid, nontrivial=not v.startswith("NA:"))
        ctx.traces += 1
        if v.startswith("NA:"):
            na += 1
    ctx.parts["planted"] = {"runs": len(meta), "skipped_by_simulator": skipped, "precondition_not_met_or_tie": na,
                            "minus_strand_runs": sum(1 for m in meta.values() if m["strand"] < 0),
                            "with_pseudogene": sum(1 for m in meta.values() if m["pseudogene"]),
                            "with_error": sum(1 for m in meta.values() if m["error"])}
    # the same runs under the Pipeline spec (C10 clauses) at no extra cost
    rej10 = ctx.trace_batches("trace/PipelineTrace", "trace/PipelineTrace.cfg", rows10, label="PipelineTrace", chunk=400, group=lambda r: r["tid"])
    for x in rej10:
        if not x[1].startswith("UNDECIDED"):
            by.setdefault(x[0], "pipeline:" + x[1])
    for tid, clause in by.items():
        if tid in canaries or clause.startswith("NA:") or clause.startswith("UNDECIDED"):
            continue
        m = meta[tid]
        kinds = sorted({("ins" if "ins" in v else "del" if "del" in v else "mnp" if len(v.split(".")[-1]) > 3 else "snp")
                        for h in m["haps"] for v in h[1]})

        def near_indels(h):
            ps = sorted(int(v.split(".")[0]) for v in h[1] if "ins" in v or "del" in v)
            return any(b - a <= 25 for a, b in zip(ps, ps[1:]))

        ctx.violation(clause, {"stage": "end-to-end", "clause": clause, "kinds": ",".join(kinds),
                               "two_indels_within_25bp_on_one_haplotype": any(near_indels(h) for h in m["haps"]),
                               "deletion_of_one_copy_spans_variant_site_of_another_copy": bool(m.get("deletion_of_one_copy_spans_variant_site_of_another_copy"))}, m,
                      f"run {tid}: planted={m['planted']} haps={[(h[0], h[2]) for h in m['haps']]} reads={m['read_len']}x{m['depth']} result={m['result']} err={m['error'][:60]}")


def replay(path):
    print("C01 runs are re-created by running the check with the same seed; the replay file holds the database, genotype and result")
    return 0
