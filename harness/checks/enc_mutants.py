"""Development helper: detection power of the rule witnesses.
`/venv/bin/python -m harness.checks.enc_mutants [major|cn|minor ...]` runs, for every (stage, rule) in
enc.MUTANTS, `bin/mutant-run mutants/<diff> CENC quick` restricted to that stage (ENC_STAGES, ENC_SKIP_MC=1) and
reports whether the witness OF THAT RULE rejects the mutant (exit 1 and a violation whose fingerprint names the rule);
for enc.REDUNDANT_CONTROLS (deletion of a rule TLC found redundant at the bound) the run must exit 0.
Results: /verif/witness/mutant_results.json."""
import concurrent.futures
import json
import os
import re
import subprocess
import sys

from . import enc

VERIF = os.path.dirname(os.path.dirname(os.path.dirname(os.path.abspath(__file__))))


def one(item):
    (stage, K), diff, control = item
    env = dict(os.environ, ENC_STAGES=stage, ENC_SKIP_MC="1")
    p = subprocess.run([os.path.join(VERIF, "bin/mutant-run"), os.path.join(VERIF, "mutants", diff), "CENC", "quick"],
                       cwd=VERIF, env=env, capture_output=True, text=True)
    out = p.stdout + p.stderr
    m = re.search(r"exit=(\d+)", out)
    code = int(m.group(1)) if m else 0
    hits = re.findall(r"clause=(\S+) fingerprint=\{[^}]*'rule': '(\w+)'", out)
    own = [c for c, r in hits if r == K]
    if control:
        return {"stage": stage, "rule": K, "mutant": diff, "exit": code, "control": True, "own_witness_rejects": code == 0,
                "own_clause": "accepted (redundant rule)" if code == 0 else "REJECTED", "other_witnesses_rejecting": sorted({r for _, r in hits}),
                "tail": "" if code == 0 else out[-600:]}
    return {"stage": stage, "rule": K, "mutant": diff, "exit": code, "own_witness_rejects": bool(own),
            "own_clause": own[0] if own else None, "other_witnesses_rejecting": sorted({r for _, r in hits if r != K}),
            "tail": "" if code == 1 else out[-600:]}


def main(argv):
    stages = argv or ["major", "cn", "minor"]
    items = [(k, v, False) for k, v in enc.MUTANTS.items() if k[0] in stages]
    items += [(k, v, True) for k, v in enc.REDUNDANT_CONTROLS.items() if k[0] in stages]
    res = []
    with concurrent.futures.ThreadPoolExecutor(max_workers=int(os.environ.get("ENC_MUT_JOBS", "4"))) as ex:
        for r in ex.map(one, items):
            res.append(r)
            print(f"{r['stage']:6} {r['rule']:12} {r['mutant']:36} exit={r['exit']} own={r['own_witness_rejects']} "
                  f"clause={r['own_clause']} others={','.join(r['other_witnesses_rejecting'])}", flush=True)
            if r["tail"]:
                print("   ", r["tail"].replace("\n", "\n    "))
    path = os.path.join(VERIF, "witness", "mutant_results.json")
    old = []
    if os.path.exists(path):
        with open(path) as f:
            old = [o for o in json.load(f) if o["stage"] not in stages]
    with open(path, "w") as f:
        json.dump(old + [{k: v for k, v in r.items() if k != "tail"} for r in res], f, indent=1)
    bad = [r for r in res if not r["own_witness_rejects"]]
    print(f"{len(res) - len(bad)}/{len(res)} as expected (rule mutants rejected by their own witness, redundant-rule controls accepted)")
    return 1 if bad else 0


if __name__ == "__main__":
    sys.exit(main(sys.argv[1:]))
