"""X01 (extension) — Pharmacoscan probe tables are turned into matching evidence.

Route: detect_genome() -> kind "pscan" -> Sample._load_pscan -> _make_coverage -> Coverage; genotype() with the
structure fixed at two copies; databases aldy/resources/genes/pharmacoscan/*.yml (gene_db="pharmacoscan/<gene>").

Spec: spec/PscanInput.tla (Fetch / Skip* / Accept / KeepOrientation / Swap / SkipUnspecified / Count* / EndRow / Close over
norm[site], muts[site, op]; semantic layer Entries / Eff / Copies; invariants SupportProportional, ReferenceReduced, Untouched,
ReferenceCallsAreSilent, IgnoredAreNoOps, SwappedReexpressed, MultiAltPicksCalled, OrderIndependent, DiplotypeRecovered).
  MC : spec/mc/MC_PscanInput (8-base reference over {A, C}, five catalogued variants, every row with REF / one or two ALTs
       from {-, A, C, AA, AC, CA, CC} at four sites x 54 calls, rows elsewhere, every ordered pair of 31 focused rows, the
       42 diplotype tables).
  (A): every table of the MC universe (spec/gen/PscanInputGen; quick: every 7th single-row table + all focused 1/2-row
       tables + all diplotype tables) written as a real Pharmacoscan text file over the realised MC gene (+ and - strand),
       loaded by the real Sample(...) (pairs and plans also with the rows reversed), projected, validated by
       spec/trace/PscanTrace.tla; genotype() on the tables that carry a diplotype (the spec decides which: CarriesPair).
  (B): shipped pharmacoscan databases (both builds) and generated databases: a table with one probe row per database
       variant written from a catalogued diplotype by a writer that works from the YAML (gen_db.from_yaml) + independent
       coordinate maps: standard / swapped / multi-ALT / anchored rows, rows of other chromosomes and outside the gene,
       no-calls, shuffled order (loaded in two orders); same projection, same trace spec, genotype() with the expected
       diplotype; one combined table genotyped through a gene LIST ("pharmacoscan/a,pharmacoscan/b,...") and (thorough)
       through gene_db="pharmacoscan".
"""
import json
import os
import random
import time

from .. import aldyenv, gen_db, tlc
from ..core import MachineryError
from .c16 import DbView, MC_ORIGIN, _load_gene, _project_solution, kind_of, mc_db

PROP = "X01"
BASES = "ACGT"
NCOL = 22
HEADER_COLS = [
    "probeset_id", "call", "affy_snp_id", "Chr_id", "Start", "Stop", "Strand", "dbSNP_RS_ID", "dbSNP_Loctype", "In_Hapmap",
    "Strand_Vs_dbSNP", "Probe_Count", "Cytoband", "ChrX_pseudo_autosomal_1", "Flank", "Allele_A", "Allele_B", "Ref_Allele",
    "Alt_Allele", "Associated_Gene", "Genetic_Map", "Microsatellite",
]
assert len(HEADER_COLS) == NCOL


# --------------------------------------------------------------------------- table text
def write_table(path, frows, sample="S1"):
    """frows: dicts(chrom, start1, stop1, ref, alt, gt[, rsid]) written in the given order in the layout _load_pscan reads:
    tab-separated, comment lines '#...', one header line 'probeset_id\\t...', 19+ columns."""
    with open(path, "w") as f:
        f.write("##batch-folder=/data/axiom/batch1\n")
        f.write("#%export-time=2026-01-01\n#%genome-version=hg\n")
        cols = list(HEADER_COLS)
        cols[1] = sample + ".CEL_call_code"
        f.write("\t".join(cols) + "\n")
        for i, r in enumerate(frows):
            c = ["---"] * NCOL
            c[0] = f"AX-{100000 + i}"
            c[1] = r["gt"]
            c[2] = f"Affx-{i}"
            c[3] = str(r["chrom"])
            c[4] = str(r["start1"])
            c[5] = str(r["stop1"])
            c[6] = "+"
            c[7] = r.get("rsid", "rs0")
            c[17] = r["ref"]
            c[18] = r["alt"]
            f.write("\t".join(c) + "\n")
    return path


def frow_of(row, org):
    """spec row -> file row.  Stop is the last base of REF (1-based, inclusive); for a REF '-' row Start is the base the
    insertion follows and Stop the next one."""
    ref = "".join(row["ref"])
    start1 = row["pos"] + org + 1
    stop1 = start1 + 1 if ref == "-" else start1 + len(ref) - 1
    return dict(chrom=row["chrom"], start1=start1, stop1=stop1, ref=ref, alt="//".join("".join(a) for a in row["alts"]),
                gt="/".join("".join(a) for a in row["gt"]))


def srow(chrom, pos, ref, alts, gt):
    """texts -> spec row"""
    return dict(chrom=str(chrom), pos=pos, ref=list(ref), alts=[list(a) for a in alts], gt=[list(x) for x in gt.split("/")])


def segs_of(rows, view, org):
    """merged reference windows (relative sites) around the rows on the gene's chromosome"""
    iv = sorted((r["pos"] - 3, r["pos"] + len(r["ref"]) + 3) for r in rows)
    merged = []
    for a, b in iv:
        if merged and a <= merged[-1][1] + 1:
            merged[-1][1] = max(merged[-1][1], b)
        else:
            merged.append([a, b])
    return [{"lo": a, "b": [view.gref(p + org) for p in range(a, b + 1)]} for a, b in merged]


def spans_of(view, org):
    ps = sorted(view.c2r)
    out, a, prev = [], ps[0], ps[0]
    for p in ps[1:]:
        if p != prev + 1:
            out.append({"lo": a - org, "hi": prev - org})
            a = p
        prev = p
    out.append({"lo": a - org, "hi": prev - org})
    return out


# --------------------------------------------------------------------------- worker side
def _observe(gene, org, path, job):
    from aldy.gene import Mutation
    from aldy.profile import Profile
    from aldy.sam import Sample, detect_genome

    o = {"crash": "", "sites": [], "cov": []}
    try:
        kind = detect_genome(path)[0]
        if kind != "pscan":
            o["crash"] = "NotDetected:" + str(kind)
            return o
        s = Sample(gene, Profile("user_provided", cn_solution=["1", "1"]), path)
        cov = s.coverage
    except Exception as ex:
        o["crash"] = type(ex).__name__
        return o
    span = set(job["span"])
    dev = set()
    for p, ops in cov._coverage.items():
        if len(ops) == 1 and "_" in ops and len(ops["_"]) == 20:
            continue
        dev.add(p)
        if len(dev) > 400:
            break
    for p in sorted(span | dev):
        ops = cov._coverage.get(p, {})
        o["sites"].append({"s": p - org, "ops": sorted([str(op), len(v)] for op, v in ops.items() if not str(op).startswith("ins"))})
    keys = {tuple(k) for k in job.get("watch", [])}
    for (p, op) in gene.mutations:
        if p in span or cov[Mutation(p, op)] > 0:
            keys.add((p - org, op))
    for (p, op) in sorted(keys):
        m = Mutation(p + org, op)
        o["cov"].append({"site": p, "op": op, "kind": kind_of(op), "cov": int(cov[m]), "total": int(cov.total(m))})
    return o


def run_table(job):
    """Write the table (once per row order), load it with the real Sample, project the Coverage; genotype() when a call
    is expected.  Returns {id, obs, call, t}."""
    aldyenv.setup()
    gene, yml = _load_gene(job["src"])
    org = job["origin"]
    t_start = time.time()
    out = {"id": job["id"], "obs": [], "call": [], "t": 0}
    # detect_genome() wants '.txt'
    base = os.path.join(job["dir"], f"t{os.getpid()}_{job['id']}.txt")
    try:
        for order in job["orders"]:
            write_table(base, [job["frows"][i] for i in order])
            out["obs"].append(_observe(gene, org, base, job))
        if job.get("planted"):
            from aldy.genotype import genotype

            write_table(base, [job["frows"][i] for i in job["orders"][0]])
            call = {"planted": job["planted"], "sols": [], "crash": ""}
            try:
                with aldyenv.quiet_stderr():
                    res = genotype(job.get("gene_db") or yml, base, None, None, genome=job["src"]["genome"])
                key = [k for k in res if _res_name(k) == gene.name.upper()] or list(res)
                for sol in res[key[0]]:
                    call["sols"].append(_project_solution(sol, org))
            except Exception as ex:
                call["crash"] = type(ex).__name__
            out["call"].append(call)
        return out
    finally:
        out["t"] = int(1000 * (time.time() - t_start))
        try:
            os.unlink(base)
        except OSError:
            pass


def _res_name(k):
    """genotype() keys its result by the database it loaded (a path or a name): -> upper-case gene name"""
    k = os.path.basename(str(k))
    return (k[:-4] if k.lower().endswith(".yml") else k).upper()


def run_multi(job):
    """One combined table genotyped through a gene list / gene_db='pharmacoscan'.  Returns {gene name: [sols] | crash}."""
    aldyenv.setup()
    from aldy.genotype import genotype

    base = os.path.join(job["dir"], f"multi{os.getpid()}_{job['id']}.txt")
    write_table(base, job["frows"])
    out = {"id": job["id"], "res": {}, "crash": "", "t": 0}
    t0 = time.time()
    try:
        with aldyenv.quiet_stderr():
            res = genotype(job["gene_db"], base, None, None, genome=job["genome"])
        for name, sols in res.items():
            out["res"][_res_name(name)] = [_project_solution(sol, job["origins"].get(_res_name(name), 0)) for sol in sols]
    except Exception as ex:
        out["crash"] = type(ex).__name__
    finally:
        out["t"] = int(1000 * (time.time() - t0))
        try:
            os.unlink(base)
        except OSError:
            pass
    return out


def gene_event(src, org, view, alleles=None):
    gene, _ = _load_gene(src)
    cat = [[p - org, op, kind_of(op)] for (p, op) in sorted(gene.mutations)]
    return {"k": "gene", "chr": str(gene.chr), "spans": spans_of(view, org), "cat": cat, "alleles": alleles or []}


def _worker_init():
    aldyenv.setup()


def _pool():
    import multiprocessing

    n = max(2, min(int(os.environ.get("VERIF_JOBS", "8")), (os.cpu_count() or 4) - 2))
    return multiprocessing.get_context("fork").Pool(n, initializer=_worker_init)


def _dbg(*a):
    if os.environ.get("VERIF_DEBUG"):
        import sys

        print("[x01]", *a, file=sys.stderr, flush=True)


# --------------------------------------------------------------------------- (B) writer from the YAML
NOCALLS = ["---", "NoCall", "NotAvailable", "-/-/-"]


def variant_rows(view, v, copies, rng, style=None, bases=None):
    """Probe row (texts) of database variant v (DbView.variant) called with `copies` alternative copies.
    `bases`: the two bases the sample really has at a substitution site (a site with several catalogued
    substitutions: every probe of the site reports the same call).  Returns (dict with 0-based absolute pos, style)."""
    s = v["site"]
    if v["kind"] == "sub":
        g0, alt = view.gref(s), v["r"]
        style = style or rng.choices(["std", "swapped", "multialt"], [0.7, 0.15, 0.15])[0]
        call = list(bases) if bases else ([g0, g0] if copies == 0 else ([g0, alt] if copies == 1 else [alt, alt]))
        rng.shuffle(call)
        if style == "swapped":
            return dict(pos=s, ref=alt, alts=[g0], gt="/".join(call)), style
        if style == "multialt":
            other = rng.choice([b for b in BASES if b not in (g0, alt) and b not in call] or [b for b in BASES if b not in (g0, alt)])
            alts = [alt, other]
            rng.shuffle(alts)
            return dict(pos=s, ref=g0, alts=alts, gt="/".join(call)), style
        return dict(pos=s, ref=g0, alts=[alt], gt="/".join(call)), "std"
    if v["kind"] == "del":
        d = view.grefs(s, s + v["n"])
        style = style or rng.choices(["dash", "anchored"], [0.95, 0.05])[0]
        if style == "anchored":
            a = view.gref(s - 1)
            r_, a_ = a + d, a
            call = [r_, r_] if copies == 0 else ([r_, a_] if copies == 1 else [a_, a_])
            rng.shuffle(call)
            return dict(pos=s - 1, ref=r_, alts=[a_], gt="/".join(call)), style
        call = [d, d] if copies == 0 else ([d, "-"] if copies == 1 else ["-", "-"])
        rng.shuffle(call)
        return dict(pos=s, ref=d, alts=["-"], gt="/".join(call)), "dash"
    if v["kind"] == "ins":
        x = v["ins"]
        style = style or rng.choices(["dash", "anchored"], [0.95, 0.05])[0]
        if style == "anchored":
            a = view.gref(s)
            r_, a_ = a, a + x
            call = [r_, r_] if copies == 0 else ([r_, a_] if copies == 1 else [a_, a_])
            rng.shuffle(call)
            return dict(pos=s, ref=r_, alts=[a_], gt="/".join(call)), style
        call = ["-", "-"] if copies == 0 else (["-", x] if copies == 1 else [x, x])
        rng.shuffle(call)
        return dict(pos=s, ref="-", alts=[x], gt="/".join(call)), "dash"
    raise ValueError(v)


def db_variants(db, view, gene, mismatched=None):
    """writable database variants: key -> DbView.variant.  A variant whose written reference bases are not the bases of
    the genome reference at its site (the database contradicts its own sequence) cannot be written as a probe row whose
    REF is the reference: it is left out (and reported in `mismatched`)."""
    out = {}
    for pos, op in gen_db.written_variants(db):
        v = view.variant(pos, op)
        if v is None or v["kind"] == "mnp" or v["key"] not in gene.mutations:
            continue
        if (v["kind"] == "sub" and view.gref(v["site"]) != v["l"]) or (v["kind"] == "del" and "del" + view.grefs(v["site"], v["site"] + v["n"]) != v["key"][1]):
            if mismatched is not None:
                mismatched.append([v["key"][0], v["key"][1], view.grefs(v["site"], v["site"] + v.get("n", 1))])
            continue
        out[v["key"]] = v
    return out


def catalogue(db, view, gene, variants):
    """minor-level alleles of the default structure that can be written: [(major, minor name, [keys])]"""
    yaml_rows = {}
    for a in db["alleles"]:
        if a.get("structural"):
            continue
        nm = a["name"].split("*", 1)[1].replace("/", "_") if "*" in a["name"] else a["name"]
        yaml_rows[nm] = [(m[0], m[1]) for m in a["mutations"]]
    out = []
    for an, a in gene.alleles.items():
        if a.cn_config != "1":
            continue
        for mn in a.minors:
            if mn not in yaml_rows:
                continue
            keys, ok = [], True
            for pos, op in yaml_rows[mn]:
                v = view.variant(pos, op)
                if v is None or v["key"] not in variants:
                    ok = False
                    break
                keys.append(v["key"])
            loaded = {(m.pos, m.op) for m in a.func_muts} | {(m.pos, m.op) for m in a.minors[mn].neutral_muts}
            if ok and len(set(keys)) == len(keys) and set(keys) == loaded:
                out.append((str(an), str(mn), sorted(keys)))
    return out


def build_table(rng, view, gene, variants, a_keys, b_keys, org, extra=True, styles=None):
    """The probe table of diplotype a/b: one row per database variant + rows that must be ignored.
    Returns dict(rows=[spec rows], flags, pure)."""
    flags, rows = set(), []
    chrom = str(view.chrom)
    carried = {}
    for k in list(a_keys) + list(b_keys):
        carried[k] = carried.get(k, 0) + 1
    # the two bases the sample has at every substitution site (reference unless the haplotype carries a substitution there)
    site_bases = {}
    for hap, keys in enumerate((a_keys, b_keys)):
        for k in keys:
            if variants[k]["kind"] == "sub":
                sb = site_bases.setdefault(k[0], [None, None])
                if sb[hap] is not None:
                    return None  # two substitutions of one haplotype at one site
                sb[hap] = variants[k]["r"]
    nocall_budget = 2 if extra else 0
    for k, v in sorted(variants.items()):
        n = carried.get(k, 0)
        bases = None
        if v["kind"] == "sub" and k[0] in site_bases:
            bases = [b if b is not None else view.gref(k[0]) for b in site_bases[k[0]]]
            if sum(1 for b in bases if b not in (view.gref(k[0]), v["r"])):
                flags.add("tri-allelic")
        r, st = variant_rows(view, v, n, rng, (styles or {}).get(v["kind"]), bases)
        if n:
            flags.add(v["kind"])
            if st not in ("std", "dash"):
                flags.add(st)
        elif bases:
            pass  # another substitution of this site is carried: the probe reports the sample's bases
        elif nocall_budget and rng.random() < 0.08:
            nocall_budget -= 1
            r["gt"] = rng.choice(NOCALLS)  # a probe without a diploid call: not carried, so nothing is lost
            flags.add("nocall")
        elif extra and v["kind"] == "sub" and rng.random() < 0.03:
            x = rng.choice([b for b in BASES if b not in [r["ref"]] + list(r["alts"])])
            r["gt"] = f"{x}/{view.gref(v['site'])}"  # a called base the row does not name (and the reference)
            flags.add("unnamed")
        rows.append(srow(chrom, r["pos"] - org, r["ref"], r["alts"], r["gt"]))
    pure = True
    if extra:
        others = [c for c in ["1", "2", "6", "7", "10", "19", "22", "X"] if c != chrom]
        picks = rng.sample(sorted(variants), min(len(variants), rng.choice([1, 2, 3])))
        for k in picks:  # probes of another gene at the same numeric position of another chromosome, called homozygous
            r, _ = variant_rows(view, variants[k], 2, rng, "std" if variants[k]["kind"] == "sub" else "dash")
            rows.append(srow(rng.choice(others), r["pos"] - org, r["ref"], r["alts"], r["gt"]))
            flags.add("otherchrom")
        for _ in range(rng.choice([1, 2])):  # same chromosome, outside the gene: beyond the pile-up and in its margin
            far = rng.choice([view.lo - rng.randint(800, 5000), view.hi + rng.randint(50, 5000), view.lo - rng.randint(1, 450)])
            if far > 10:
                b = rng.choice(BASES)
                alt = rng.choice([x for x in BASES if x != b])
                rows.append(srow(chrom, far - org, b, [alt], rng.choice([f"{alt}/{alt}", f"{b}/{alt}"])))
                flags.add("outside")
        if rng.random() < 0.3:  # an uncatalogued SNV inside the gene, homozygous reference (or, impure, het)
            for _ in range(50):
                s = rng.randint(view.lo + 5, view.hi - 5)
                if view.gref(s) in BASES and all(abs(s - k[0]) > 5 for k in variants):
                    g0 = view.gref(s)
                    alt = rng.choice([b for b in BASES if b != g0])
                    het = rng.random() < 0.3
                    rows.append(srow(chrom, s - org, g0, [alt], f"{g0}/{alt}" if het else f"{g0}/{g0}"))
                    flags.add("novel-het" if het else "novel-homref")
                    pure = pure and not het
                    break
    rng.shuffle(rows)
    return dict(rows=rows, flags=sorted(flags), pure=pure)


TAGS = ["prefix", "substring", "two-alts", "ins", "two-rows", "unnamed", "ins+1", "swapped", "multialt"]


def fingerprint(binding, clause, tag, how, after=None):
    """tag: the shapes of the rows behind the disagreement (PscanTrace!Tag: the tags present, joined by ','), also as
    one boolean per tag (t_<tag>) so that a known finding can name exactly the shape it depends on; how: how the
    observation differs (lost / short / excess / ref-kept / ref-lost / crash / other-call ...).  A failed call
    (DiplotypeRecovered) carries `after`: 'clean-load' when the evidence of the same table was accepted and only the
    call is wrong, 'known-load-finding' when every site-level rejection of the table is a registered known finding,
    'new-load-violation' otherwise."""
    name, _, detail = tag.partition(":")
    tags = set((detail if name.startswith("call") else tag).split(",")) if (name.startswith("call") or ":" not in tag) else set()
    fp = {"route": "pscan", "binding": binding, "clause": clause, "tag": tag, "how": how}
    for t in TAGS:
        fp["t_" + t] = t in tags
    if clause == "DiplotypeRecovered":
        fp["after"] = after or "clean-load"
    return fp


def known_match(findings, clause, fp):
    from ..core import _fp_match

    return [f["id"] for f in findings if f.get("status") == "known" and f["clause"] == clause and _fp_match(f["fingerprint"], fp)]


def after_of(findings, binding, vs):
    """vs: the rejections [clause, tag, site, how] of one table -> the `after` value for its failed call"""
    load = [v for v in vs if v[0] != "DiplotypeRecovered" and not v[0].startswith("Machinery:")]
    if not load:
        return "clean-load"
    if all(known_match(findings, v[0], fingerprint(binding, v[0], v[1], v[3])) for v in load):
        return "known-load-finding"
    return "new-load-violation"


# --------------------------------------------------------------------------- main
def run(ctx):
    quick = ctx.tier == "quick"
    rng = random.Random(10100 + ctx.seed)
    ctx.rule = (
        "MC: every single-row table over ALL rows with REF and one or two ALTs from {-, A, C, AA, AC, CA, CC} at 4 sites x 54 calls "
        "(49 diploid, 5 not), rows on another chromosome / outside the gene, every ordered pair of 31 focused rows, 42 diplotype tables. "
        "(A) those tables written as real Pharmacoscan text files over the realised MC gene on both strands and loaded by the real Sample; "
        "(B) tables written from catalogued diplotypes of shipped pharmacoscan databases and generated databases by an independent "
        "YAML-based writer. distinct = distinct (gene, build, table text); non-trivial = at least one called alternative copy."
    )
    ctx.trusted = [
        "harness/checks/x01.py table writer and Coverage projection", "harness/checks/c16.py DbView / mc_db (independent maps, realised MC gene)",
        "harness/gen_db.py (independent YAML reader and maps)", "TLC", "allele membership (which variants form a major/minor allele) as loaded by aldy (C09)",
    ]
    ctx.assumptions = [
        "column layout: 0 probeset_id, 1 call, 3 Chr_id, 4 Start, 5 Stop (last REF base), 17 Ref_Allele, 18 Alt_Allele ('//' separates alternatives), "
        "tab separated, '#' comment lines, first line '##batch-folder', extension .txt (what detect_genome / _load_pscan read)",
        "a REF '-' row names in Start the base the insertion follows (the catalogue's key); indels are written at their catalogued position",
        "rows whose REF is neither the reference nor (single ALT) swapped, and called shapes other than substitution / deletion / insertion "
        "(multi-base substitutions, delins) are not covered by the statement: their sites are not compared",
        "sites that receive more than two alternative copies are not compared (only order independence is)",
        "the '_' count at the anchor of an insertion is free; total(m) - coverage[m] is fixed for a catalogued insertion; uncatalogued insertions are not compared",
        "alleles containing multi-base substitutions / delins and structural alleles are not planted",
    ]
    from concurrent.futures import ThreadPoolExecutor

    scratch = tlc.scratch()
    out = os.path.join(scratch, "pscan_tables.ndjson")
    genv = {"OUT_FILE": out, "GEN_MODE": "quick" if quick else "full", "GEN_K": 7, "GEN_S": ctx.seed % 7}
    pool = _pool()  # forked before aldy/ortools are imported and before threads start
    try:
        with ThreadPoolExecutor(max_workers=2) as tp:
            fgen = tp.submit(ctx.mc, "gen/PscanInputGen", "gen/PscanInputGen.cfg", workers=1, env=genv, label="PscanInputGen", timeout=3000)
            if quick:
                fmc = tp.submit(ctx.mc, "mc/MC_PscanInput", "mc/MC_PscanInput_quick.cfg", workers=4, label="MC_PscanInput(quick: U2 tables + plans)")
            else:
                fmc = tp.submit(ctx.mc, "mc/MC_PscanInput", "mc/MC_PscanInput.cfg", workers=8, label="MC_PscanInput(full)", timeout=3600)

            def spec_level():
                fmc.result()
                # the spec must reject a loop that sets a site's reference support from the row at hand only
                rh = ctx.mc("mc/MC_PscanInput", "mc/MC_PscanInput_hazard.cfg", workers=2, expect_ok=False, label="MC_PscanInput(hazard: reference not cumulative)")
                if rh.violated != "ReferenceReduced":
                    raise MachineryError(f"hazard configuration MC_PscanInput_hazard.cfg: expected a ReferenceReduced counterexample, got {rh.violated}")
                ctx.parts["spec_hazard"] = {"cfg": "MC_PscanInput_hazard.cfg", "violated": rh.violated}

            try:
                _run_bindings(ctx, rng, quick, pool, out, fgen, spec_level)
            finally:
                for f in (fgen, fmc):
                    try:
                        f.result()
                    except Exception:
                        pass
    finally:
        pool.terminate()
        pool.join()


def _run_bindings(ctx, rng, quick, pool, out, fgen, spec_level):
    aldyenv.setup()
    from .. import genes as genes_mod

    scratch = tlc.scratch()
    t0 = time.time()
    meta, jobs_by_id, events = {}, {}, {}
    chunks = []  # self-contained row lists (gene event first), validated by parallel TLC runs
    # =============================================================== (B)
    t1 = time.time()
    jid = 10 ** 6  # (A) uses 1.., (B) 1,000,001.., the combined tables 1,500,001.., canaries 10,000,001..
    pdir = os.path.join(genes_mod.genes_dir(), "pharmacoscan")
    names = sorted(fn[:-4] for fn in os.listdir(pdir) if fn.endswith(".yml"))
    if quick:
        core = ["cyp2d6", "cyp2c19", "g6pd", "cyp3a5", "ugt1a1", "tpmt", "cyp2a13", "nat1", "cyp2c9", "cftr"]
        rest = [n for n in names if n not in core and n not in ("dpyd", "cyp2w1", "gstm1", "cyp4b1")]
        chosen = [(n, rng.choice(["hg19", "hg38"])) for n in core + rng.sample(rest, 3)]
        per_gene = 5
    else:
        chosen = [(n, b) for n in names for b in ("hg19", "hg38") if not (n == "cyp4b1" and b == "hg19")]
        per_gene = 40
    targets = []
    for n, build in chosen:
        path = os.path.join(pdir, n + ".yml")
        targets.append(({"kind": "yml", "path": path, "genome": build}, gen_db.from_yaml(path), build, n, f"pharmacoscan/{n}"))
    for i in range(3 if quick else 30):
        noindel = i % 3 == 2
        kinds = dict(sub=5, msub=0.3, **{"del": 0 if noindel else 2.5, "ins": 0 if noindel else 2.5, "delins": 0})
        db = gen_db.random_db(
            random.Random(rng.random()), name=f"GEN{i}", pseudogene=False, deletion=False, fusions=dict(left=0, right=0),
            strands=rng.choice([("-", "-"), ("-", "+"), ("+", "-"), ("+", "+")]), kinds=kinds, p_functional=0.6, n_variants=(8, 16),
        )
        p = os.path.join(scratch, f"xgen{i}.yml")
        gen_db.realise(db, p)
        build = rng.choice(["hg19", "hg38"])
        targets.append(({"kind": "yml", "path": p, "genome": build}, db, build, f"gen{i}", None))
    bjobs, gene_rows_b, tinfo = [], {}, {}
    stats = {"diplotypes": 0, "flags": {}, "no_writable_alleles": [], "db_variant_contradicts_reference": {}}
    for src, db, build, label0, gene_db_arg in targets:
        label = f"{label0}:{build}"
        gene, _ = _load_gene(src)
        org = gene._lookup_range[0]
        view = DbView(db, build)
        probe = [rng.randint(view.lo, view.hi) for _ in range(50)]
        if any(view.gref(p) != gene[p] for p in probe) or set(view.c2r) != set(gene.chr_to_ref):
            raise MachineryError(f"{label}: independent genome-oriented reference / map disagrees with the loaded gene")
        gene_rows_b[label] = gene_event(src, org, view)
        mism = []
        variants = db_variants(db, view, gene, mism)
        if mism:
            stats["db_variant_contradicts_reference"][label] = mism
        cat = catalogue(db, view, gene, variants)
        tinfo[label] = dict(src=src, db=db, build=build, view=view, variants=variants, cat=cat, org=org, gene_db=gene_db_arg, name=gene.name.upper())
        if not cat:
            stats["no_writable_alleles"].append(label)
            continue
        size = gene.get_wide_region().end - gene.get_wide_region().start
        # genotype() costs ~1.8 s per 20 kb of gene region (four passes over every site): a time budget per gene
        est = 1.8 * max(1.0, size / 20000.0)
        call_cap = (4 if size < 40000 else (2 if size < 110000 else (1 if size < 300000 else 0))) if quick else (0 if size > 400000 else max(1, min(12, int(50 / est))))
        refs = [c for c in cat if not c[2]]
        pairs = []
        pool_ = list(cat)
        rng.shuffle(pool_)
        pool_.sort(key=lambda c: -sum(1 for k in c[2] if variants[k]["kind"] != "sub"))  # alleles with indels first
        # tri-allelic sites: a diplotype carrying both alternatives of one site (rows sharing a site)
        by_site = {}
        for c in cat:
            for k in c[2]:
                by_site.setdefault(k[0], {}).setdefault(k, c)
        for s_, d in sorted(by_site.items()):
            if len(d) > 1:
                cs = list(d.values())
                if not (set(cs[0][2]) & set(cs[1][2])):
                    pairs.append((cs[0], cs[1]))
        pairs = pairs[:2 if quick else 6]
        for c in pool_[:per_gene]:
            x = rng.random()
            other = c if x < 0.25 else (rng.choice(refs) if refs and x < 0.6 else rng.choice(cat))
            pairs.append((c, other))
        calls = 0
        for a, b in pairs:
            stats["diplotypes"] += 1
            tb = build_table(rng, view, gene, variants, a[2], b[2], org)
            if tb is None:
                continue
            for k in tb["flags"]:
                stats["flags"][k] = stats["flags"].get(k, 0) + 1
            jid += 1
            planted = None
            if tb["pure"] and calls < call_cap:
                calls += 1
                planted = {"names": [a[0], b[0]], "vs": sorted([k[0] - org, k[1]] for k in a[2] + b[2])}
            rows = tb["rows"]
            span = set()
            for r in rows:
                if True:
                    span.update(p for p in range(r["pos"] + org - 1, r["pos"] + org + len(r["ref"]) + 2) if p in view.c2r)
            perm = list(range(len(rows)))
            rng.shuffle(perm)
            orders = [list(range(len(rows))), perm]
            j = dict(id=jid, src=src, origin=org, dir=scratch, frows=[frow_of(r, org) for r in rows], orders=orders, span=sorted(span),
                     watch=[[k[0] - org, k[1]] for k in sorted(set(a[2] + b[2]))], planted=planted,
                     gene_db=gene_db_arg if (gene_db_arg and rng.random() < 0.5) else None)
            bjobs.append(j)
            jobs_by_id[jid] = j
            meta[jid] = dict(binding="B", gene=label, build=build, strand=view.strand, diplotype=[a[1], b[1]], majors=[a[0], b[0]], flags=tb["flags"],
                             rows=rows, src=src, db=(db if gene_db_arg is None else None))
    big = ("dpyd", "ugt1a1", "cftr", "slco1b1", "cyp2c19", "nat1", "cyp2c9")
    order = sorted(bjobs, key=lambda j: (j["planted"] is None, min([big.index(b) for b in big if b in j["src"]["path"]] or [99])))
    for res in pool.imap_unordered(run_table, order, chunksize=1):
        events[res["id"]] = res
    _dbg("B executed", len(bjobs), round(time.time() - t1, 1))
    if os.environ.get("VERIF_DEBUG"):
        tt = {}
        for j in bjobs:
            tt.setdefault((meta[j["id"]]["gene"], bool(j["planted"])), []).append(events[j["id"]]["t"])
        _dbg("B ms per (gene, call):", {k: (len(v), sum(v) // len(v)) for k, v in sorted(tt.items())})
    by_label = {}
    for j in bjobs:
        res, m = events[j["id"]], meta[j["id"]]
        ti = tinfo[m["gene"]]
        ev = {"k": "table", "id": j["id"], "rows": m["rows"], "segs": segs_of(m["rows"], ti["view"], ti["org"]), "obs": res["obs"], "call": res["call"]}
        events[j["id"]] = ev
        by_label.setdefault(m["gene"], []).append(ev)
        ctx.traces += len(ev["obs"]) + len(ev["call"])
        ctx.count(1, key=("B", m["gene"], json.dumps(j["frows"], sort_keys=True)), nontrivial=True)
    for label, evs in by_label.items():
        if chunks and len(chunks[-1]) + len(evs) < 250 and chunks[-1][0].get("alleles") == []:
            chunks[-1] += [gene_rows_b[label]] + evs
        else:
            chunks.append([gene_rows_b[label]] + evs)
    ctx.parts["B"] = {"genes": sorted(tinfo), "tables": len(bjobs), "with_genotype": sum(1 for j in bjobs if j["planted"]), "diplotypes": stats["diplotypes"],
                      "flags": stats["flags"], "no_writable_alleles": stats["no_writable_alleles"],
                      "db_variant_contradicts_reference": stats["db_variant_contradicts_reference"], "wall_s": round(time.time() - t1, 1)}
    for j in bjobs[:2]:
        ctx.sample({"binding": "B", "meta": {k: v for k, v in meta[j["id"]].items() if k not in ("db", "src", "rows")}, "table": j["frows"][:12],
                    "observed": {"obs": [{k: v[:8] if isinstance(v, list) else v for k, v in o.items()} for o in events[j["id"]]["obs"][:1]], "call": events[j["id"]]["call"]}})

    # =============================================================== (B2) one table, several genes
    t2 = time.time()
    multi_rows = _multi_gene(ctx, rng, quick, pool, tinfo, scratch, meta, jobs_by_id, events, chunks, gene_rows_b, jid)
    ctx.parts["B"]["multi_gene"] = dict(multi_rows, wall_s=round(time.time() - t2, 1))

    # =============================================================== (A)
    spec_level()
    rgen = fgen.result()  # the generator and the model checker ran while (B) executed
    t0 = time.time()
    lines = tlc.read_ndjson(out)
    gline, tables = lines[0], lines[1:]
    got = [p for p in rgen.prints if p[1] == "TABLES"]
    if not got or got[0][2] != len(tables):
        raise MachineryError("PscanInputGen emission mismatch")
    srcs, views = {}, {}
    c16_gline = {"window": gline["window"], "alleles": gline["alleles"]}
    for strand in "+-":
        p = os.path.join(scratch, f"xmcg_{'p' if strand == '+' else 'm'}.yml")
        db = mc_db(c16_gline, strand)
        gen_db.realise(db, p)
        srcs[strand] = {"kind": "yml", "path": p, "genome": "hg19"}
        views[strand] = DbView(db, "hg19")
        g, _ = _load_gene(srcs[strand])
        want = sorted([MC_ORIGIN + s, op] for s, op in gline["cat"])
        if sorted([p_, op] for p_, op in g.mutations) != want or g[MC_ORIGIN:MC_ORIGIN + 8] != "".join(gline["window"]):
            raise MachineryError(f"realised MC gene ({strand}) does not match the spec's gene: {sorted(g.mutations)} vs {want}")
        if spans_of(views[strand], MC_ORIGIN) != gline["spans"] or str(g.chr) != gline["chr"]:
            raise MachineryError(f"realised MC gene ({strand}): spans {spans_of(views[strand], MC_ORIGIN)} / chr {g.chr} differ from the spec's")
    mc_alleles = [{"name": a["name"], "vs": a["vs"]} for a in gline["alleles"]]
    vs_of = {a["name"]: a["vs"] for a in gline["alleles"]}
    jobs = []
    jid = 0
    ncall = {"11": 0}
    for f in tables:
        rows = f["rows"]
        multi = f["kind"] in ("pair", "plan")
        both = f["id"] % 5 == 0 or f["kind"] == "plan" or (not quick and f["kind"] == "pair")
        for strand in ("+-" if both else "+-"[(f["id"] + ctx.seed) % 2]):
            jid += 1
            planted = None
            if f["pair"]:
                a, b = f["pair"]
                if (a, b) != ("1", "1"):
                    want = f["kind"] != "single" or not quick or rng.random() < 0.25
                else:
                    ncall["11"] += 1
                    want = ncall["11"] % (300 if quick else 40) == 1
                if want:
                    planted = {"names": [a, b], "vs": sorted(vs_of[a] + vs_of[b])}
            view = views[strand]
            span = set()
            for r in rows:
                span.update(p for p in range(r["pos"] + MC_ORIGIN - 1, r["pos"] + MC_ORIGIN + len(r["ref"]) + 2) if p in view.c2r)
            orders = [list(range(len(rows)))] + ([list(reversed(range(len(rows))))] if multi else [])
            j = dict(id=jid, src=srcs[strand], origin=MC_ORIGIN, dir=scratch, frows=[frow_of(r, MC_ORIGIN) for r in rows], orders=orders,
                     span=sorted(span), watch=[[s, op] for s, op in gline["cat"]], planted=planted)
            jobs.append(j)
            jobs_by_id[jid] = j
            meta[jid] = dict(binding="A", strand=strand, table=f["id"], kind=f["kind"], rows=rows, gene="MCG", gline=True)
    for res in pool.imap_unordered(run_table, jobs, chunksize=16):
        events[res["id"]] = res
    _dbg("A executed", len(jobs), round(time.time() - t0, 1))
    chunks_rows = {"+": [], "-": []}
    for j in jobs:
        res, m = events[j["id"]], meta[j["id"]]
        ev = {"k": "table", "id": j["id"], "rows": m["rows"], "segs": segs_of(m["rows"], views[m["strand"]], MC_ORIGIN),
              "obs": res["obs"], "call": res["call"]}
        events[j["id"]] = ev
        chunks_rows[m["strand"]].append(ev)
        ctx.traces += len(ev["obs"]) + len(ev["call"])
        nontrivial = any(o["cov"] and any(c["cov"] for c in o["cov"]) or any(len(s["ops"]) != 1 for s in o["sites"]) for o in ev["obs"])
        ctx.count(1, key=("A", m["strand"], json.dumps(j["frows"], sort_keys=True)), nontrivial=nontrivial)
    ctx.parts["A"] = {"tables_from_tlc": len(tables), "executions": sum(len(j["orders"]) for j in jobs), "with_genotype": sum(1 for j in jobs if j["planted"]),
                      "wall_s": round(time.time() - t0, 1)}
    sj = next(j for j in jobs if meta[j["id"]]["kind"] == "plan" and j["planted"] and j["planted"]["names"] == ["2", "4"])
    ctx.sample({"binding": "A", "table": sj["frows"], "planted": sj["planted"], "observed": {"obs": events[sj["id"]]["obs"][:1], "call": events[sj["id"]]["call"]}})
    gene_rows = {st: gene_event(srcs[st], MC_ORIGIN, views[st], mc_alleles) for st in "+-"}
    CH = 4000
    for st in "+-":
        evs_ = chunks_rows[st]
        for i in range(0, len(evs_), CH):
            chunks.append([gene_rows[st]] + evs_[i:i + CH])

    # =============================================================== canaries (derived from the events; judged below)
    canary = {}
    cid = 10 ** 7

    def anchor(e):
        """a supported substitution at a site only one row touches: (cov entry, site entry, row index)"""
        o = e["obs"][0]
        if o["crash"]:
            return None
        for x in o["cov"]:
            if x["cov"] in (10, 20) and x["kind"] == "sub":
                so = next((s_ for s_ in o["sites"] if s_["s"] == x["site"]), None)
                # no other row near the site (the sites around a row the statement does not cover are not compared)
                ri = [i for i, r_ in enumerate(e["rows"]) if r_["pos"] - 3 <= x["site"] <= r_["pos"] + len(r_["ref"]) + 3]
                if so is not None and len(ri) == 1 and sum(n for _, n in so["ops"]) == 20:
                    r_ = e["rows"][ri[0]]
                    if (len(r_["ref"]) == 1 and len(r_["alts"]) == 1 and r_["pos"] == x["site"] and x["op"] == f"{r_['ref'][0]}>{r_['alts'][0][0]}"
                            and len(r_["alts"][0]) == 1 and len(r_["gt"]) == 2 and all(g_ in (r_["ref"], r_["alts"][0]) for g_ in r_["gt"])):
                        return x, so, ri[0]
        return None

    cand = [e for e in events.values() if e.get("k") == "table" and anchor(e)]
    cand.sort(key=lambda e: e["id"])
    rng.shuffle(cand)
    canary_rows = []
    kinds_c = ["cov", "ref", "droprow", "spurious", "call", "chrom", "nocall", "order"]
    for n_, e in enumerate(cand[:32]):
        c = json.loads(json.dumps(e))
        cid += 1
        c["id"] = cid
        c["obs"] = c["obs"][:1]
        x, so, ri = anchor(c)
        kind = kinds_c[n_ % len(kinds_c)]
        if kind == "call" and not (c["call"] and c["call"][0]["sols"]):
            kind = "cov"
        if kind == "cov":
            x["cov"] = 30 - x["cov"]
        elif kind == "ref":
            so["ops"] = [[op, n] for op, n in so["ops"] if op != "_"] + [["_", 20]]
        elif kind == "droprow":
            del c["rows"][ri]
        elif kind == "chrom":
            c["rows"][ri]["chrom"] = "Y" if c["rows"][ri]["chrom"] != "Y" else "M"
        elif kind == "nocall":
            c["rows"][ri]["gt"] = [["-", "-", "-"]]
        elif kind == "spurious":
            s_ = next((s_ for s_ in c["obs"][0]["sites"] if s_["ops"] == [["_", 20]]), None)
            if s_ is None:
                continue
            s_["ops"] = [["A>C", 10], ["_", 10]]
        elif kind == "order":
            o2 = json.loads(json.dumps(c["obs"][0]))
            so2 = next(s_ for s_ in o2["sites"] if s_["s"] == x["site"])
            so2["ops"] = [[op, (n + 10 if op == "_" else n)] for op, n in so2["ops"]] if any(op == "_" for op, _ in so2["ops"]) else so2["ops"] + [["_", 10]]
            c["obs"].append(o2)
        elif kind == "call":
            c["call"][0]["sols"][0]["majors"] = ["@", "@"]
            c["call"][0]["sols"][0]["vs"] = c["call"][0]["sols"][0]["vs"] + [[0, "A>C"]]
        if kind != "call":
            c["call"] = []
        canary[cid] = (kind, e["id"])
        canary_rows.append((meta[e["id"]], c))
    crow = []
    for m, c in canary_rows:
        crow.append(gene_rows[m["strand"]] if m["binding"] == "A" else gene_rows_b[m["gene"]])
        crow.append(c)
    if crow:
        chunks.append(crow)

    # =============================================================== trace validation
    from concurrent.futures import ThreadPoolExecutor

    chunks.sort(key=len, reverse=True)
    with ThreadPoolExecutor(max_workers=4 if quick else 6) as tp:
        futs = [tp.submit(ctx.trace_batch, "trace/PscanTrace", "trace/PscanTrace.cfg", ch, label=f"PscanTrace{i}", timeout=3000, heap="3g")
                for i, ch in enumerate(chunks)]
        rej = [x for f in futs for x in f.result()]
    _dbg("trace done", sum(len(c) for c in chunks), len(chunks), round(time.time() - t1, 1))
    rejected = {}
    for rr in rej:
        rejected.setdefault(rr[0], []).append(rr[1:])
    ckinds = {}
    for c_id, (kind, srcid) in canary.items():
        if srcid in rejected:
            continue  # only canaries derived from accepted cases count
        ctx.canary(c_id in rejected)
        if c_id not in rejected:
            _dbg("canary ACCEPTED", kind, [c for m_, c in canary_rows if c["id"] == c_id])
        ckinds.setdefault(kind, [0, 0])
        ckinds[kind][0] += 1
        ckinds[kind][1] += int(c_id in rejected)
    ctx.parts["canaries_by_kind"] = ckinds
    nclause = {}
    for fid, vs in sorted(rejected.items()):
        if fid in canary:
            continue
        m = meta[fid]
        j = jobs_by_id[fid]
        after = after_of(ctx._findings, m["binding"], vs)
        for clause, tag, site, how in sorted(vs):
            if clause.startswith("Machinery:"):
                raise MachineryError(f"{clause} {tag} site={site} table={j['frows'][:6]} meta={ {k: v for k, v in m.items() if k not in ('db', 'rows')} }")
            fp = fingerprint(m["binding"], clause, tag, how, after)
            nkey = f"{clause}|{tag}|{how}" + (f"|after {after}" if clause == "DiplotypeRecovered" else "")
            nclause[nkey] = nclause.get(nkey, 0) + 1
            case = {
                "binding": m["binding"], "meta": {k: v for k, v in m.items() if k != "gline"},
                "gline": c16_gline if m["binding"] == "A" else None,
                "job": {k: j[k] for k in ("frows", "orders", "span", "watch", "planted", "origin", "gene_db") if k in j},
                "observed": events[fid], "verdict": [clause, tag, site, how],
            }
            ctx.violation(clause, fp, case,
                          f"{m.get('gene', 'MCG')}{m.get('strand')} {m.get('diplotype', '')} {tag} {how} site={site} table={[(r['start1'], r['ref'], r['alt'], r['gt']) for r in j['frows'][:3]]}")
    ctx.parts["rejections_by_clause_tag"] = nclause
    kn = {}
    for k in ctx.known:
        key = f"{k['id']}|{k['clause']}|{k['fingerprint']['how']}|{k['fingerprint']['binding']}"
        kn[key] = kn.get(key, 0) + 1
    ctx.parts["known_findings_by_clause_tag_binding"] = kn


def _multi_gene(ctx, rng, quick, pool, tinfo, scratch, meta, jobs_by_id, events, chunks, gene_rows_b, jid0):
    """One table with the probes of several shipped pharmacoscan genes (same build), genotyped through a comma-separated
    gene list (quick) and through gene_db='pharmacoscan' (thorough): the rows of the other genes are other-chromosome /
    outside-the-gene rows for each gene.  The per-gene loads are validated like any other table event."""
    info = {"runs": 0, "genes": 0}
    jid = 1500000
    runs = []
    for build in (["hg19"] if quick else ["hg19", "hg38"]):
        labels = [l for l, t in tinfo.items() if t["gene_db"] and t["build"] == build and t["cat"] and t["name"] not in ("DPYD",)]
        if len(labels) < 2:
            continue
        if quick:
            small = [l for l in labels if tinfo[l]["view"].hi - tinfo[l]["view"].lo < 70000]
            labels = sorted(small)[:3] if len(small) >= 2 else labels[:2]
        rows_abs, planted = [], {}
        for l in labels:
            t = tinfo[l]
            gene, _ = _load_gene(t["src"])
            tb = None
            while tb is None:
                a = rng.choice(t["cat"])
                b = rng.choice(t["cat"])
                tb = build_table(rng, t["view"], gene, t["variants"], a[2], b[2], 0, extra=False, styles={"sub": "std", "del": "dash", "ins": "dash"})
            rows_abs += tb["rows"]
            planted[l] = (a, b)
        rng.shuffle(rows_abs)
        frows = [frow_of(r, 0) for r in rows_abs]
        gene_dbs = [",".join(tinfo[l]["gene_db"] for l in labels)] if quick else [",".join(tinfo[l]["gene_db"] for l in labels[:4]), "pharmacoscan"]
        for gdb in gene_dbs:
            jid += 1
            runs.append((dict(id=jid, dir=scratch, frows=frows, gene_db=gdb, genome=build, origins={tinfo[l]["name"]: tinfo[l]["org"] for l in labels}),
                         labels if gdb == "pharmacoscan" else [l for l in labels if tinfo[l]["gene_db"] in gdb.split(",")], planted, rows_abs))
    results = pool.map(run_multi, [r[0] for r in runs], chunksize=1)
    per_gene_jobs = []
    for (job, labels, planted, rows_abs), res in zip(runs, results):
        info["runs"] += 1
        for l in labels:
            t = tinfo[l]
            a, b = planted[l]
            org = t["org"]
            rows = [dict(r, pos=r["pos"] - org) for r in rows_abs]
            jid += 1
            call = {"planted": {"names": [a[0], b[0]], "vs": sorted([k[0] - org, k[1]] for k in a[2] + b[2])}, "sols": res["res"].get(t["name"], []),
                    "crash": res["crash"] or ("" if t["name"] in res["res"] else "GeneMissingFromResult")}
            span = set()
            view = t["view"]
            for r in rows:
                if r["chrom"] == str(view.chrom):
                    span.update(p for p in range(r["pos"] + org - 1, r["pos"] + org + len(r["ref"]) + 2) if p in view.c2r)
            j = dict(id=jid, src=t["src"], origin=org, dir=scratch, frows=job["frows"], orders=[list(range(len(rows)))], span=sorted(span),
                     watch=[[k[0] - org, k[1]] for k in sorted(set(a[2] + b[2]))], planted=None, gene_db=job["gene_db"])
            per_gene_jobs.append((j, call, l, rows))
            info["genes"] += 1
    for res, (j, call, l, rows) in zip(pool.map(run_table, [x[0] for x in per_gene_jobs], chunksize=1), per_gene_jobs):
        t = tinfo[l]
        ev = {"k": "table", "id": j["id"], "rows": rows, "segs": segs_of([r for r in rows if r["chrom"] == str(t["view"].chrom) and t["view"].lo - 50 <= r["pos"] + t["org"] <= t["view"].hi + 50], t["view"], t["org"]),
              "obs": res["obs"], "call": [call]}
        events[j["id"]] = ev
        jobs_by_id[j["id"]] = dict(j, planted=call["planted"], multi=True)
        meta[j["id"]] = dict(binding="B", gene=l, build=t["build"], strand=t["view"].strand, diplotype=call["planted"]["names"], flags=["multi-gene"], rows=rows,
                             src=t["src"], db=None, multi=True)
        chunks.append([gene_rows_b[l], ev])
        ctx.traces += 2
        ctx.count(1, key=("B2", l, j["gene_db"], json.dumps(j["frows"][:50], sort_keys=True)), nontrivial=True)
    return info


def replay(path):
    from ..core import Ctx

    aldyenv.setup()
    with open(path) as f:
        case = json.load(f)["case"]
    ctx = Ctx(PROP, "quick", 0)
    scratch = tlc.scratch()
    m = case["meta"]
    if case["binding"] == "A":
        p = os.path.join(scratch, "xmcg.yml")
        db = mc_db(case["gline"], m["strand"])
        gen_db.realise(db, p)
        src = {"kind": "yml", "path": p, "genome": "hg19"}
        view = DbView(db, "hg19")
        alleles = [{"name": a["name"], "vs": a["vs"]} for a in case["gline"]["alleles"]]
    elif m.get("db"):
        p = os.path.join(scratch, "xgen.yml")
        gen_db.realise(m["db"], p)
        src = {"kind": "yml", "path": p, "genome": m["build"]}
        view = DbView(m["db"], m["build"])
        alleles = None
    else:
        src = dict(m["src"])
        # the stored path points into the tree the case was recorded on: re-anchor it in the tree under test
        from .. import genes as genes_mod

        src["path"] = os.path.join(genes_mod.genes_dir(), "pharmacoscan", os.path.basename(src["path"]))
        view = DbView(gen_db.from_yaml(src["path"]), m["build"])
        alleles = None
    job = case["job"]
    org = job["origin"]
    j = dict(job, id=1, src=src, dir=scratch)
    multi_call = None
    if m.get("multi"):
        # the combined table: re-run the gene list, then the per-gene load
        multi_call = run_multi(dict(id=1, dir=scratch, frows=job["frows"], gene_db=job["gene_db"], genome=m["build"],
                                    origins={_load_gene(src)[0].name.upper(): org}))
        j["planted"] = None
    res = run_table(j)
    call = res["call"]
    if multi_call is not None:
        name = _load_gene(src)[0].name.upper()
        call = [{"planted": job["planted"], "sols": multi_call["res"].get(name, []),
                 "crash": multi_call["crash"] or ("" if name in multi_call["res"] else "GeneMissingFromResult")}]
    rows = m["rows"]
    near = [r for r in rows if not m.get("multi") or (r["chrom"] == str(view.chrom) and view.lo - 50 <= r["pos"] + org <= view.hi + 50)]
    ev = {"k": "table", "id": 1, "rows": rows, "segs": segs_of(near, view, org), "obs": res["obs"], "call": call}
    rej = ctx.trace_batch("trace/PscanTrace", "trace/PscanTrace.cfg", [gene_event(src, org, view, alleles), ev], label="replay")
    print("table rows (Chr_id, Start, Stop, Ref_Allele, Alt_Allele, call):")
    for r in job["frows"][:40]:
        print("   ", r["chrom"], r["start1"], r["stop1"], r["ref"], r["alt"], r["gt"])
    print("observed now:", json.dumps({"obs": [{k: (v if k == "crash" else [x for x in v if k == "cov" and x["cov"] or k == "sites" and x["ops"] != [["_", 20]]]) for k, v in o.items()} for o in res["obs"]], "call": call})[:3000])
    # rejections that are registered known findings do not make the replay fail (the stored case may also
    # contain rows that hit one); anything else does
    after = after_of(ctx._findings, case["binding"], [r[1:] for r in rej])
    fresh = []
    for r in rej:
        known = known_match(ctx._findings, r[1], fingerprint(case["binding"], r[1], r[2], r[4], after))
        if known:
            print(f"  known finding {known[0]}: {r[1:]}")
        else:
            fresh.append(r[1:])
    if fresh:
        print(f"VIOLATION property={PROP} replay={path}")
        print("  rejected:", fresh)
        return 1
    print("replay: accepted" + (" (apart from known findings)" if rej else ""))
    return 0
