"""C11 — the diplotype is a faithful arrangement of the called alleles.

Spec: spec/Diplotype.tla (postconditions = the property; the heuristic as a phase machine).
  MC  : spec/mc/MC_Diplotype — every sequence of 0..4 (quick) / 0..6 (thorough) alleles over
        {1,2,4,13} x {-,C}, tandem lists {}, {13,1}, {1,4}, {13,1;1,4}: the heuristic satisfies
        the postconditions; with the same-number tandem {2,2} it does NOT (design finding,
        MC_Diplotype_same_*.cfg are expected to fail); with the proposed repair it does.
  (A) : every case of that universe (spec/gen/DiplotypeGen, ndJsonSerialize) realised on a
        generated toy-derived gene and run through the real estimate_diplotype +
        get_major_diplotype + get_minor_diplotype; spec/trace/DiplotypeTrace validates the REAL
        result against the postconditions (a different valid arrangement is accepted).
  (B) : random bags of 0-6 majors (fused majors, random minors, added/lost variants, novel core
        variants, 0/1 copies of genes with a deletion allele) over CYP2D6, CYP2A6, CYP2C19,
        GSTM1, the toy gene and the generated gene, in all (<=720, sampled in quick) orders.
"""
import collections
import itertools
import json
import os
import random
import re
from concurrent.futures import ThreadPoolExecutor

from .. import aldyenv, tlc, toygen
from ..core import MachineryError

TRACE = ("trace/DiplotypeTrace", "trace/DiplotypeTrace.cfg")
REAL_GENES = ["cyp2d6", "cyp2a6", "cyp2c19", "gstm1"]

# --------------------------------------------------------------------------- genes
_genes = {}


def get_gene(desc):
    """desc: 'toyx:1' / 'toyx:0' (generated, with/without deletion allele), 'toy', or a shipped gene name."""
    from aldy.gene import Gene

    if desc not in _genes:
        if desc.startswith("toyx:"):
            g = toygen.load(with_deletion=desc.endswith("1"))
        elif desc == "toy":
            g = Gene(os.path.join(aldyenv.ALDY_SRC, "aldy/tests/resources/toy.yml"), genome="hg19")
        else:
            g = Gene(os.path.join(aldyenv.ALDY_SRC, f"aldy/resources/genes/{desc}.yml"), genome="hg19")
        _genes[desc] = (g, list(g.common_tandems))
    return _genes[desc][0]


# --------------------------------------------------------------------------- projection (trusted, tiny)
def chunks(s):
    """'4.021' -> ['', '4', '.', '021']: alternating text / digit-run chunks, starting with text."""
    c = re.findall(r"[0-9]+|[^0-9]+", s)
    if not c or c[0][0].isdigit():
        c = [""] + c
    return c


def int_tokens(names):
    """Natural-order tokens of several names with text chunks replaced by their code-point rank."""
    cs = [chunks(n) for n in names]
    texts = sorted({c for ch in cs for c in ch[0::2]} | {""})
    rank = {t: i for i, t in enumerate(texts)}
    nums = sorted({int(c) for ch in cs for c in ch[1::2]})
    big = bool(nums) and nums[-1] >= 2**31 - 1
    nrank = {v: i for i, v in enumerate(nums)}
    out = []
    for ch in cs:
        out.append([rank[c] if i % 2 == 0 else (nrank[int(c)] if big else int(c)) for i, c in enumerate(ch)])
    return out


def var_id(gene, m):
    info = gene.mutations.get((m[0], m[1]))
    if info is not None and info[1] != "-":
        return info[1]
    return f"{m[0] + 1}.{m[1]}"


def is_core(gene, m):
    info = gene.mutations.get((m[0], m[1]))
    return info is not None and info[0] is not None


def parse_major(s):
    if s == "":
        return []
    return [[nm[1:].split("+") if nm.startswith("*") else ["?" + nm] for nm in hap.split(" + ")] for hap in s.split(" / ")]


def parse_major_names(s):
    if s == "":
        return []
    return [[nm[1:] if nm.startswith("*") else nm for nm in hap.split(" + ")] for hap in s.split(" / ")]


def parse_minor(s):
    if s == "":
        return []
    out = []
    for hap in s.split(" / "):
        names = []
        for nm in re.findall(r"\[\*(.*?)\]", hap):
            ps = nm.split(" ")
            parts = [["", ps[0]]]
            for p in ps[1:]:
                parts += [[p[:1], q] for q in p[1:].split("+")]
            names.append(parts)
        out.append(names)
    return out


def split_ids(ids):
    return [q for i in ids for q in i.split("+")]


# --------------------------------------------------------------------------- real execution
def run_real(gene_desc, tandems, alleles, eid):
    """alleles: [[major, minor, [[pos, op]...added], [[pos, op]...missing]]] in the order given to the code."""
    from aldy.diplotype import estimate_diplotype
    from aldy.gene import Mutation
    from aldy.solutions import CNSolution, MajorSolution, MinorSolution, SolvedAllele

    gene = get_gene(gene_desc)
    gene.common_tandems = [tuple(t) for t in tandems]
    sols = [
        SolvedAllele(gene, a[0], a[1], [Mutation(p, o) for p, o in a[2]], [Mutation(p, o) for p, o in a[3]])
        for a in alleles
    ]
    cns = [gene.alleles[a[0]].cn_config for a in alleles]
    ms = MinorSolution(0, sols, MajorSolution(0, collections.Counter(sols), CNSolution(gene, 0, cns), []))
    exc, hap, smajor, sminor = "", [], "", ""
    try:
        estimate_diplotype(gene, ms)
        hap = [list(h) for h in ms.diplotype]
        smajor = ms.get_major_diplotype()
        sminor = ms.get_minor_diplotype()
    except Exception as ex:  # the call did not complete: clause Completes
        exc = type(ex).__name__
    finally:
        gene.common_tandems = list(_genes[gene_desc][1])
    dele = gene.deletion_allele() or ""
    copies = []
    for a in alleles:
        base, _, rest = a[0].partition("#")
        copies.append({
            "major": a[0], "base": base, "fus": rest, "btok": chunks(base),
            "novel": split_ids([var_id(gene, m) for m in sorted(map(tuple, a[2])) if is_core(gene, m)]),
            "minor": a[1],
            "adds": split_ids([var_id(gene, m) for m in a[2]]),
            "miss": split_ids([var_id(gene, m) for m in a[3]]),
        })
    names = parse_major_names(smajor)
    flat = [n for h in names for n in h]
    toks = int_tokens(flat + [dele])
    it = iter(toks)
    mtok = [[next(it) for _ in h] for h in names]
    return {
        "id": eid, "k": "run", "del": dele, "deltok": toks[-1], "tandems": [list(t) for t in tandems],
        "copies": copies, "exc": exc, "hap": hap, "major": parse_major(smajor), "mtok": mtok,
        "minor": parse_minor(sminor), "smajor": smajor, "sminor": sminor,
    }


def rearrange(ev, newhap):
    """A copy of an accepted event claiming another arrangement (for canaries): printed fields are
    rebuilt from the per-index names of the accepted event."""
    by = {}
    ne = [h for h in ev["hap"] if h]
    for h, hp in enumerate(ne):
        for k, i in enumerate(hp):
            by[i] = (ev["major"][h][k], ev["mtok"][h][k], ev["minor"][h][k])
    e = dict(ev)
    e["hap"] = [list(h) for h in newhap]
    nn = [h for h in newhap if h]
    if all(i in by for h in nn for i in h):
        e["major"] = [[by[i][0] for i in h] for h in nn]
        e["mtok"] = [[by[i][1] for i in h] for h in nn]
        e["minor"] = [[by[i][2] for i in h] for h in nn]
    return e


def fingerprint(ev, clause):
    n = len(ev["copies"])
    keys = {(c["btok"][1] if c["btok"][0] == "" else c["btok"][0]) for c in ev["copies"]}
    same = n > 2 and any(t[0] == t[1] and t[0] in keys for t in ev["tandems"])
    return {
        "clause": clause,
        "tandem": "same-number" if same else ("listed" if ev["tandems"] else "none"),
        "copies": "0-1" if n < 2 else ("2" if n == 2 else "3+"),
        "deletion_allele": bool(ev["del"]),
    }


# --------------------------------------------------------------------------- batches
class Batch:
    """Groups of rows (a group = runs of one bag + optional 'same' row) packed into chunks that are
    validated by parallel single-worker TLC runs."""

    def __init__(self, ctx, label, chunk=2000):
        self.ctx, self.label, self.chunk = ctx, label, chunk
        self.chunks = [[]]
        self.rows = 0

    def add_group(self, runs, same_id=None):
        if len(self.chunks[-1]) + len(runs) + 1 > self.chunk:
            self.chunks.append([])
        c = self.chunks[-1]
        first = len(c) + 1
        c.extend(runs)
        if same_id is not None and len(runs) > 1:
            c.append({"id": same_id, "k": "same", "rows": list(range(first, first + len(runs)))})
        self.rows = sum(len(x) for x in self.chunks)

    def run(self):
        ctx = self.ctx
        chunks_ = [c for c in self.chunks if c]
        d = tlc.scratch()

        def one(ic):
            i, c = ic
            path = os.path.join(d, f"c11_{self.label}_{i}_{os.getpid()}.ndjson")
            tlc.write_ndjson(path, c)
            r = tlc.run(TRACE[0], TRACE[1], workers=1, env={"TRACE_FILE": path}, heap="2g", timeout=1700)
            os.unlink(path)
            return r, len(c)

        with ThreadPoolExecutor(max_workers=12) as ex:
            results = list(ex.map(one, enumerate(chunks_)))
        rej, st, tr, wall = [], 0, 0, 0.0
        for r, n in results:
            if not r.ok:
                raise MachineryError(f"trace batch {self.label} did not complete: {r.violated}\n{r.error_text[:2000]}")
            done = [p for p in r.prints if len(p) >= 3 and p[1] == "DONE"]
            if not done or done[-1][2] != n:
                raise MachineryError(f"trace batch {self.label}: consumed {done[-1][2] if done else '?'} of {n} rows")
            rej += [p[1:] for p in r.prints if p[1] != "DONE"]
            st += r.distinct
            tr += r.generated
            wall += r.wall
        ctx.states += st
        ctx.transitions += tr
        ctx.mc_runs.append({"module": f"DiplotypeTrace[{self.label}]", "ok": True, "distinct": st, "generated": tr,
                            "rows": self.rows, "tlc_processes": len(chunks_), "wall_s": round(wall, 2), "violated": None, "depth": 0})
        return rej


# --------------------------------------------------------------------------- canaries
CANARY_KINDS = ["name", "minor", "drop", "dup", "onehap", "noplaceholder", "extraplaceholder", "swaphaps", "reverse", "untandem"]


def make_canary(rng, ev, kind):
    """Return (corrupted event, kind) derived from an ACCEPTED run event, or None if `kind` does not apply."""
    hap = ev["hap"]
    n = len(ev["copies"])
    if ev["exc"] or len(hap) != 2:
        return None
    kinds = ["name", "minor"]
    if n >= 1:
        kinds += ["drop", "dup"]
    if n >= 2:
        kinds += ["onehap"]
    if ev["del"] and n <= 1:
        kinds += ["noplaceholder", "extraplaceholder"]
    if n >= 2 and ev["mtok"][0] != ev["mtok"][-1] and len(ev["mtok"]) == 2:
        kinds += ["swaphaps"]
    if not ev["tandems"] and any(len(h) >= 2 and h[0] != h[-1] for h in ev["mtok"]):
        kinds += ["reverse"]
    keyof = lambda i: (ev["copies"][i]["btok"][1] if ev["copies"][i]["btok"][0] == "" else ev["copies"][i]["btok"][0])  # noqa
    if n == 3 and ev["tandems"] and ev["tandems"][0][0] != ev["tandems"][0][1]:
        ta, tb = ev["tandems"][0]
        ia = [i for i in range(3) if keyof(i) == ta]
        ib = [i for i in range(3) if keyof(i) == tb]
        if len(ia) == 1 and len(ib) == 1:
            kinds += ["untandem"]
    if kind not in kinds:
        return None
    if kind == "name":
        if not ev["major"]:
            return None
        e = json.loads(json.dumps(ev))
        e["major"][0][0][0] += "X"
        return e, kind
    if kind == "minor":
        if not ev["minor"]:
            return None
        e = json.loads(json.dumps(ev))
        e["minor"][-1][-1][0][1] += "9"
        return e, kind
    if kind == "drop":
        h = 0 if hap[0] and hap[0][-1] != -1 else 1
        if not hap[h] or hap[h][-1] == -1:
            return None
        nh = [list(x) for x in hap]
        nh[h] = nh[h][:-1]
        return rearrange(ev, nh), kind
    if kind == "dup":
        reals = [i for h in hap for i in h if i != -1]
        if len(reals) < 2:
            nh = [list(hap[0]) + reals[:1], list(hap[1])]
        else:
            nh = [[(reals[1] if i == reals[0] else i) for i in h] for h in hap]
        return rearrange(ev, nh), kind
    if kind == "onehap":
        return rearrange(ev, [hap[0] + hap[1], []]), kind
    if kind == "noplaceholder":
        return rearrange(ev, [[i for i in h if i != -1] for h in hap]), kind
    if kind == "extraplaceholder":
        if n == 0:
            return rearrange(ev, [[-1, -1], [-1]]), kind
        return rearrange(ev, [h + [-1] if h and h[0] != -1 else h for h in hap]), kind
    if kind == "swaphaps":
        return rearrange(ev, [hap[1], hap[0]]), kind
    if kind == "reverse":
        ne = [h for h in hap if h]
        hi = next(i for i, h in enumerate(ev["mtok"]) if len(h) >= 2 and h[0] != h[-1])
        tgt = ne[hi]
        nh = [list(reversed(h)) if h == tgt else list(h) for h in hap]
        return rearrange(ev, nh), kind
    if kind == "untandem":
        ta, tb = ev["tandems"][0]
        ia = next(i for i in range(3) if keyof(i) == ta)
        ib = next(i for i in range(3) if keyof(i) == tb)
        ic = next(i for i in range(3) if i not in (ia, ib))
        by = {}
        ne = [h for h in hap if h]
        for h, hp in enumerate(ne):
            for k, i in enumerate(hp):
                by[i] = ev["mtok"][h][k]
        # separate the tandem: one member alone, the other with the third copy, each haplotype in order
        h2 = sorted([ib, ic], key=lambda i: by[i])
        hs = sorted([[ia], h2], key=lambda h: [by[i] for i in h])
        e = rearrange(ev, hs)
        # only a corruption if the third copy cannot itself pair with the separated members
        if any({keyof(ic), keyof(x)} == {t[0], t[1]} for x in (ia, ib) for t in ev["tandems"]):
            return None
        return e, kind
    return None


# --------------------------------------------------------------------------- case sources
def mc_alleles(gene, a):
    """MC allele <<num, suf>> -> called allele of the generated gene (first minor)."""
    major = f"{a[0]}{'C' if a[1] else ''}"
    return [major, next(iter(gene.alleles[major].minors)), [], []]


def random_bag(rng, gene, gdesc, n):
    """n called alleles of a real gene: tandem-relevant and fused majors over-represented, random
    minors, added (catalogued core / catalogued silent / uncatalogued) and lost variants."""
    names = list(gene.alleles)
    dele = gene.deletion_allele()
    names = [a for a in names if a != dele]
    tk = {k for t in gene.common_tandems for k in t}
    keyed = [a for a in names if (lambda c: c[1] if c[0] == "" else c[0])(chunks(a.split("#")[0])) in tk]
    fused = [a for a in names if "#" in a]
    pool = []
    for _ in range(rng.randint(1, 4)):  # few distinct majors per bag so that duplicates and tandems happen
        r = rng.random()
        src = keyed if (keyed and r < 0.5) else (fused if (fused and r < 0.65) else names)
        pool.append(rng.choice(src))
    if dele and rng.random() < 0.15:
        pool.append(dele)  # the whole-gene-deletion allele is a major allele too: it can be a called copy (e.g. `--cn 5`)
    muts = sorted(gene.mutations)
    core = [m for m in muts if gene.mutations[m][0] is not None]
    out = []
    for _ in range(n):
        major = rng.choice(pool)
        al = gene.alleles[major]
        minor = rng.choice(list(al.minors))
        own = set(al.func_muts) | set(al.minors[minor].neutral_muts)
        added, missing = [], []
        r = rng.random()
        if muts and r < 0.35:
            for _ in range(rng.randint(1, 2)):
                m = rng.choice(core if (core and rng.random() < 0.6) else muts)
                if m not in own and list(m) not in added:
                    added.append([m[0], m[1]])
        if r > 0.9:  # a variant that is not in the database at all
            s, e = gene.get_wide_region().start, gene.get_wide_region().end
            added.append([rng.randint(s, e - 1), rng.choice(["A>C", "insT", "delG"])])
        if own and rng.random() < 0.2:
            m = rng.choice(sorted(own))
            missing.append([m[0], m[1]])
        out.append([major, minor, added, missing])
    return out


# --------------------------------------------------------------------------- main
def run(ctx):
    aldyenv.setup()
    rng = random.Random(1100 + ctx.seed)
    quick = ctx.tier == "quick"
    ctx.rule = (
        "MC: every sequence (bag x order) of 0..%d alleles over {1,2,4,13} x {-,C}, tandem lists {},{13-1},{1-4},{13-1,1-4}, "
        "gene with/without deletion allele. (A) every case of that universe with 0..%d alleles plus the same-number tandem list {2-2} (thorough: also {13-1,1-4} and {2-2,13-1}), "
        "run through the real code on a generated gene, validated against the postconditions by DiplotypeTrace. "
        "(B) random bags of 0-6 majors of CYP2D6/CYP2A6/CYP2C19/GSTM1/toy/generated gene with random minors, added/lost and novel core variants, "
        "in all (quick: <=24 sampled) orders. distinct = (gene, tandem list, called alleles in order); non-trivial = at least 3 copies "
        "or a placeholder shown or a novel core variant." % ((4, 4) if quick else (6, 5))
    )
    ctx.trusted = ["harness/checks/c11.py projection (chunks/int_tokens tokenizer, printed-string parser, id lookup in gene.mutations)",
                   "harness/toygen.py generated database", "TLC"]
    ctx.assumptions = [
        "the number group of an allele is the leading number of its name (leading text if it has none), as the tandem list names groups",
        "tandem adjacency and natural order are read together: units (single alleles or adjacent listed-tandem pairs) in natural order of their first name, pairing maximal",
        "OrderFree12 is asserted for the major string (the printed diplotype); profile.display_format=True rendering is not exercised",
    ]
    # ------------------------------------------------------------------ MC
    if quick:
        ctx.mc("mc/MC_Diplotype", "mc/MC_Diplotype_quick.cfg", label="MC_Diplotype(quick: 0..4 alleles)")
    else:
        ctx.mc("mc/MC_Diplotype", "mc/MC_Diplotype.cfg", label="MC_Diplotype(0..6 alleles)", timeout=3000, coverage=False)
        ctx.mc("mc/MC_Diplotype", "mc/MC_Diplotype_fixed.cfg", label="MC_Diplotype(repaired heuristic, all tandem lists, 0..5)", timeout=3000)
    design = {}
    for cfg, inv in (("mc/MC_Diplotype_same_crash.cfg", "Completes"), ("mc/MC_Diplotype_same_once.cfg", "InvEachCopyOnce")):
        r = ctx.mc("mc/MC_Diplotype", cfg, expect_ok=False, label=f"MC_Diplotype(same-number tandem, {inv}: EXPECTED to fail)")
        design[inv] = r.violated
        if r.ok or r.violated != inv:
            raise MachineryError(f"{cfg}: the model of the shipped heuristic no longer shows the same-number tandem defect ({r.violated})")
    ctx.parts["design_findings"] = {
        "same_number_tandem": "the heuristic as designed (Diplotype.tla, fix=FALSE) violates %s with tandem list {<<2,2>>}; "
        "with the proposed repair (fix=TRUE) MC_Diplotype_fixed.cfg passes" % sorted(design)
    }
    # ------------------------------------------------------------------ (A)
    cases = {}
    eid = 0
    accepted_pool = []
    out = os.path.join(tlc.scratch(), "dipl_cases.ndjson")
    gmax = "4" if quick else "5"
    r = ctx.mc("gen/DiplotypeGen", workers=1, env={"OUT_FILE": out, "GEN_MAXN": gmax, "GEN_TC": "4" if quick else "6"}, label="DiplotypeGen(case emission)", heap="6g")
    gen_cases = tlc.read_ndjson(out)
    os.unlink(out)
    got = [p for p in r.prints if p[1] == "CASES"]
    if not got or got[0][2] != len(gen_cases):
        raise MachineryError("DiplotypeGen case emission mismatch")
    batchA = Batch(ctx, "A")
    groups = collections.OrderedDict()
    for c in gen_cases:
        gd = f"toyx:{int(bool(c['d']))}"
        gene = get_gene(gd)
        alle = [mc_alleles(gene, a) for a in c["a"]]
        key = (gd, json.dumps(c["t"]), json.dumps(sorted(c["a"]))) if len(alle) <= 2 else ("solo", len(groups))
        groups.setdefault(key, []).append((gd, c["t"], alle))
    evs_by_id = {}
    for key, members in groups.items():
        runs = []
        for gd, t, alle in members:
            eid += 1
            ev = run_real(gd, [[str(x) for x in p] for p in t], alle, eid)
            cases[eid] = {"gene": gd, "tandems": ev["tandems"], "alleles": alle}
            evs_by_id[eid] = ev
            runs.append(ev)
            ctx.traces += 1
            n = len(alle)
            ctx.count(1, key=("A", gd, json.dumps(t), json.dumps(alle)), nontrivial=n >= 3 or (ev["del"] and n < 2))
        sid = None
        if key[0] != "solo" and len(runs) > 1:
            eid += 1
            sid = eid
            cases[eid] = {"same": [r_["id"] for r_ in runs]}
        batchA.add_group(runs, sid)
    ctx.parts["A_universe"] = {"cases": len(gen_cases), "max_alleles": int(gmax), "gene": "generated (harness/toygen.py)", "exhaustive": True}
    ctx.exhaustive = True
    # ------------------------------------------------------------------ (B)
    batchB = Batch(ctx, "B")
    nb = 0
    per_gene = 40 if quick else 300
    maxperm = 24 if quick else 720
    gene_descs = REAL_GENES + ["toy", "toyx:1"]
    for gd in gene_descs:
        gene = get_gene(gd)
        shipped_t = [list(t) for t in _genes[gd][1]]
        dele = gene.deletion_allele()
        fixed = []
        if dele:  # the deletion allele itself as a called copy: alone, twice, next to another allele
            d1 = [dele, next(iter(gene.alleles[dele].minors)), [], []]
            o = next(a for a in gene.alleles if a != dele)
            fixed = [[d1], [d1, d1], [d1, [o, next(iter(gene.alleles[o].minors)), [], []]]]
            # a listed tandem next to a called deletion copy (more than two copies: the tandem must stay on one haplotype)
            key_of = lambda a: (lambda c: c[1] if c[0] == "" else c[0])(chunks(a.split("#")[0]))  # noqa: E731
            for ta, tb in list(gene.common_tandems)[:3]:
                xa = next((a for a in gene.alleles if a != dele and key_of(a) == str(ta)), None)
                xb = next((a for a in gene.alleles if a != dele and key_of(a) == str(tb) and a != xa), None)
                if xa and xb:
                    ea, eb = ([x, next(iter(gene.alleles[x].minors)), [], []] for x in (xa, xb))
                    fixed += [[ea, eb, d1], [ea, eb, d1, d1]]
        for it in range(per_gene + len(fixed)):
            if it < len(fixed):
                bag = fixed[it]
                n = len(bag)
            else:
                n = rng.choice([0, 1, 1, 2, 2, 3, 3, 3, 4, 4, 4, 5, 5, 6, 6])
                bag = random_bag(rng, gene, gd, n)
            perms = list(itertools.permutations(range(n)))
            if len(perms) > maxperm:
                perms = [perms[0]] + rng.sample(perms[1:], maxperm - 1)
            seen = set()
            runs = []
            for p in perms:
                alle = [bag[i] for i in p]
                k = json.dumps(alle)
                if k in seen:
                    continue
                seen.add(k)
                eid += 1
                ev = run_real(gd, shipped_t, alle, eid)
                cases[eid] = {"gene": gd, "tandems": shipped_t, "alleles": alle}
                evs_by_id[eid] = ev
                runs.append(ev)
                ctx.traces += 1
                nb += 1
                ctx.count(1, key=("B", gd, k), nontrivial=n >= 3 or (bool(ev["del"]) and n < 2) or any(c["novel"] for c in ev["copies"]))
            sid = None
            if n <= 2 and len(runs) > 1:
                eid += 1
                sid = eid
                cases[eid] = {"same": [r_["id"] for r_ in runs]}
            batchB.add_group(runs, sid)
            if len(ctx.samples) < 4 and n >= 3 and runs:
                ctx.sample({"gene": gd, "called": [[a[0], a[1]] for a in bag], "diplotype": runs[0]["hap"],
                            "major": runs[0]["smajor"], "minor": runs[0]["sminor"]})
    ctx.parts["B_random"] = {"genes": gene_descs, "bags_per_gene": per_gene, "max_orders_per_bag": maxperm, "executions": nb}

    rej = batchA.run() + batchB.run()
    diag = [x for x in rej if str(x[1]).startswith("DIAG")]
    rej = [x for x in rej if not str(x[1]).startswith("DIAG")]
    ctx.parts["diagnostic_real_result_differs_from_spec_heuristic"] = len(diag)
    rejected = {}
    for x in rej:
        rejected.setdefault(x[0], x)
    written = collections.Counter()
    for x in rejected.values():
        i = x[0]
        c = cases[i]
        fpk = json.dumps(fingerprint(evs_by_id[c["same"][0]] if "same" in c else evs_by_id[i], x[1]), sort_keys=True)
        if written[fpk] >= 30:  # enough replay files for this shape (only unknown violations are counted)
            ctx.parts["further_violations_not_written"] = ctx.parts.get("further_violations_not_written", 0) + 1
            continue
        if "same" in c:
            evs = [evs_by_id[j] for j in c["same"]]
            ev = evs[0]
            if ctx.violation(x[1], fingerprint(ev, x[1]), {"runs": [cases[j] for j in c["same"]], "printed": [e["smajor"] for e in evs]},
                             f"orders of one bag print {sorted({e['smajor'] for e in evs})}"):
                written[fpk] += 1
        else:
            ev = evs_by_id[i]
            if ctx.violation(x[1], fingerprint(ev, x[1]), c, f"{c['gene']} tandems={c['tandems']} called={[a[0] for a in c['alleles']]} -> "
                             f"{ev['exc'] or ev['hap']} '{ev['smajor']}'"):
                written[fpk] += 1
    # ------------------------------------------------------------------ canaries
    ok_ids = [i for i, e in evs_by_id.items() if i not in rejected]
    rng.shuffle(ok_ids)
    cb = Batch(ctx, "canary")
    planted = {}
    per_kind = 6 if quick else 20
    for kind in CANARY_KINDS:
        got_k = 0
        for i in ok_ids:
            if got_k >= per_kind:
                break
            c = make_canary(rng, evs_by_id[i], kind)
            if not c:
                continue
            e, kind = c
            eid += 1
            e = dict(e, id=eid)
            planted[eid] = (kind, i)
            cb.add_group([e])
            got_k += 1
        if got_k == 0 and not ctx.violations:
            raise MachineryError(f"no accepted case admits canary kind {kind}")
    # OrderFree12 canary: two accepted runs of one 2-copy bag, one printed string altered
    two = [c for c in cases.values() if "same" in c and all(j not in rejected for j in c["same"])][:3]
    for c in two:
        a, b = evs_by_id[c["same"][0]], evs_by_id[c["same"][1]]
        eid += 3
        b2 = dict(b, id=eid - 1, smajor=b["smajor"] + " ")
        cb.add_group([dict(a, id=eid - 2), b2], eid)
        planted[eid] = ("orderfree", c["same"][0])
    crej = {x[0]: x for x in cb.run() if not str(x[1]).startswith("DIAG")}
    kinds = collections.Counter()
    for i, (kind, src) in planted.items():
        ctx.canary(i in crej)
        kinds[(kind, crej[i][1] if i in crej else "ACCEPTED")] += 1
    ctx.parts["canaries"] = {f"{k}->{v}": n for (k, v), n in sorted(kinds.items())}


def replay(path):
    from ..core import Ctx

    aldyenv.setup()
    with open(path) as f:
        blob = json.load(f)
    case = blob["case"]
    ctx = Ctx("C11", "quick", 0)
    b = Batch(ctx, "replay")
    if "runs" in case:
        runs = [run_real(c["gene"], c["tandems"], c["alleles"], i + 1) for i, c in enumerate(case["runs"])]
        b.add_group(runs, len(runs) + 1)
    else:
        runs = [run_real(case["gene"], case["tandems"], case["alleles"], 1)]
        b.add_group(runs)
    for e in runs:
        print("real code now:", e["exc"] or e["hap"], repr(e["smajor"]), repr(e["sminor"]))
    rej = [x for x in b.run() if not str(x[1]).startswith("DIAG")]
    if rej:
        print(f"VIOLATION property=C11 replay={path}")
        print("  rejected:", rej)
        return 1
    print("replay: accepted")
    return 0
