"""C04 — minor-allele refinement preserves the major call and is optimal.

Spec: spec/MinorModel.tla (assignments = minor choice x carried set per copy, rules R2-R6,
objective).  Binding (B): recorded calls of the real estimate_minor (one major solution per
call) validated by spec/trace/MinorTrace.tla: safety clauses on every reported allele,
score-is-objective, and — on enumerable universes — optimality over ALL admissible assignments.
"""
import collections
import json
import random

from .. import aldyenv, evidence, genes, par, project

SMALL_GENES = ["cyp2c19", "cyp2c9", "cyp2b6", "cyp3a5", "tpmt", "nudt15", "slco1b1", "cyp2a6"]


def _profile(**kw):
    from aldy.profile import Profile

    return Profile("verif", **kw)


def make_major_sol(gene, struct, majors, added=()):
    from aldy.gene import Mutation
    from aldy.solutions import CNSolution, MajorSolution, SolvedAllele

    cn_sol = CNSolution(gene, 0, list(struct))
    sol = collections.Counter(SolvedAllele(gene, major=a) for a in majors)
    return MajorSolution(score=0, solution=sol, cn_solution=cn_sol, added=[Mutation(int(p_), o_) for p_, o_ in added])


def present_variants(gene, major, minor):
    """Variants a simulated haplotype of that allele physically carries: the definition
    restricted to the regions the allele's structure retains."""
    return {m for m in evidence.allele_variants(gene, major, minor) if gene.has_coverage(major, m.pos)}


def run_minor(gene, cov, major_sol):
    from aldy.minor import estimate_minor

    return estimate_minor(gene, cov, [major_sol], "any")


def random_struct_bag(gene, rng, maxcopies=3):
    dele = gene.deletion_allele()
    cfgs = [c for c in gene.cn_configs if c != dele and gene.cn_configs[c].alleles]
    n = rng.choice([1, 2, 2, 2, 3][: maxcopies + 2])
    n = min(n, maxcopies)
    struct = ["1" if rng.random() < 0.7 or len(cfgs) == 1 else rng.choice(cfgs) for _ in range(n)]
    bag = []
    for cfg in struct:
        a = rng.choice([x for x, al in gene.alleles.items() if al.cn_config == cfg])
        mi = rng.choice(sorted(gene.alleles[a].minors))
        bag.append((a, mi))
    return struct, bag


def considered(gene, majors):
    M = set()
    for a in majors:
        M |= set(gene.alleles[a].func_muts)
        for mi in gene.alleles[a].minors.values():
            M |= set(mi.neutral_muts)
    return M | set(gene.random_mutations)


def add_witness(rng, gene, struct, bag, table, depth):
    """Rule-sensitivity witnesses: evidence on which one of the rules R3-R5 is binding."""
    t = {p: dict(v) for p, v in table.items()}
    novel = []
    planted = set().union(*[present_variants(gene, a, mi) for a, mi in bag]) if bag else set()
    M = sorted(considered(gene, [b[0] for b in bag]) - planted)
    kind = rng.choice(["stray", "stray", "sparse", "double", "lost", "twins", "twins"])
    extra = None
    if kind == "stray" and M:
        # a considered variant with weak (but filter-passing) support: it must still be carried by one copy
        m = rng.choice(M)
        tot = sum(n for o, n in t.get(m.pos, {}).items() if not o.startswith("ins"))
        k = max(2, int(round(tot * rng.uniform(0.22, 0.45))))
        t.setdefault(m.pos, {})
        t[m.pos][m.op] = t[m.pos].get(m.op, 0) + k
        if not m.op.startswith("ins"):
            t[m.pos]["_"] = max(0, t[m.pos].get("_", 0) - k)
    elif kind == "sparse":
        # very low depth: fewer supporting reads than copies that would like to carry the variant.
        # All copies are the same allele, one read per copy, one read lost at some sites.
        withv = [(a, mi) for a, al in gene.alleles.items() if al.cn_config == "1" for mi, m_ in al.minors.items()
                 if al.func_muts or m_.neutral_muts]
        if withv:
            a, mi = rng.choice(sorted(withv))
            n = rng.choice([2, 3, 3])
            struct, bag = ["1"] * n, [(a, mi)] * n
            t = evidence.plant(gene, bag, depth=1, sites=evidence.catalogue_sites(gene))
            for p in list(t):
                for o in list(t[p]):
                    if o != "_" and rng.random() < 0.5 and t[p][o] > 2:
                        t[p][o] -= 1
    elif kind == "double":
        # two considered variants at ONE site (definitions of two different called alleles), and one
        # of them observed once more than planted: the extra copy must not land on the other allele
        by = collections.defaultdict(list)
        for a, al in gene.alleles.items():
            if al.cn_config != "1":
                continue
            for mi, m_ in al.minors.items():
                for m in set(al.func_muts) | set(m_.neutral_muts):
                    by[m.pos].append((a, mi, m))
        sh = sorted(p for p, xs in by.items() if len({x[2] for x in xs}) > 1)
        if sh:
            p = rng.choice(sh)
            x = rng.choice(by[p])
            y = rng.choice([z for z in by[p] if z[2] != x[2]])
            struct, bag = ["1", "1"], [(x[0], x[1]), (y[0], y[1])]
            r_ = rng.random()
            if r_ < 0.25:
                struct, bag = ["1"], [(x[0], x[1])]
            elif r_ < 0.6 and gene.mutations.get((y[2].pos, y[2].op), (None,))[0] is not None:
                # only x is called (once or twice); y's variant at the same site is a novel variant of the major call
                n_ = rng.choice([1, 2])
                struct, bag = ["1"] * n_, [(x[0], x[1])] * n_
                novel.append((y[2].pos, y[2].op))
            t = evidence.plant(gene, bag, depth=depth, sites=evidence.catalogue_sites(gene))
            m = rng.choice([x[2], y[2]]) if not novel else y[2]
            t[p][m.op] = t[p].get(m.op, 0) + rng.choice([depth, depth // 2, depth + depth // 2])
            t[p]["_"] = max(0, t[p].get("_", 0) - rng.choice([0, depth])) + rng.choice([0, 0, depth // 2])
    elif kind == "twins":
        # two (or three) copies of the SAME minor allele that differ in one considered variant: with read-phase
        # evidence the fragments of both haplotypes have to be attributed to different copies of one allele
        cands = [(a, mi) for a, al in gene.alleles.items() if al.cn_config == "1" for mi in al.minors]
        a, mi = rng.choice(sorted(cands))
        others = sorted(considered(gene, [a]) - evidence.allele_variants(gene, a, mi))
        others = [m for m in others if not any(m.pos == x.pos for x in evidence.allele_variants(gene, a, mi))]
        if others:
            n = rng.choice([2, 2, 3])
            struct, bag = ["1"] * n, [(a, mi)] * n
            extra = [{rng.choice(others)}] + [set() for _ in range(n - 1)]
            t = evidence.plant(gene, bag, depth=depth, extra_variants=extra, sites=evidence.catalogue_sites(gene))
    elif kind == "lost":
        # a definitional variant of a fused allele lies in a region the allele lost, but is supported by reads
        for a, mi in bag:
            lost = [m for m in evidence.allele_variants(gene, a, mi) if not gene.has_coverage(a, m.pos)]
            for m in lost:
                if evidence.struct_cn_at(gene, struct, m.pos) > 0:
                    t.setdefault(m.pos, {})
                    t[m.pos][m.op] = t[m.pos].get(m.op, 0) + depth
                    t[m.pos]["_"] = max(0, t[m.pos].get("_", 0) - depth)
    return struct, bag, t, kind, novel, extra


def small_enough(gene, called, table):
    """Can TLC enumerate all assignments?  (<= ~20k per case)"""
    M = considered(gene, called)
    supp = sum(1 for m in M if table.get(m.pos, {}).get(m.op, 0) > 0)
    nmin = max(len(gene.alleles[a].minors) for a in called)
    per = nmin * (2 ** min(supp, 40))
    n = len(called)
    tot = 1
    for i in range(n):
        tot = tot * (per + i) // (i + 1)
    return tot <= 20000


def _cases_task(task):
    gname, genome, seed, n, mode = task
    rng = random.Random(seed)
    g = genes.load(gname, genome)
    sites_all = evidence.catalogue_sites(g)
    rows, meta = [], {}
    for k in range(n):
        struct, bag = random_struct_bag(g, rng, 3 if mode in ("noisy", "witness") else 2)
        depth = rng.choice([10, 20, 20, 30])
        table = evidence.plant(g, bag, depth=depth, sites=sites_all)
        planted = None
        novel = []
        extra = None
        called = [b[0] for b in bag]
        if mode == "noisy":
            m = rng.random()
            if m < 0.2:
                planted = [present_variants(g, a, mi) for a, mi in bag]
            elif m < 0.75:
                table = evidence.perturb(rng, table, level=rng.choice([0.1, 0.3, 0.5]), gene=g)
            else:
                table = evidence.perturb(rng, table, level=0.4, drop=0.1, spurious=0.3, gene=g)
            if rng.random() < 0.15:
                # the major call need not be the planted one
                cfg = rng.randrange(len(bag))
                alt = [x for x, al in g.alleles.items() if al.cn_config == struct[cfg]]
                called[cfg] = rng.choice(alt)
                planted = None
        elif mode == "witness":
            struct, bag, table, wkind, novel, extra = add_witness(rng, g, struct, bag, table, depth)
            called = [b[0] for b in bag]
        else:
            planted = [present_variants(g, a, mi) for a, mi in bag]
        low = None
        if rng.random() < 0.2:
            low = {p: {op: (rng.randint(0, 6), rng.randint(0, 6)) for op in ops} for p, ops in table.items() if rng.random() < 0.4}
        kw = {}
        if rng.random() < 0.25:
            kw = rng.choice([{"minor_add": 0.5}, {"minor_miss": 1.0}, {"minor_add": 2.0}, {"threshold": 0.3}, {"minor_phase": 1.0},
                             {"minor_phase": 0.1}, {"min_coverage": 4.0}, {"threshold": 0.7}])
        prof = _profile(**kw)
        indels = None
        if rng.random() < 0.25:
            table, indels = evidence.realistic_indels(table)
            low = None
        sam, phase_recs = None, None
        if (rng.random() < 0.35 or extra is not None) and mode in ("noisy", "witness", "planted"):
            # read-phase evidence of the planted haplotypes (with some wrong fragments when the table is noisy)
            psites = {m.pos for m in considered(g, called)}
            hv = [present_variants(g, a, mi) | (extra[k] if extra else set()) for k, (a, mi) in enumerate(bag)]
            phase_recs = evidence.plant_phases(rng, g, hv, psites,
                                               per_copy=rng.choice([4, 10, 20]), noise=0.0 if planted is not None else 0.15,
                                               majors=[a for a, _ in bag])
            sam = evidence.FakeSam(phase_recs)
        cov = evidence.make_coverage(g, prof, table, low, indels, None, sam)
        msol = make_major_sol(g, struct, called, novel)
        raised = ""
        try:
            res = run_minor(g, cov, msol)
        except Exception as ex:
            res, raised = [], f"{type(ex).__name__}: {ex}"
        cid = f"{gname}/{genome}/{seed}/{k}"
        enum = mode == "noisy" or (mode == "witness" and small_enough(g, called, table))
        rows.append(project.minor_case(cid, g, cov, msol, res, enumerate_all=enum, planted=planted, raised=raised))
        meta[cid] = {"gene": f"{gname}/{genome}", "struct": struct, "called": called, "bag": bag, "table": table, "low": low,
                     "params": kw, "mode": mode, "phases": phase_recs, "indels": [[k[0], k[1], v[0], v[1]] for k, v in (indels or {}).items()], "novel": [list(x) for x in novel], "noise_free": planted is not None, "raised": raised, "enumerate": enum,
                     "result": [([(sa.major, sa.minor, [str(x) for x in sa.added], [str(x) for x in sa.missing]) for sa in s.solution], s.score) for s in res]}
    return rows, meta


def corrupt_case(rng, case):
    if not case["result"] or not case["result"][0]["copies"]:
        return None
    c = json.loads(json.dumps(case))
    r = c["result"][0]
    kind = rng.choice(["score", "minor", "add"])
    if kind == "score":
        r["score"] += 7000
    elif kind == "minor":
        cp = r["copies"][0]
        cp["minor"] = cp["minor"] % len(c["minors"]) + 1
        if len(c["minors"]) == 1:
            r["score"] += 7000
    else:
        cp = r["copies"][0]
        cand = [v for v in range(1, len(c["vars"]) + 1) if v not in cp["added"]]
        if not cand:
            r["score"] += 7000
        else:
            cp["added"] = sorted(cp["added"] + [rng.choice(cand)])
            r["score"] += 7000
    return c


def run(ctx):
    aldyenv.setup()
    rng = random.Random(4000 + ctx.seed)
    quick = ctx.tier == "quick"
    ctx.rule = (
        "each case = one real estimate_minor call with one major solution of 1-3 copies (fused alleles included) on a "
        "Coverage planted from a random (major, minor) multiset with multiplicative noise, dropped/spurious ops and "
        "low-quality observations; the major call is sometimes NOT the planted one. toy gene: MinorTrace enumerates "
        "every admissible assignment (optimality); shipped genes: noise-free pairs of catalogued minors (safety clauses, "
        "score-is-objective, planted variants reproduced). distinct = distinct (gene, call, table, params); "
        "non-trivial = a solution was reported."
    )
    ctx.trusted = ["harness/evidence.py planting", "harness/project.py structural projection", "TLC"]
    ctx.assumptions = [
        "read-phase term not exercised by synthetic Coverage objects (no Sample attached)",
        "optimality on shipped-gene instances with noise is not enumerated (assignment space too large for TLC)",
    ]
    # design level: noise-free evidence of every refinement of every small major call: the planted assignment is
    # admissible at score 0, nothing scores below, zero-score assignments carry the planted variants, the fill keeps the rules
    ctx.mc("mc/MC_MinorModel", label="MC_MinorModel(planted refinements)", workers=4)
    # encoding layer: every constraint the code documents is a named rule of MinorEncoding; TLC proves that the
    # encoding refines the semantic layer and, per rule, finds an input on which dropping it changes the allowed
    # results; those witnesses are replayed into the real stage and validated by the trace spec
    from . import enc
    enc.run_minor(ctx)
    tasks = []
    for j in range(12 if quick else 60):
        tasks.append(("toy", rng.choice(["hg19", "hg38"]), rng.randrange(1 << 30), 60 if quick else 150, "noisy"))
    for gname in (SMALL_GENES[:4] if quick else SMALL_GENES):
        for genome in (["hg19"] if quick else ["hg19", "hg38"]):
            for j in range(1 if quick else 5):
                tasks.append((gname, genome, rng.randrange(1 << 30), 60 if quick else 200, "planted"))
    for j in range(2 if quick else 16):
        tasks.append(("cyp2d6", rng.choice(["hg19", "hg38"]), rng.randrange(1 << 30), 15 if quick else 60, "planted"))
    for gname in ["toy", "toy", "cyp2c9", "tpmt", "cyp2b6", "cyp2a6", "cyp2d6"] + ([] if quick else ["toy"] * 6 + ["cyp2c19", "cyp2c8", "nat1", "cyp1a1"]):
        for j in range(1 if quick else 4):
            tasks.append((gname, rng.choice(["hg19", "hg38"]), rng.randrange(1 << 30), 40 if quick else 120, "witness"))
    rows, meta = [], {}
    for r, m in par.pmap(_cases_task, tasks):
        rows += r
        meta.update(m)
    for cid, m in meta.items():
        ctx.count(1, key=hash(json.dumps([m["gene"], m["called"], m["table"], m["params"]], sort_keys=True)), nontrivial=bool(m["result"]))
        ctx.traces += 1
    ctx.parts["cases"] = {
        "rows": len(rows), "with_solution": sum(1 for m in meta.values() if m["result"]),
        "enumerated": sum(1 for m in meta.values() if m["enumerate"]),
        "noise_free": sum(1 for m in meta.values() if m["noise_free"]),
    }
    for k in list(meta)[:2] + list(meta)[-1:]:
        ctx.sample({"case": {kk: vv for kk, vv in meta[k].items() if kk != "low"}})
    canaries = {}
    for i, case in enumerate(rng.sample(rows, min(40, len(rows)))):
        c = corrupt_case(rng, case)
        if c:
            c["id"] = f"canary/{i}"
            canaries[c["id"]] = case["id"]
            rows.append(c)
    rows.sort(key=lambda r: -len(r["vars"]) * len(r["call"]))
    nch = 14
    rows = [r for i in range(nch) for r in rows[i::nch]]
    rej = ctx.trace_batches("trace/MinorTrace", "trace/MinorTrace.cfg", rows, label="MinorTrace", chunk=(len(rows) + nch - 1) // nch, jobs=nch)
    by_id = {}
    for r in rej:
        by_id.setdefault(r[0], r[1])
    for k, src in canaries.items():
        if src in by_id:
            continue
        ctx.canary(k in by_id and not by_id[k].startswith("UNDECIDED"))
    for k, clause in by_id.items():
        if k in canaries:
            continue
        if clause.startswith("UNDECIDED"):
            ctx.undecided += 1
            continue
        m = meta[k]
        fp = {"stage": "minor", "clause": clause, "gene": m["gene"].split("/")[0]}
        if clause in ("Optimal", "NoneReportedButAdmissibleExists"):
            fp["cbc_objective_worse_than_scip_on_same_model"] = _backend_flag(m)  # attribution only (harness/backend.py)
        ctx.violation(clause, fp, m, f"case {k} ({m['mode']}) called={m['called']} planted={m['bag']} reported={m['result']}")


def _backend_flag(m):
    """Re-run the recorded case with every CBC solve exported; True iff SCIP beats an objective CBC called optimal."""
    from .. import backend

    try:
        gname, genome = m["gene"].split("/")
        g = genes.load(gname, genome)
        table = {int(p): v for p, v in m["table"].items()}
        low = {int(p): {o: tuple(x) for o, x in v.items()} for p, v in (m.get("low") or {}).items()} or None
        indels = {(int(a), b): (c, d) for a, b, c, d in m.get("indels", [])} or None
        sam = evidence.FakeSam({k: {int(p_): o_ for p_, o_ in v.items()} for k, v in m["phases"].items()}) if m.get("phases") else None
        cov = evidence.make_coverage(g, _profile(**m["params"]), table, low, indels, None, sam)
        msol = make_major_sol(g, m["struct"], m["called"], m.get("novel", []))
        recs = []
        with backend.watch(recs), aldyenv.quiet_stderr():
            run_minor(g, cov, msol)
        with aldyenv.quiet_stderr():
            return bool(backend.worse_than_scip(recs))
    except Exception:  # noqa: BLE001 - attribution must never turn a violation into a machinery failure
        return False


def replay(path):
    from ..core import Ctx

    aldyenv.setup()
    with open(path) as f:
        m = json.load(f)["case"]
    if m.get("enc"):
        from . import enc
        return enc.replay(path, "C04")
    gname, genome = m["gene"].split("/")
    g = genes.load(gname, genome)
    table = {int(p): v for p, v in m["table"].items()}
    low = {int(p): {o: tuple(x) for o, x in v.items()} for p, v in (m.get("low") or {}).items()} or None
    indels = {(int(a), b): (c, d) for a, b, c, d in m.get("indels", [])} or None
    sam = evidence.FakeSam({k: {int(p_): o_ for p_, o_ in v.items()} for k, v in m["phases"].items()}) if m.get("phases") else None
    cov = evidence.make_coverage(g, _profile(**m["params"]), table, low, indels, None, sam)
    msol = make_major_sol(g, m["struct"], m["called"], m.get("novel", []))
    with aldyenv.quiet_stderr():
        res = run_minor(g, cov, msol)
    planted = [present_variants(g, a, mi) for a, mi in m["bag"]] if m["noise_free"] else None
    case = project.minor_case("replay", g, cov, msol, res, enumerate_all=m.get("enumerate", m["mode"] == "noisy"), planted=planted)
    ctx = Ctx("C04", "quick", 0)
    rej = ctx.trace_batch("trace/MinorTrace", "trace/MinorTrace.cfg", [case], label="replay")
    print("result now:", [([(sa.major, sa.minor, sa.added, sa.missing) for sa in s.solution], s.score) for s in res])
    if rej and not rej[0][1].startswith("UNDECIDED"):
        print(f"VIOLATION property=C04 replay={path}")
        print("  rejected:", rej)
        return 1
    print("replay: accepted")
    return 0
