"""C06 — alignment evidence is a faithful pileup of the eligible reads.

Spec: spec/PileupDefs.tla (eligibility, CIGAR walk, declarative spans), spec/Pileup.tla (state machine +
invariants), spec/mc/MC_Pileup.* (bounded exhaustive), spec/gen/PileupGen.* (emits MC's read pool),
spec/trace/PileupTrace.* (judges recorded executions of the real code).
  MC  : every CIGAR of <=3 (quick; thorough <=4) operations over {M,I,D,S,H,=,X}, 3 starts, 4 base patterns on an
        8-base gene; flag / region-edge cases; 2-3 reads of a hand-picked pool in every order.
  (A) : the pool emitted by TLC is written to real BAMs over a realised gene (both strands) and loaded with the real
        Sample; every read is also fed to Sample._parse_read directly.
  (B) : seeded random read sets over small genes (both strands, with/without catalogued indels / pseudogene) and
        windows of the shipped NA10860 BAM (reads re-read with pysam), judged by PileupTrace.
"""
import json
import os
import random
import threading
import time
from collections import Counter

from .. import aldyenv, gen_reads, tlc
from ..core import MachineryError

BASE = {"A": 0, "C": 1, "G": 2, "T": 3, "N": 4}
LETTER = "ACGTN"
MODP = 1000003


def code(seq):
    c = 0
    for ch in seq:
        c = (c * 5 + BASE.get(ch, 4) + 1) % MODP
    return c


# --------------------------------------------------------------------------- gene context
def multi_sites(gene):
    """What aldy merges: multi-nucleotide substitutions among the FUNCTIONAL mutations of the alleles."""
    return {m.pos: m.op for a in gene.alleles.values() for m in a.func_muts if ">" in m.op and len(m.op) > 3}


def catalogued_mnps(gene, functional_only=False):
    """What the property names: every catalogued multi-nucleotide substitution."""
    if functional_only:
        return multi_sites(gene)
    return {pos: op for pos, op in gene.mutations if ">" in op and len(op) > 3}


def gene_context(gene, lo, hi, plo=None, phi=None, functional_only=False):
    """The record G of PileupDefs for genome interval [lo, hi); positions become pos - lo + 1."""
    org = lo - 1
    mapped, run = [], None
    for p in range(lo, hi):
        if p in gene.chr_to_ref:
            if run and run[1] == p - org - 1:
                run[1] = p - org
            else:
                run = [p - org, p - org]
                mapped.append(run)
    mnps, bad = [], []
    fun = multi_sites(gene)
    for pos, op in sorted(catalogued_mnps(gene, functional_only).items()):
        l, r = op.split(">")
        offs = [i for i, ch in enumerate(l) if ch != "."]
        if not (lo <= pos and pos + len(l) <= hi):
            continue
        if any(gene[pos + i] != l[i] for i in offs) or offs[0] != 0:
            bad.append((pos, op))
        mnps.append({"pos": pos - org, "offs": offs, "ref": [BASE[l[i]] for i in offs], "alt": [BASE[r[i]] for i in offs], "func": int(pos in fun and fun[pos] == op), "op": op})
    w = gene.get_wide_region()
    ph = sorted({p - org for p, _ in gene.mutations if lo <= p < hi and (plo is None or plo <= p <= phi)})
    G = {"k": "gene", "len": hi - lo, "ref": [BASE.get(gene[p], 4) for p in range(lo, hi)], "mapped": mapped,
         "wide": [w.start - org, w.end - org], "mnps": [{k: v for k, v in m.items() if k != "op"} for m in mnps],
         "phase": [1 if (p + 1) in set(ph) else 0 for p in range(hi - lo)]}
    return G, org, {m["op"] + "@" + str(m["pos"] + org): i + 1 for i, m in enumerate(mnps)}, bad


def spec_read(r, org, chr_name):
    fl = r.flag
    return {"name": str(r.name), "start": r.start - org, "cigar": [list(c) for c in r.cigar] if r.cigar else [],
            "seq": [BASE.get(c, 4) for c in r.seq] if r.seq else [], "qual": list(r.qual) if (r.seq and r.qual is not None) else [],
            "mapq": r.mapq, "unmapped": bool(fl & 0x4), "supp": bool(fl & 0x800), "secondary": bool(fl & 0x100),
            "dup": bool(fl & 0x400), "oncontig": (r.contig or chr_name) == chr_name}


# --------------------------------------------------------------------------- projections of the real structures
class Projection(Exception):
    pass


def project_op(pos, op, org, mnp_index):
    if op == "_":
        return ("ref", 0, 0)
    if op == "-":
        return ("del", 0, 0)
    if op.startswith("ins"):
        return None
    if ">" in op and len(op) == 3:
        return ("sub", BASE.get(op[0], 4), BASE.get(op[2], 4))
    key = f"{op}@{pos}"
    if key in mnp_index:
        return ("mnp", mnp_index[key], 0)
    raise Projection(f"unknown table entry {pos}:{op}")


def project_table(table, gene, org, mnp_index, lo=None, hi=None):
    """{pos: {op: [(mq, bq)]}} -> rows [pos, kind, a, b, mq, bq, count] under the projection of PileupTrace."""
    c = Counter()
    for pos, ops in table.items():
        if lo is not None and not lo <= pos <= hi:
            continue
        mapped = pos in gene.chr_to_ref
        for op, quals in ops.items():
            pr = project_op(pos, op, org, mnp_index)
            if pr is None:
                continue
            for mq, bq in quals:
                if pr[0] == "mnp":
                    if abs(mq - round(mq)) > 1e-9:
                        raise Projection(f"MNP mapping quality {mq} at {pos}")
                    mq, bq = int(round(mq)), 0
                if pr[0] == "del":
                    bq = 0
                if not mapped:
                    c[(pos - org, "ref", 0, 0, mq, 0)] += 1
                else:
                    c[(pos - org,) + pr + (mq, bq)] += 1
    return [list(k) + [n] for k, n in sorted(c.items())]


def project_allele(op, pos=None, org=0, mnp_index=None):
    if mnp_index is not None and ">" in op and len(op) > 3 and f"{op}@{pos}" in mnp_index:
        return ["mnp", mnp_index[f"{op}@{pos}"], 0]
    if op == "_":
        return ["ref", 0, 0]
    if op.startswith("ins"):
        return ["ins", len(op) - 3, code(op[3:])]
    if op.startswith("del"):
        return ["del", len(op) - 3, 0]
    if ">" in op and len(op) == 3:
        return ["sub", BASE.get(op[0], 4), BASE.get(op[2], 4)]
    raise Projection(f"unknown phase allele {op}")


def project_phase(ph, org, plo=None, phi=None, mnp_index=None):
    return [[p - org] + project_allele(o, p, org, mnp_index) for p, o in sorted(ph.items()) if plo is None or plo <= p <= phi]


_TEMPLATES = {}


def bare_sample(gene):
    """A Sample ready for direct _parse_read calls.  Its per-gene tables (_multi_sites, phaseable, _indel_sites) are
    taken from a REAL Sample constructed on an empty BAM, so they are whatever Sample.__init__ computes."""
    import copy

    from aldy.sam import Sample

    key = id(gene)
    if key not in _TEMPLATES:
        w = gene.get_wide_region()
        bam = os.path.join(tlc.scratch(), f"empty_{len(_TEMPLATES)}.bam")
        gen_reads.write_bam(bam, gene.chr, w.end + 2000, [])
        _TEMPLATES[key] = (gene, load_sample(gene, bam, indelpost=False))
    t = _TEMPLATES[key][1]
    s = Sample.__new__(Sample)
    s.gene = gene
    s.phases = {}
    s._indel_sites = {k: [0, 0] for k in t._indel_sites}
    s._indel_sites_eqs = {}
    s._multi_sites = copy.copy(t._multi_sites)
    s.phaseable = copy.copy(t.phaseable)
    return s


def direct_parse(gene, r, norm=None, muts=None, sample=None):
    """Sample._parse_read on one read; returns (table {pos:{op:[q]}}, phase dict, mnp qualities)."""
    from collections import defaultdict

    s = sample or bare_sample(gene)
    own = norm is None
    if own:
        norm, muts = defaultdict(list), defaultdict(list)
    s._parse_read(str(r.name), r.start, [tuple(c) for c in r.cigar], r.seq, norm, muts, r.mapq, list(r.qual))
    if not own:
        return None
    return assemble(norm, muts), dict(s.phases.get(str(r.name), {}))


def assemble(norm, muts):
    t = {}
    for p, q in norm.items():
        if q:
            t.setdefault(p, {})["_"] = list(q)
    for (p, op), q in muts.items():
        if q:
            t.setdefault(p, {}).setdefault(op, []).extend(q)
    return t


def mnp_quals(table, gene, org, mnp_index, G):
    out = []
    for pos, ops in sorted(table.items()):
        for op, quals in ops.items():
            key = f"{op}@{pos}"
            if key in mnp_index:
                n = len(G["mnps"][mnp_index[key] - 1]["offs"])
                for mq, bq in quals:
                    a, b = mq * n, bq * n
                    if abs(a - round(a)) > 1e-6 or abs(b - round(b)) > 1e-6:
                        raise Projection(f"MNP quality not a mean of {n} integers: {mq},{bq}")
                    out.append([mnp_index[key], int(round(a)), int(round(b))])
    return out


# --------------------------------------------------------------------------- one read set -> events
class Batch:
    """Collects the events of several read sets over ONE gene context (one TLC run)."""

    def __init__(self, gene, lo, hi, yml=None, genome=None, label=""):
        self.gene, self.lo, self.hi = gene, lo, hi
        self.G, self.org, self.mnp_index, bad = gene_context(gene, lo, hi)
        if bad:
            raise MachineryError(f"catalogue MNP does not match the reference: {bad}")
        self.rows = [self.G]
        self.cases = {}  # event id -> replayable case
        self.yml, self.genome, self.label = yml, genome, label
        self.nid = 0
        self.sets = 0

    def new_id(self):
        self.nid += 1
        return self.nid

    def add_read_events(self, reads, direct=True, splits=()):
        ids = []
        for i, r in enumerate(reads):
            ev = {"k": "read", "id": self.new_id(), "fresh": i == 0, "r": spec_read(r, self.org, self.gene.chr),
                  "hasdirect": False, "direct": [], "dphase": [], "mnpq": [], "splitof": 0}
            ok = bool(r.cigar) and bool(r.seq) and r.qual is not None and len(r.seq) == sum(n for o, n in r.cigar if o in (0, 1, 4, 7, 8))
            if direct and ok:
                try:
                    t, ph = direct_parse(self.gene, r)
                    ev["direct"] = project_table(t, self.gene, self.org, self.mnp_index)
                    ev["dphase"] = project_phase(ph, self.org, mnp_index=self.mnp_index)
                    ev["mnpq"] = mnp_quals(t, self.gene, self.org, self.mnp_index, self.G)
                    ev["hasdirect"] = True
                except Projection as ex:
                    ev["projection_error"] = str(ex)
            self.rows.append(ev)
            ids.append(ev["id"])
        return ids


def load_sample(gene, bam, indelpost=True):
    from aldy.profile import Profile
    from aldy.sam import Sample

    prof = Profile("verif", indelpost=indelpost)
    with aldyenv.quiet_stderr():
        return Sample(gene, prof, bam, store_reads=True)


def table_event(batch, sample, lo, hi, plo=None, phi=None, keep=None):
    """Project what the real Sample built (positions lo..hi genome, inclusive)."""
    gene, org = batch.gene, batch.org
    cov = sample.coverage
    rows = project_table(cov._coverage, gene, org, batch.mnp_index, lo, hi)
    tot = [[p - org, int(cov.total(p))] for p in range(lo, hi + 1)]
    # accessor cross-check: Coverage.coverage(Mutation) for substitutions must agree with the table
    from aldy.gene import Mutation

    for p, ops in cov._coverage.items():
        if lo <= p <= hi:
            for op, q in ops.items():
                if ">" in op and cov.coverage(Mutation(p, op)) != len(q) and not (cov._indels and (p, op) in cov._indels):
                    raise Projection(f"Coverage.coverage({p},{op}) != table")
    phases = []
    for name, ph in sample.phases.items():
        pp = project_phase(ph, org, plo if plo is not None else None, phi, mnp_index=batch.mnp_index)
        if pp:
            phases.append([str(name), pp])
    el = Counter()
    for seq, name, r in sample.reads:
        (rs, re_, ln), _ = r
        if keep is None or keep(rs, re_):
            el[(str(name), rs - org, ln)] += 1
    return {"k": "table", "id": batch.new_id(), "rows": rows, "tot": tot, "lo": lo - org, "hi": hi - org,
            "plo": (plo if plo is not None else lo) - org, "phi": (phi if phi is not None else hi) - org,
            "phases": sorted(phases), "elig": [list(k) + [n] for k, n in sorted(el.items())]}


def dtable_event(batch, reads, rng):
    from collections import defaultdict

    order = list(range(len(reads)))
    rng.shuffle(order)
    norm, muts = defaultdict(list), defaultdict(list)
    s = bare_sample(batch.gene)
    for i in order:
        r = reads[i]
        if r.cigar and r.seq and r.qual is not None and len(r.seq) == sum(n for o, n in r.cigar if o in (0, 1, 4, 7, 8)):
            direct_parse(batch.gene, r, norm, muts, s)
    return {"k": "dtable", "id": batch.new_id(), "rows": project_table(assemble(norm, muts), batch.gene, batch.org, batch.mnp_index)}


def _tb():
    import traceback

    return traceback.format_exc()


def hull(reads, margin=2):
    lo = min(r.start for r in reads) - margin
    hi = max(r.start + max(1, r.ref_len()) for r in reads) + margin
    return lo, hi


# --------------------------------------------------------------------------- genes
def write_yaml(text, name):
    p = os.path.join(tlc.scratch(), name)
    with open(p, "w") as f:
        f.write(text)
    return p


def toy_gene(genome, s19, s38, seed, pseudogene=True, indels=True, tag="toy"):
    # besides the contiguous multi-base substitutions of the toy gene: two GAPPED ones (like CYP2D6 C.C>G.T), one
    # function-altering and one neutral -- the re-added reference observations of a merge must go to the right sites
    text, info = gen_reads.toy_yaml(
        s19, s38, seed=seed, pseudogene=pseudogene, indels=indels,
        patches=[(258, "GACTCA"), (318, "TAGCGA")],
        extra_alleles={"9.001": [(260, "C.C>G.T", "rs260", "functional")], "1.004": [(320, "G.G>A.C", "rs320", None)]})
    path = write_yaml(text, f"{tag}_{genome}_{s19}{s38}_{seed}_{int(pseudogene)}{int(indels)}.yml")
    return gen_reads.load_gene(path, genome), text, path


def generated_gene(build, seed, tag="gdb"):
    """A gene from harness/gen_db.py (random RefSeq/genome alignment with indels, either strand, optional pseudogene)."""
    from .. import gen_db

    db = gen_db.random_db(random.Random(seed))
    text = gen_db.to_yaml(db)
    path = write_yaml(text, f"{tag}_{seed}.yml")
    return gen_db.load(path, build), text, path, gen_db.contig_length(db, build)


MC_REF = "ACACAACA"  # positions 1..8 of MC_Pileup; 1..7 mapped


def mc_gene(strand):
    """Realise MC_Pileup's gene: no pseudogene, no catalogued indels; the 8-base window is the last 7 mapped genome
    bases + the first base after the gene, with a substitution A>C at 3 and AA>CC at 5-6 (genome orientation)."""
    genome = "hg19"
    text0, _ = gen_reads.toy_yaml(strand, strand, seed=11, pseudogene=False, indels=False)
    g0 = gen_reads.load_gene(text0, genome, name="TOYS")
    end = max(g0.chr_to_ref) + 1  # first genome base after the mapped part
    w0 = end - 7  # genome position of window position 1
    n = len(g0.seq)

    def refpos(gpos):  # 1-based RefSeq coordinate of a genome position
        return g0.chr_to_ref[gpos] + 1

    win = MC_REF[:7]
    if strand == "+":
        patches = [(refpos(w0), win)]
        extra = {"20.001": [(refpos(w0 + 2), "A>C", "rsMC3", "functional")],
                 "21.001": [(refpos(w0 + 4), "AA>CC", "rsMC5", "functional")]}
    else:
        patches = [(refpos(w0 + 6), gen_reads.revcomp(win))]
        extra = {"20.001": [(refpos(w0 + 2), "T>G", "rsMC3", "functional")],
                 "21.001": [(refpos(w0 + 5), "TT>GG", "rsMC5", "functional")]}
    text, _ = gen_reads.toy_yaml(strand, strand, seed=11, pseudogene=False, indels=False, patches=patches, extra_alleles=extra,
                                 drop_alleles=("2.001", "5.001", "1.002"))
    path = write_yaml(text, f"mcgene_{strand}.yml")
    gene = gen_reads.load_gene(path, genome)
    del n
    return gene, text, path, w0


# --------------------------------------------------------------------------- random read sets (binding B)
def random_cigar(rng):
    n = rng.choice([1, 1, 2, 2, 3, 3, 4, 5, 6])
    ops = []
    for _ in range(n):
        op = rng.choice([0, 0, 0, 0, 7, 8, 1, 2, 4, 0, 7, 1, 2, 4]) if rng.random() > 0.03 else 5
        ops.append((op, rng.choice([1, 1, 2, 3, 5, 8, 13, 21, 30])))
    return ops


def random_read(rng, gene, contig, anchors, name, planted):
    cig = random_cigar(rng)
    while not any(op in (0, 1, 4, 7, 8) for op, _ in cig):  # a CIGAR without query bases cannot come from a read
        cig = random_cigar(rng)
    start = rng.choice(anchors) - rng.randrange(0, 25)
    start = max(600, start)
    seq, p = [], start
    for op, n in cig:
        if op in (0, 7, 8):
            for i in range(n):
                b = contig[p + i]
                if (p + i) in planted and rng.random() < 0.6:
                    b = planted[p + i]
                elif rng.random() < 0.08:
                    b = rng.choice("ACGTN")
                seq.append(b)
            p += n
        elif op == 2:
            p += n
        elif op in (1, 4):
            seq.extend(rng.choice("ACGT") for _ in range(n))
    flag = 0
    x = rng.random()
    if x < 0.05:
        flag |= 0x800
    elif x < 0.10:
        flag |= 0x100
    elif x < 0.15:
        flag |= 0x400
    elif x < 0.19:
        flag |= 0x4
    if rng.random() < 0.5:
        flag |= 0x10
    q = [rng.choice([0, 1, 2, 9, 10, 19, 20, 28, 29, 30, 38, 39, 40, rng.randrange(0, 46)]) for _ in seq]
    r = gen_reads.Read(name, start, cig, "".join(seq), q, rng.choice([0, 1, 9, 10, 20, 28, 29, 38, 39, 60, rng.randrange(0, 61)]), flag)
    y = rng.random()
    if y < 0.012:
        r.seq, r.qual = None, None
    elif y < 0.05:
        r.contig = "21"
    if not seq:
        r.seq, r.qual = None, None
    return r


def split_variant(rng, r):
    js = [j for j, (op, n) in enumerate(r.cigar) if op in (0, 7, 8)]
    if not js or not r.seq:
        return None
    j = rng.choice(js)
    op, n = r.cigar[j]
    if n >= 2:
        a = rng.randrange(1, n)
        new = [(rng.choice([0, 7, 8]), a), (rng.choice([0, 7, 8]), n - a)]
    else:
        new = [(rng.choice([o for o in (0, 7, 8) if o != op]), n)]
    return r.copy(cigar=r.cigar[:j] + new + r.cigar[j + 1:], name=str(r.name) + "s")


def planted_bases(gene):
    pl = {}
    for pos, op in gene.mutations:
        if ">" in op:
            l, r = op.split(">")
            for i, (a, b) in enumerate(zip(l, r)):
                if a != ".":
                    pl[pos + i] = b
    return pl


def anchors_of(gene):
    w = gene.get_wide_region()
    lo, hi = min(gene.chr_to_ref), max(gene.chr_to_ref)
    a = [w.start, w.start, w.end, w.end, lo, lo, hi, hi + 1] + [p for p, _ in gene.mutations] * 2
    return a


def random_sets(ctx, rng, nsets, nreads, gene, text, path, genome, label, indelpost=True):
    w = gene.get_wide_region()
    contig_len = max(20000, w.end + 2000)
    contig = gen_reads.contig(gene, contig_len, random.Random(rng.randrange(1 << 30)))
    batch = Batch(gene, 500, min(contig_len - 1, w.end + 400), yml=text, genome=genome, label=label)
    anchors, planted = anchors_of(gene), planted_bases(gene)
    meta = {}
    for si in range(nsets):
        focus = [rng.choice(anchors)] * 3 + [rng.choice(anchors)]
        reads = []
        for i in range(nreads):
            nm = f"s{si}r{i}" if (i == 0 or rng.random() > 0.3) else reads[rng.randrange(len(reads))].name
            reads.append(random_read(rng, gene, contig, focus, nm, planted))
        first = len(batch.rows)
        ids = batch.add_read_events(reads)
        # split / relabel variants of a few reads: judged against their original
        for k in range(3):
            i = rng.randrange(len(reads))
            ev0 = batch.rows[first + i]
            if not ev0["hasdirect"]:
                continue
            sv = split_variant(rng, reads[i])
            if sv is None:
                continue
            t, ph = direct_parse(gene, sv)
            batch.rows.append({"k": "read", "id": batch.new_id(), "fresh": False, "r": spec_read(sv, batch.org, gene.chr),
                               "hasdirect": True, "direct": project_table(t, gene, batch.org, batch.mnp_index),
                               "dphase": project_phase(ph, batch.org, mnp_index=batch.mnp_index), "mnpq": mnp_quals(t, gene, batch.org, batch.mnp_index, batch.G),
                               "splitof": ev0["id"], "orig": ev0["r"], "origdirect": ev0["direct"]})
            reads.append(sv)
            ids.append(batch.rows[-1]["id"])
        bam = os.path.join(tlc.scratch(), f"c06_{label}_{si}.bam")
        gen_reads.write_bam(bam, gene.chr, contig_len, reads, extra_contigs=[("21", 30000)])
        sample = None
        for attempt in (1, 2):
            try:
                sample = load_sample(gene, bam, indelpost)
                break
            except Exception as ex:  # noqa: Sample() must not die on any set of alignments
                noseq = [r for r in reads if not r.seq and r.cigar and not r.flag & 0x100]
                termdel = [r for r in reads if r.cigar and r.seq and 2 in (r.cigar[0][0], r.cigar[-1][0])]
                ctx.violation("SampleConstruction", {"site": "indelpost.pileup" if "indelpost" in _tb() else "sam.Sample", "exception": type(ex).__name__,
                                                     "primary_read_without_sequence": bool(noseq), "terminal_deletion": bool(termdel)},
                              {"kind": "random", "label": label, "yaml": text, "genome": genome, "contig_len": contig_len, "indelpost": indelpost,
                               "reads": [dict(r.as_dict(), contig=r.contig) for r in reads], "lo": 0, "hi": 0}, f"{type(ex).__name__}: {ex}")
                del batch.rows[first:]
                if attempt == 2 or not (noseq or termdel):
                    break
                # continue with the set minus the reads that have no sequence / begin or end with a deletion
                reads = [r for r in reads if (r.seq or not r.cigar) and r not in termdel]
                ids = batch.add_read_events(reads)
                batch.rows[first]["fresh"] = True
                gen_reads.write_bam(bam, gene.chr, contig_len, reads, extra_contigs=[("21", 30000)])
        if sample is None:
            continue
        lo, hi = hull([r for r in reads if (r.contig or gene.chr) == gene.chr])
        lo, hi = max(lo, batch.lo), min(hi, batch.hi - 1)
        te = table_event(batch, sample, lo, hi)
        batch.rows.append(dtable_event(batch, reads, rng))
        batch.rows.append(te)
        os.unlink(bam)
        os.unlink(bam + ".bai")
        case = {"kind": "random", "label": label, "yaml": text, "genome": genome, "contig_len": contig_len, "indelpost": indelpost,
                "reads": [dict(r.as_dict(), contig=r.contig) for r in reads], "lo": lo, "hi": hi}
        for i in ids + [te["id"], batch.rows[-2]["id"]]:
            meta[i] = case
        ctx.traces += 1 + len(reads)
        for r in reads:
            ctx.count(1, key=(gen_reads.cigar_string(r.cigar), r.flag & 0xD04, r.start - w.start if abs(r.start - w.start) < 40 else None),
                      nontrivial=bool(r.cigar and r.seq))
    batch.cases = meta
    return batch


def prepare_batch(batch, canaries_rng=None):
    """Plant canaries; returns (rows, canary map)."""
    rows = batch.rows
    canary = {}
    if canaries_rng is not None:
        rows = list(rows)
        rng = canaries_rng
        # corrupted copies of table / read events, appended as separate sets is not possible for table events
        # (they refer to the current set), so corrupt IN PLACE copies inserted right after the original
        out = [rows[0]]
        for ev in rows[1:]:
            out.append(ev)
            if ev["k"] == "table" and ev["rows"] and rng.random() < 0.25:
                c = json.loads(json.dumps(ev))
                c["id"] = batch.new_id()
                kind = rng.choice(["count", "quality", "total", "elig", "phase"])
                if kind == "count":
                    c["rows"][rng.randrange(len(c["rows"]))][6] += 1
                elif kind == "quality":
                    row = c["rows"][rng.randrange(len(c["rows"]))]
                    row[4] = 40 if row[4] != 40 else 35
                elif kind == "total":
                    nz = [t for t in c["tot"] if t[1] > 0] or c["tot"]
                    nz[rng.randrange(len(nz))][1] += 1
                elif kind == "elig":
                    if not c["elig"]:
                        continue
                    c["elig"].pop(rng.randrange(len(c["elig"])))
                elif kind == "phase":
                    if not c["phases"]:
                        continue
                    ph = c["phases"][rng.randrange(len(c["phases"]))][1]
                    e = ph[rng.randrange(len(ph))]
                    e[1], e[2], e[3] = ("ins", 7, 7)
                canary[c["id"]] = (kind, ev["id"])
                out.append(c)
            elif ev["k"] == "read" and ev["hasdirect"] and ev["direct"] and rng.random() < 0.02:
                c = json.loads(json.dumps(ev))
                c["id"] = batch.new_id()
                c["fresh"] = False
                c["splitof"] = 0
                c["direct"][rng.randrange(len(c["direct"]))][0] += 1
                canary[c["id"]] = ("direct", ev["id"])
                # a corrupted read event must not change the current set: mark as non-appending duplicate
                c["k"] = "read"
                c["dupcheck"] = True
                out.append(c)
        rows = out
    for ev in rows[1:]:
        ev.setdefault("dupcheck", False)
        if "projection_error" in ev:
            pass
    return rows, canary


def trace_job(rows, label):
    """Runs in a worker thread: one TLC process over one batch."""
    d = tlc.scratch()
    path = os.path.join(d, f"trace_{label.replace(':', '_')}_{threading.get_ident()}_{len(rows)}.ndjson")
    tlc.write_ndjson(path, rows)
    r = tlc.run("trace/PileupTrace", "trace/PileupTrace.cfg", workers=1, env={"TRACE_FILE": path}, timeout=3000)
    os.unlink(path)
    return r


def judge_batch(ctx, batch, label, rows, canary, r):
    ctx.states += r.distinct
    ctx.transitions += r.generated
    ctx.mc_runs.append(dict(r.summary(), module=f"PileupTrace[{label}]", rows=len(rows)))
    if not r.ok:
        raise MachineryError(f"trace batch {label} did not complete: {r.violated}\n{r.error_text[:3000]}")
    done = [p for p in r.prints if len(p) >= 3 and p[1] == "DONE"]
    if not done or done[-1][2] != len(rows):
        raise MachineryError(f"trace batch {label}: consumed {done[-1][2] if done else '?'} of {len(rows)} rows")
    rej = [p[1:] for p in r.prints if p[1] != "DONE"]
    neutral_only = set()
    if any(x[0] not in canary for x in rej) and any(not m["func"] for m in rows[0]["mnps"]):
        # second opinion: the same events judged with only the FUNCTIONAL catalogued MNPs merged (what aldy implements);
        # events accepted there were rejected only because a neutral catalogued MNP was not merged
        G2 = json.loads(json.dumps(rows[0]))
        for m in G2["mnps"]:
            if not m["func"]:
                m["alt"] = list(m["ref"])
        r2 = trace_job([G2] + rows[1:], label + "_func")
        ctx.states += r2.distinct
        ctx.transitions += r2.generated
        ctx.mc_runs.append(dict(r2.summary(), module=f"PileupTrace[{label}, functional MNPs only]", rows=len(rows)))
        rej2 = {p[1] for p in r2.prints if p[1] != "DONE"}
        neutral_only = {x[0] for x in rej if x[0] not in rej2}
    return _judge(ctx, batch, rows, canary, rej, neutral_only)


def run_batch(ctx, batch, label, canaries_rng=None):
    rows, canary = prepare_batch(batch, canaries_rng)
    return judge_batch(ctx, batch, label, rows, canary, trace_job(rows, label))


def _judge(ctx, batch, rows, canary, rej, neutral_only=()):
    if os.environ.get("C06_DUMP"):
        tlc.write_ndjson(os.path.join(os.environ["C06_DUMP"], batch.label.replace(":", "_") + ".ndjson"), rows)
    rejected = {}
    for r in rej:
        rejected.setdefault(r[0], r)
    for cid, (kind, src) in canary.items():
        if src in rejected:
            continue
        ctx.canary(cid in rejected)
    for ev in rows[1:]:
        if "projection_error" in ev and ev["id"] not in rejected:
            rejected[ev["id"]] = [ev["id"], "Projection", ev["projection_error"]]
    for i, r in rejected.items():
        if i in canary:
            continue
        case = batch.cases.get(i, {"label": batch.label})
        clause = r[1]
        if clause.startswith("Spec/") or clause.startswith("Harness/"):
            raise MachineryError(f"spec-internal disagreement on event {i}: {clause} ({batch.label})")
        ev = next((e for e in rows if e.get("id") == i), None)
        shape = ""
        if ev is not None and ev["k"] == "read":
            shape = "".join("MIDNSHP=X"[o] for o, _ in ev["r"]["cigar"])
        if i in neutral_only:
            ctx.violation("MnpMerge", {"site": "sam.Sample._multi_sites", "clause": "MnpMerge", "mnp_functional": False, "underlying": clause},
                          dict(case, event_id=i, event=ev), f"event {i} rejected ({clause}) only because a NEUTRAL catalogued multi-nucleotide substitution was not merged")
            continue
        ctx.violation(clause, {"site": "sam.Sample", "clause": clause, "event": ev["k"] if ev else "?", "ops": shape, "batch": batch.label.split(":")[0]},
                      dict(case, event_id=i, event=ev), f"event {i} ({ev['k'] if ev else '?'}) rejected: {clause} in {batch.label}")
    return rejected


# --------------------------------------------------------------------------- binding (A): MC pool
def pool_reads(pool, w0, contig, rng, limit=None):
    """Pool records (window coordinates) -> gen_reads.Read over the realised gene (window position 1 = genome w0)."""
    idx = list(range(len(pool)))
    if limit and len(idx) > limit:
        rng.shuffle(idx)
        idx = sorted(idx[:limit])
    out = []
    for i in idx:
        p = pool[i]
        flag = (0x4 if p["unmapped"] else 0) | (0x800 if p["supp"] else 0) | (0x100 if p["secondary"] else 0) | (0x400 if p["dup"] else 0)
        seq = "".join(LETTER[b] for b in p["seq"]) if p["seq"] else None
        r = gen_reads.Read(f"q{i}", w0 + p["start"] - 1, [tuple(c) for c in p["cigar"]], seq, list(p["qual"]) if seq else None, p["mapq"], flag)
        if not p["oncontig"]:
            r.contig = "21"
        out.append(r)
    return out


def binding_a(ctx, rng, quick):
    out = os.path.join(tlc.scratch(), "pileup_pool.ndjson")
    r = ctx.mc("gen/PileupGen", "gen/PileupGen_quick.cfg" if quick else "gen/PileupGen.cfg", workers=1, env={"OUT_FILE": out},
               label="PileupGen(pool emission)", timeout=3000)
    pool = tlc.read_ndjson(out)
    got = [p for p in r.prints if p[1] == "POOL"]
    if not got or got[0][2] != len(pool):
        raise MachineryError("pool emission mismatch")
    ctx.parts["pool"] = {"reads": len(pool)}
    batches = []
    for strand in ("+", "-"):
        gene, text, path, w0 = mc_gene(strand)
        # the realised gene must BE the gene of MC_Pileup
        G, org, idx, bad = gene_context(gene, w0, w0 + 8)
        want = {"len": 8, "ref": [BASE[c] for c in MC_REF[:7]] + [4], "mapped": [[1, 7]], "wide8": 8, "mnps": [{"pos": 5, "offs": [0, 1], "ref": [0, 0], "alt": [1, 1]}], "phase": [0, 0, 1, 0, 1, 0, 0, 0]}
        if bad or G["ref"] != want["ref"] or G["mapped"] != want["mapped"] or G["wide"][1] != 8 or [{k: v for k, v in m.items() if k != "func"} for m in G["mnps"]] != want["mnps"] or G["phase"] != want["phase"]:
            raise MachineryError(f"realised MC gene ({strand}) differs from MC_Pileup's: {G}")
        contig_len = 20000
        contig = gen_reads.contig(gene, contig_len, random.Random(3))
        contig = contig[: w0 + 7] + MC_REF[7] + contig[w0 + 8:]
        reads = pool_reads(pool, w0, contig, rng, limit=(4000 if quick else None))
        batch = Batch(gene, w0 - 20, w0 + 40, yml=text, genome="hg19", label=f"A:mcgene{strand}")
        per = 400
        meta = {}
        for a in range(0, len(reads), per):
            chunk = reads[a:a + per]
            ids = batch.add_read_events(chunk)
            bam = os.path.join(tlc.scratch(), f"c06_A_{strand}_{a}.bam")
            gen_reads.write_bam(bam, gene.chr, contig_len, chunk, extra_contigs=[("21", 30000)])
            sample = load_sample(gene, bam)
            te = table_event(batch, sample, w0 - 10, w0 + 30)
            batch.rows.append(te)
            os.unlink(bam)
            os.unlink(bam + ".bai")
            case = {"kind": "pool", "strand": strand, "yaml": text, "genome": "hg19", "contig_len": contig_len, "indelpost": True,
                    "reads": [dict(x.as_dict(), contig=x.contig) for x in chunk], "lo": w0 - 10, "hi": w0 + 30}
            for i in ids:
                meta[i] = dict(case, reads=[dict(chunk[ids.index(i)].as_dict(), contig=chunk[ids.index(i)].contig)])
            meta[te["id"]] = case
            ctx.traces += len(chunk) + 1
        for x in reads:
            ctx.count(1, key=("A", strand, x.name), nontrivial=True)
        batch.cases = meta
        batches.append(batch)
    return batches


# --------------------------------------------------------------------------- NA10860
NA_BAM = {"hg19": "/repo/aldy/tests/resources/NA10860.bam", "hg38": "/repo/aldy/tests/resources/NA10860_hg38.bam"}


def na10860(ctx, rng, nwin, genome="hg19", windows=None):
    import pysam

    t0 = time.time()
    from aldy.gene import Gene
    from aldy.profile import Profile
    from aldy.sam import Sample

    gpath = os.path.join(aldyenv.ALDY_SRC, "aldy/resources/genes/cyp2d6.yml")
    gene = Gene(gpath, genome=genome)
    bam_path = NA_BAM[genome]
    prof = Profile.load(gene, "illumina")
    with aldyenv.quiet_stderr():
        sample = Sample(gene, prof, bam_path, store_reads=True)
    t_sample = time.time() - t0
    w = gene.get_wide_region()
    reads = []
    with pysam.AlignmentFile(bam_path) as f:
        names = {s["SN"] for s in f.header["SQ"]}
        chrom = gene.chr if gene.chr in names else "chr" + gene.chr
        for a in f.fetch(chrom, max(0, w.start - 700), w.end + 700):
            if a.reference_id < 0:
                continue
            reads.append(gen_reads.Read(a.query_name, a.reference_start, list(a.cigartuples or []), a.query_sequence,
                                        list(a.query_qualities) if a.query_qualities is not None else None, a.mapping_quality, a.flag))
    sites = sorted({p for p, _ in gene.mutations})
    lo_all, hi_all = hull(reads, 5)
    batch = Batch(gene, lo_all, hi_all, yml="cyp2d6", genome=genome, label=f"B:NA10860{genome}")
    wins = []
    for _ in range(nwin):
        a = rng.randrange(w.start - 100, w.end - 100)
        wins.append((a, a + 199))
    ms = sorted(multi_sites(gene))
    for p in rng.sample(sites, min(len(sites), nwin)) + ms:
        wins.append((p - 15, p + 15))
    if windows:
        wins = list(windows)
    meta = {}
    for lo, hi in wins:
        sel = [r for r in reads if r.start - 1 <= hi and r.start + max(1, r.ref_len()) + 1 >= lo]
        if not sel:
            continue
        if any(r.qual is None and r.seq for r in sel):
            continue
        ids = batch.add_read_events(sel)
        te = table_event(batch, sample, lo, hi, lo, hi, keep=lambda rs, re_: rs - 1 <= hi and max(re_, rs + 1) + 1 >= lo)
        batch.rows.append(te)
        case = {"kind": "na10860", "genome": genome, "lo": lo, "hi": hi}
        for i in ids + [te["id"]]:
            meta[i] = case
        ctx.traces += 1
        ctx.count(len(sel), key=("NA10860", genome, lo), nontrivial=True)
    batch.cases = meta
    ctx.parts["NA10860" + genome] = {"reads_in_region": len(reads), "windows": len(wins), "sample_load_s": round(t_sample, 1)}
    return batch


# --------------------------------------------------------------------------- main
def run(ctx):
    aldyenv.setup()
    quick = ctx.tier == "quick"
    rng = random.Random(6000 + ctx.seed)
    ctx.rule = (
        "MC: single reads = every CIGAR of <=3 (thorough: <=4) operations over {M,I,D,S,H,=,X}, lengths 1-2 (plus <=3 ops with lengths 1-3 "
        "in thorough), starts {1,4,7} x 4 base patterns, region-edge starts {8,9} and 7 flag cases on <=2-op CIGARs, 2 quality classes; "
        "2 (thorough 3) reads of a 77-read pool in every order. (A) the emitted pool through real BAM+Sample and direct _parse_read on "
        "both strands. (B) random read sets (1-6 ops, all flags, paired names, other contig, no sequence) on 4 small genes + 2 builds of a gen_db gene + NA10860 "
        "windows. distinct = (CIGAR, flags, start offset near the region edge) / pool read; non-trivial = has CIGAR and sequence."
    )
    ctx.trusted = ["TLC", "pysam/htslib BAM writing+reading", "harness/checks/c06.py projections (ins entries dropped; del/MNP base quality and "
                   "everything outside the mapped part compared by mapping quality and count only)", "harness/gen_reads.py"]
    ctx.assumptions = [
        "CIGAR alphabet {M,I,D,S,H,=,X} (N and P are outside the property's quantifier)",
        "query sequence length matches the CIGAR; reads carry base qualities",
        "catalogued multi-nucleotide substitutions do not overlap each other and match the reference",
        "a read abutting the wide gene region (ends exactly at its start / starts exactly at its end) counts as eligible, as _in_region does (DESIGN C06)",
        "phase record: a site counts as covered when a read has an aligned base, a deletion start or an insertion anchor there (a site inside a deletion is not required to be recorded)",
        "insertion entries of the table are not compared (the property constrains only non-insertion observations); htslib's own pileup is replaced by the spec's declarative definition",
    ]
    # --- MC (in background threads; TLC is a separate process)
    mc_jobs = [("mc/MC_Pileup", "mc/MC_Pileup_single_quick.cfg" if quick else "mc/MC_Pileup_single.cfg", "MC_Pileup(single)"),
               ("mc/MC_Pileup", "mc/MC_Pileup_multi_quick.cfg" if quick else "mc/MC_Pileup_multi.cfg", "MC_Pileup(multi)")]
    if not quick:
        mc_jobs.append(("mc/MC_Pileup", "mc/MC_Pileup_single_len3.cfg", "MC_Pileup(single,len3)"))
    results, errors = {}, []

    def job(mod, cfg, label):
        try:
            results[label] = tlc.run(mod, cfg, workers=6 if quick else 8, timeout=3400, coverage=not quick)
        except Exception as ex:  # noqa
            errors.append((label, ex))

    if os.environ.get("VERIF_DEV_SKIP_MC"):  # development only (mutant runs): the spec-level MC does not depend on /repo
        mc_jobs = []
    threads = [threading.Thread(target=job, args=j) for j in mc_jobs]
    for t in threads:
        t.start()
    from concurrent.futures import ThreadPoolExecutor

    pool = ThreadPoolExecutor(max_workers=6)
    pending = []
    T0 = time.time()

    def submit(b):
        rows, canary = prepare_batch(b, random.Random(rng.randrange(1 << 30)))
        pending.append((b, rows, canary, pool.submit(trace_job, rows, b.label)))
        if os.environ.get("C06_TIMING"):
            print(f"[timing] built {b.label} rows={len(rows)} at {time.time() - T0:.1f}s")

    try:
        # --- (B) random sets first (they do not need TLC's pool emission)
        nsets, nreads = (30, 40) if quick else (150, 60)
        confs = [("hg19", "+", "-", 1, True, True, True), ("hg38", "+", "-", 2, True, True, True),
                 ("hg19", "-", "+", 3, False, False, True), ("hg19", "+", "-", 4, True, False, False)]
        for genome, s19, s38, seed, pseudo, indels, ip in confs:
            gene, text, path = toy_gene(genome, s19, s38, seed + 10 * ctx.seed, pseudogene=pseudo, indels=indels)
            label = f"B:{genome}{'+' if gene.strand > 0 else '-'}p{int(pseudo)}i{int(indels)}"
            submit(random_sets(ctx, rng, nsets, nreads, gene, text, path, genome, label, indelpost=ip))
        for build in ("hg19", "hg38"):
            gene, text, path, _ = generated_gene(build, 100 + ctx.seed)
            label = f"B:gen_db{100 + ctx.seed}{build}{'+' if gene.strand > 0 else '-'}"
            submit(random_sets(ctx, rng, nsets // 2, nreads, gene, text, path, build, label, indelpost=True))
        # --- (A)
        for b in binding_a(ctx, rng, quick):
            submit(b)
        submit(na10860(ctx, rng, 3 if quick else 40, "hg19"))
        if not quick:
            submit(na10860(ctx, rng, 40, "hg38"))
        for b, rows, canary, fut in pending:
            judge_batch(ctx, b, b.label, rows, canary, fut.result())
            if os.environ.get("C06_TIMING"):
                print(f"[timing] judged {b.label} at {time.time() - T0:.1f}s")
            ctx.sample({"batch": b.label, "event": next(e for e in b.rows if e.get("k") == "read" and e["hasdirect"] and len(e["r"]["cigar"]) > 1)}, cap=4)
    finally:
        pool.shutdown(wait=True)
        for t in threads:
            t.join()
    if errors:
        raise errors[0][1]
    for label, r in results.items():
        ctx.states += r.distinct
        ctx.transitions += r.generated
        ctx.mc_runs.append(dict(r.summary(), module=label, coverage={k: v for k, v in r.coverage.items()} if r.coverage else None))
        if not r.ok:
            raise MachineryError(f"spec-level check {label} failed: {r.violated}\n{r.error_text[:3000]}")
        if os.environ.get("C06_TIMING"):
            print(f"[timing] MC {label} wall={r.wall:.1f}s")


def replay(path):
    from ..core import Ctx

    aldyenv.setup()
    with open(path) as f:
        case = json.load(f)["case"]
    ctx = Ctx("C06", "quick", 0)
    if case.get("kind") == "na10860":
        b = na10860(ctx, random.Random(1), 0, case.get("genome", "hg19"), windows=[(case["lo"], case["hi"])])
        rej = run_batch(ctx, b, "replay")
        if rej or ctx.violations:
            print(f"VIOLATION property=C06 replay={path}")
            print("  rejected:", list(rej.values())[:5])
            return 1
        print("replay: accepted")
        return 0
    gene = gen_reads.load_gene(write_yaml(case["yaml"], "replay.yml"), case["genome"])
    reads = [gen_reads.Read(d["name"], d["start"], [tuple(c) for c in d["cigar"]], d["seq"], d["qual"], d["mapq"], d["flag"], contig=d.get("contig")) for d in case["reads"]]
    w = gene.get_wide_region()
    lo, hi = hull([r for r in reads if (r.contig or gene.chr) == gene.chr], 30)
    batch = Batch(gene, min(lo, case["lo"]) - 5, max(hi, case["hi"]) + 5, label="replay")
    batch.add_read_events(reads)
    bam = os.path.join(tlc.scratch(), "replay.bam")
    gen_reads.write_bam(bam, gene.chr, case["contig_len"], reads, extra_contigs=[("21", 30000)])
    try:
        sample = load_sample(gene, bam, case.get("indelpost", True))
    except Exception as ex:  # noqa
        print(f"Sample() raised {type(ex).__name__}: {ex}")
        print(f"VIOLATION property=C06 replay={path}")
        return 1
    batch.rows.append(table_event(batch, sample, case["lo"], case["hi"]))
    del w
    rej = run_batch(ctx, batch, "replay")
    if rej or ctx.violations:
        print(f"VIOLATION property=C06 replay={path}")
        print("  rejected:", list(rej.values())[:5])
        return 1
    print("replay: accepted")
    return 0
