"""C17 — a debug dump replays to the same result.

Spec: spec/DumpReplay.tla (History fragment GenotypeDebug / GenotypeDump; Snapshot, Restore, Reads(stage),
      invariants SnapshotCoversReads, RestoreIsSnapshotInverse, SameResult, PhaseLemma, DropBreaks).
  MC : spec/mc/MC_DumpReplay.* — exhaustive small universe: the repaired writer satisfies every invariant; a writer
       that omits any one component is noticed (DropBreaks); the code as is (norm aliased by _make_coverage),
       `len(v) > 2`, profile options setting a reset parameter, and a skipped profile.update each violate
       RestoreIsSnapshotInverse (expected counterexamples = anti-vacuity + design-level witness of the finding).
  (B): simulated short-read samples (harness/gen_reads.py over toy_yaml genes of both strands and harness/gen_db.py
       genes; catalogued indels, extra copy / whole-gene deletion / fusion, sampling noise, junk reads, low-depth
       foreign haplotypes, reads with deletions outside the RefSeq range, gap > 0, max_minor_solutions > 1, user
       structure, all three output formats) are genotyped TWICE:
         1. through the REAL command line entry, in process: aldy.__main__.main(["genotype", BAM, "-p", PROFILE.bam,
            "-n", REGION, "-g", GENE.yml, "--genome", B, "-o", OUT, "--debug", PREFIX, "--param", ...]) — so the
            PREFIX.tar.gz archive is built by aldy's own code (__main__.py:417-441);
         2. aldy.genotype.genotype(GENE.yml, PREFIX.tar.gz, <same parameters>) through pipeline.run_genotype.
       Both runs are observed with pipeline.Recorder (stage events), a capturing subclass of sam.Sample (evidence
       fields), a call log around genotype() (per-gene errors) and the output file; spec/trace/DumpTrace.tla checks
       the clauses.  Multi-gene archives: `-g a.yml,b.yml` (two generated toy genes on one contig); every gene is
       replayed from the list AND on its own.  NA10860 / CYP2D6 / illumina in the thorough tier.
"""
import gzip
import json
import os
import pickle
import random
import tarfile
import time
from collections import Counter

from .. import aldyenv, gen_reads, par, pipeline, tlc
from ..core import MachineryError

NON_PARAM = ("data", "cn_region", "neutral_value", "name")
DUMP_TUPLE = ("name", "profile", "cn", "norm", "muts", "phases", "fusion", "indels")
FOREIGN = "foreign-op-outside-refseq-counted-twice"
RESET_OPTS = "reset-param-from-profile-options"
RESET_PARAMS = {"display_format", "debug_probe", "debug_novel", "min_avg_coverage"}   # sam.py:327-330


# --------------------------------------------------------------------------- projections
def _num(x):
    x = round(float(x), 9)
    return 0.0 if x == 0 else x


def canon(x):
    """JSON-able value with floats rounded to 1e-9 (a replay must reproduce scores, not the last bit of a sum)."""
    if isinstance(x, float):
        return _num(x)
    if isinstance(x, dict):
        return {str(k): canon(v) for k, v in x.items()}
    if isinstance(x, (list, tuple)):
        return [canon(v) for v in x]
    return x


def text(x):
    return json.dumps(canon(x), sort_keys=True, separators=(",", ":"))


def bag_text(quals):
    c = Counter((float(m), float(q)) for m, q in quals)
    return ",".join(f"{m:g}/{q:g}*{n}" for (m, q), n in sorted(c.items()))


def project_evidence(s):
    """Evidence fields of a constructed sam.Sample (DumpReplay.EvFields)."""
    cov = getattr(s, "coverage", None)
    prof = s.profile
    rows = []
    if cov is not None:
        for p in sorted(cov._coverage):
            for o in sorted(cov._coverage[p]):
                if cov._coverage[p][o]:
                    rows.append([int(p), o, bag_text(cov._coverage[p][o])])
    data = (prof.data or {}).get(s.gene.name, {}) if prof is not None and isinstance(prof.data, dict) else {}
    return {
        "name": str(s.name),
        "genome": str(s.gene.genome),
        "params": [[n, repr(v)] for n, v in sorted(prof.__dict__.items()) if n not in NON_PARAM] if prof is not None else [],
        "pdata": [["profile", str(prof.name)], ["cn_region", str(prof.cn_region)], ["neutral", repr(prof.neutral_value)]]
        + [[str(r), repr(v)] for r, v in sorted(data.items())] if prof is not None else [],
        "cn": [[int(p), int(n)] for p, n in sorted(getattr(s, "_dump_cn", {}).items()) if n],
        "coverage": rows,
        "indels": [[int(p), o, int(v[0]), int(v[1])] for (p, o), v in sorted((getattr(s, "_indel_sites", None) or {}).items())],
        "covindels": [[int(p), o, int(v[0]), int(v[1])] for (p, o), v in sorted((cov._indels or {}).items())] if cov is not None else [],
        "phases": [{"n": str(k), "sites": {str(p): o for p, o in sorted(v.items())}} for k, v in getattr(s, "phases", {}).items()],
        "fusion": [[str(k), text(v)] for k, v in sorted(getattr(s, "_fusion_counter", {}).items(), key=lambda kv: str(kv[0]))],
    }


def project_load(s):
    cov = getattr(s, "coverage", None)
    if cov is None:
        return []
    out = [f"{g}/{r}={_num(v)!r}" for (g, r), v in sorted(cov._region_coverage.items())]
    return out + [f"avg={_num(cov.average_coverage())!r}"]


def phase_view(phases):
    return [p["sites"] for p in phases if len(p["sites"]) > 1]


def inspect_archive(path):
    """Independent look into the archive: members, and per gene the pickled components (by position)."""
    out = {"members": [], "genes": {}}
    if not os.path.exists(path):
        return out
    with tarfile.open(path, "r:gz") as tar:
        names = tar.getnames()
        out["members"] = sorted(names)
        for n in names:
            if not n.endswith(".dump"):
                continue
            g = n[:-5].rsplit(".", 1)[-1]
            info = {"member": n, "fields": [], "foreign": {}}
            try:
                tup = pickle.load(gzip.open(tar.extractfile(n)))
                for i, f in enumerate(DUMP_TUPLE):
                    if i < len(tup):
                        info["fields"] += ["params", "pdata"] if f == "profile" else [f]
                if len(tup) > 4 and isinstance(tup[4], dict):
                    info["muts"] = {(p, o): sum(c.values()) if hasattr(c, "values") else len(c) for (p, o), c in tup[4].items()}
            except Exception as ex:  # unreadable dump: the replay will say so
                info["error"] = f"{type(ex).__name__}: {ex}"
            if any(m.endswith(f".{g}.genome") for m in names):
                info["fields"].append("genome")
                info["genome"] = tar.extractfile([m for m in names if m.endswith(f".{g}.genome")][0]).read().decode().strip()
            out["genes"][g] = info
    return out


# --------------------------------------------------------------------------- observation of a run
class Observe:
    """Collect every sam.Sample constructed and every single-gene genotype() call (with its error) while active."""

    def __init__(self):
        self.samples, self.calls, self.maxlevel = [], [], 0

    def __enter__(self):
        import logbook
        import aldy.__main__ as M
        import aldy.genotype as G
        import aldy.sam as S

        obs = self
        self._mods = (M, G, S)
        self._saved = (M.genotype, G.genotype, S.Sample)
        base = S.Sample

        class CapturingSample(base):  # type: ignore
            def __init__(self, *a, **k):
                obs.samples.append(self)
                super().__init__(*a, **k)

        orig = G.genotype

        def genotype(gene_db, *a, **k):
            single = "," not in gene_db and gene_db not in ("all", "pharmacoscan")
            rec = {"gene_db": gene_db, "single": single, "error": "", "keys": None}
            try:
                res = orig(gene_db, *a, **k)
                rec["keys"] = list(res)
                rec["res"] = res
                return res
            except BaseException as ex:
                rec["error"] = f"{type(ex).__name__}: {ex}"
                raise
            finally:
                obs.calls.append(rec)

        S.Sample = CapturingSample
        G.genotype = genotype
        M.genotype = genotype

        def note(record):
            obs.maxlevel = max(obs.maxlevel, record.level)

        self._proc = logbook.Processor(note)
        self._proc.push_application()
        self._depth = len(list(logbook.Handler.stack_manager.iter_context_objects()))
        return self

    def __exit__(self, *exc):
        import logbook

        M, G, S = self._mods
        M.genotype, G.genotype, S.Sample = self._saved
        self._proc.pop_application()
        # main() pushes a stderr handler (and --debug a file handler) per call and never pops them
        while len(list(logbook.Handler.stack_manager.iter_context_objects())) > self._depth:
            top = next(iter(logbook.Handler.stack_manager.iter_context_objects()))
            try:
                top.pop_application()
                if hasattr(top, "close"):
                    top.close()
            except Exception:
                break
        return False


def run_cli(argv):
    """The real command-line entry, in process."""
    import aldy.__main__ as M

    code = None
    with Observe() as obs, pipeline.Recorder() as rec:
        try:
            M.main(argv)
        except SystemExit as ex:
            code = ex.code
    return obs, rec.events, code


def gene_events(run, gname, gene_db_keys, output, partial=False):
    """Per-gene projection of one run: evidence + result parts (each a list of canonical texts)."""
    obs, events = run["obs"], run["events"]
    ss = [s for s in obs.samples if s.gene.name == gname]
    calls = [c for c in obs.calls if c["single"] and c["gene_db"].lower() in gene_db_keys]
    err = [c["error"] for c in calls if c["error"]]
    final = []
    for c in calls:
        for v in (c.get("res") or {}).values():
            final += [text(pipeline.minor_snap(s)) for s in v]
    if run.get("crash") and not err:      # a failure outside the per-gene calls (none seen so far)
        err = [run["crash"]]
    ev = project_evidence(ss[-1]) if ss else None
    es = [e for e in events if e.get("gene") == gname]
    res = {
        "name": [ss[-1].name] if ss else [],
        "error": err,
        "load": project_load(ss[-1]) if ss else [],
        "cn": [text({k: e.get(k) for k in ("user", "do_copy_number", "sols", "returned", "err")}) for e in es if e["k"] == "cn"],
        "major": [text({k: e.get(k) for k in ("cn", "identifier", "sols", "returned", "err")}) for e in es if e["k"] == "major"],
        "minor": [text({k: e.get(k) for k in ("k", "major", "majors", "max_solutions", "sols", "returned", "err")}) for e in es if e["k"] in ("minor", "minor_solve")],
        "final": final,
        "output": [] if partial else output.split("\n"),
    }
    return ev, res


EMPTY_EV = {"name": "", "genome": "", "params": [], "pdata": [], "cn": [], "coverage": [], "indels": [], "covindels": [],
            "phases": [], "fusion": []}


# --------------------------------------------------------------------------- sample construction
def _alleles_of(gene, cfg):
    return sorted(a for a in gene.alleles if gene.alleles[a].cn_config == cfg)


def plan_haps(gene, rng, scenario):
    kinds = {c: v.kind.name for c, v in gene.cn_configs.items()}
    dflt = _alleles_of(gene, "1")

    def hap(struct, allele, weak=False):
        vs = tuple(gen_reads.allele_variants(gene, allele)) if allele else ()
        return (struct, vs, weak), f"{struct}:{allele}{'w' if weak else ''}"

    haps = [hap("1", rng.choice(dflt)), hap("1", rng.choice(dflt))]
    if rng.random() < 0.25:  # a variant the catalogue does not have, in an exon of the first copy
        ex = [rg for r, rg in gene.regions[0].items() if r.startswith("e") and rg.end - rg.start > 20]
        known = {p for p, _ in gene.mutations}
        if ex:
            rg = rng.choice(sorted(ex, key=lambda x: x.start))
            p = rng.randrange(rg.start + 5, rg.end - 5)
            if gene[p] in "ACGT" and all(abs(p - k) > 4 for k in known) and p in gene.chr_to_ref:
                (st, vs, wk), nm = haps[0]
                op = f"{gene[p]}>{rng.choice([c for c in 'ACGT' if c != gene[p]])}"
                haps[0] = ((st, tuple(sorted(vs + ((p, op),))), wk), nm + f"+{p}.{op}")
    if scenario == "hom":
        haps[1] = haps[0]
    elif scenario == "extra":
        haps.append(hap("1", rng.choice(dflt), weak=rng.random() < 0.5))
    elif scenario == "deletion":
        dele = [c for c, k in kinds.items() if k == "DELETION"]
        if dele:
            haps[1] = hap(dele[0], None)
    elif scenario == "fusion":
        fus = [c for c, k in kinds.items() if k in ("LEFT_FUSION", "RIGHT_FUSION")]
        if fus:
            c = rng.choice(fus)
            al = _alleles_of(gene, c)
            h = hap(c, rng.choice(al) if al and rng.random() < 0.7 else None)
            if rng.random() < 0.5:
                haps.append(h)
            else:
                haps[1] = h
    return [h for h, _ in haps], [n for _, n in haps]


def plant_offtarget_deletion(reads, gene, rng, frac):
    """Give reads that span a short interval OUTSIDE the RefSeq range (pseudogene or flank inside the wide region) a
    deletion there -- what a common indel polymorphism in the pseudogene looks like.  Returns (a, length, n reads)."""
    lo, hi = min(gene.chr_to_ref), max(gene.chr_to_ref)
    w = gene.get_wide_region()
    regs = [(rg.start, rg.end) for g in gene.regions for rg in g.values() if rg.end - rg.start >= 40 and (rg.end <= lo - 5 or rg.start >= hi + 5)]
    if not regs:
        return None
    a0, b0 = rng.choice(sorted(regs))
    length = rng.choice([1, 2, 3, 5, 8, 12])
    if b0 - 10 - length <= a0 + 10:
        return None
    a = rng.randrange(a0 + 10, b0 - 10 - length)
    if not (w.start <= a and a + length <= w.end):
        return None
    n = 0
    for r in reads:
        if len(r.cigar) != 1 or r.cigar[0][0] != 0 or r.seq is None:
            continue
        if r.start <= a - 8 and r.end() >= a + length + 8 and rng.random() < frac:
            i = a - r.start
            tail = r.end() - (a + length)
            r.cigar = [(0, i), (2, length), (0, tail)]
            r.seq = r.seq[:i] + r.seq[i + length:]
            if r.qual is not None:
                r.qual = list(r.qual[:i]) + list(r.qual[i + length:])
            n += 1
    return (a, length, n) if n else None


def build_sample(gene, contig_len, rng, plan, bam, contig_seq=None):
    """simulate_sample + the extras of the plan (junk reads, a low-depth foreign haplotype, off-target deletions)."""
    haps, names = plan_haps(gene, rng, plan["scenario"])
    try:
        sim = gen_reads.simulate_sample(gene, haps, plan["read_len"], plan["depth"], bam, rng, contig_len=contig_len,
                                        mode=plan["mode"], paired=plan["paired"], contig_seq=contig_seq)
    except ValueError:  # a variant crossing a segment end: fall back to two reference copies
        haps, names = [("1", (), False), ("1", (), False)], ["1:ref", "1:ref"]
        sim = gen_reads.simulate_sample(gene, haps, plan["read_len"], plan["depth"], bam, rng, contig_len=contig_len,
                                        mode=plan["mode"], paired=plan["paired"], contig_seq=contig_seq)
    reads = list(sim["reads"])
    extra = {}
    w = gene.get_wide_region()
    if plan["junk"]:
        reads += gen_reads.noise_reads(sim["contig"], w.start, w.end, plan["junk"], plan["read_len"], rng)
        extra["junk"] = plan["junk"]
    if plan["foreign"]:
        dflt = _alleles_of(gene, "1")
        al = rng.choice(dflt)
        try:
            c = gen_reads.haplotype(gene, sim["contig"], "1", gen_reads.allele_variants(gene, al), contig_len=contig_len)
            reads += gen_reads.sample(c, sim["contig"], plan["read_len"], plan["foreign"], rng, prefix="x")
            extra["foreign"] = [al, plan["foreign"]]
        except ValueError:
            pass
    if plan["offdel"]:
        d = plant_offtarget_deletion(reads, gene, rng, plan["offdel"])
        if d:
            extra["offdel"] = list(d)
    gen_reads.write_bam(bam, gene.chr, contig_len, reads)
    sim["haps"] = names
    sim["extra"] = extra
    return sim


PROFILE_OPTIONS = [None, {"gap": 0.2}, {"min_avg_coverage": 1.0, "gap": 0.2}, {"display_format": True}, {"min_avg_coverage": 24.0}]


def draw_plan(rng, idx):
    scen = ["plain", "plain", "hom", "extra", "deletion", "fusion", "fusion"][(idx * 3 + idx // 7) % 7]
    params = {}
    if rng.random() < 0.45:
        params["gap"] = rng.choice(["0.1", "0.5", "2", "5"])
    if rng.random() < 0.35:
        params["max_minor_solutions"] = rng.choice(["2", "3"])
    if rng.random() < 0.15:
        params["phase"] = "false"
    if rng.random() < 0.2:
        params["threshold"] = rng.choice(["0.3", "0.4"])
    if rng.random() < 0.2:
        params["min_avg_coverage"] = rng.choice(["1", "5", "24", "60"])   # reset on load, re-applied from the parameters
    if rng.random() < 0.2:
        params["display_format"] = "true"                                  # reset on load, re-applied from the parameters
    if rng.random() < 0.1:
        params["min_mapq"] = "20"
    if rng.random() < 0.1:
        params["indelpost"] = "false"
    if idx % 14 == 2:
        params["min_avg_coverage"] = "60"     # the original run refuses: the replay must refuse too (guard of genotype.py:208)
    profile_yml, options = idx % 8 == 5, PROFILE_OPTIONS[(idx // 8) % len(PROFILE_OPTIONS)]
    if profile_yml:
        for k in options or {}:
            params.pop(k, None)               # the value must come from the profile file only
    return {
        "scenario": scen, "read_len": 60, "depth": rng.choice([10, 10, 12, 15]), "mode": rng.choice(["tile", "sample", "sample"]),
        "paired": rng.random() < 0.6, "junk": rng.choice([0, 20, 60]), "foreign": rng.choice([0, 0, 2, 3, 5]),
        "offdel": rng.choice([0, 0, 0, 0, 0, 0, 0, 0, 0.5, 1.0]), "params": params, "fmt": ["aldy", "aldy", "vcf", "simple"][idx % 4],
        "user_cn": rng.random() < 0.08 and idx % 8 != 5, "genome_arg": rng.random() < 0.6, "replay_profile": rng.random() < 0.5,
        # profile FILE (made by aldy's own profile writer) instead of a profile BAM; one in three of them carries an
        # options section that sets a parameter the dump loader resets (known finding C17-reset-param-from-options)
        "profile_yml": profile_yml, "profile_options": options,
    }


# --------------------------------------------------------------------------- one case (worker)
def _argv(bam, profile, cn, genes, genome, out, prefix, plan, cn_solution):
    av = ["genotype", bam, "-g", genes, "-o", out, "--debug", prefix]
    if cn_solution:
        av += ["--cn", ",".join(cn_solution)]
    else:
        av += ["-p", profile] + (["-n", f"{cn.chr}:{cn.start}-{cn.end}"] if cn is not None else [])
    if genome:
        av += ["--genome", genome]
    for k, v in plan["params"].items():
        av += ["--param", f"{k}={v}"]
    return av


def _replay(gene_arg, archive, profile, cn, genome, plan, cn_solution, out_name, with_profile):
    kw = dict(plan["params"])
    if genome:
        kw["genome"] = genome
    if cn_solution:
        kw["cn_solution"] = list(cn_solution)
    elif with_profile and cn is not None:
        kw["cn_region"] = cn
    with Observe() as obs:
        r = pipeline.run_genotype(gene_arg, archive, profile if (with_profile and not cn_solution) else None, out_name=out_name, **kw)
    crash = "" if r["error_type"] in ("", "AldyException") else f"{r['error_type']}: {r['error']}"
    return {"obs": obs, "events": r["events"], "output": r["output"], "crash": crash,
            "top_error": f"{r['error_type']}: {r['error']}" if r["error_type"] else ""}


def _case_events(cid, genes, run1, replays, out1, archive, meta):
    """genes: [(gene name, {lower-case gene_db keys})].  replays: [(label, run, [gene names], partial)]."""
    arch = inspect_archive(archive)
    rows, info = [], {"archive": arch["members"], "genes": {}}
    for gname, keys in genes:
        ev, res = gene_events(run1, gname, keys, out1)
        a = arch["genes"].get(gname, {})
        rows.append({"case": cid, "k": "debug", "gene": gname, "ev": ev or EMPTY_EV, "res": res, "partial": False,
                     "dumpfields": a.get("fields", []), "hasev": ev is not None})
        info["genes"][gname] = {"dump": {k: v for k, v in a.items() if k not in ("muts",)}, "muts": a.get("muts", {})}
    for label, run, gnames, partial in replays:
        for gname, keys in genes:
            if gname not in gnames:
                continue
            ev, res = gene_events(run, gname, keys, run["output"], partial=partial)
            rows.append({"case": cid, "k": "replay", "gene": gname, "ev": ev or EMPTY_EV, "res": res, "partial": partial,
                         "label": label, "hasev": ev is not None})
    rows.append({"case": cid, "k": "end", "gene": "", "archgenes": sorted(arch["genes"])})
    return rows, info


def _sim_case(task):
    """One simulated case: build gene(s) + sample, run the CLI with --debug, replay the archive."""
    aldyenv.setup()
    from .. import gen_db

    rng = random.Random(task["seed"])
    d = os.path.join(task["dir"], f"c{task['idx']}")
    os.makedirs(d, exist_ok=True)
    plan = draw_plan(rng, task["idx"])
    kind = task["kind"]
    genome = rng.choice(["hg19", "hg38"])
    glist = []  # (name, yml path, Gene, contig_len)
    if kind == "gdb":
        db = gen_db.random_db(random.Random(task["seed"]), pseudogene=rng.random() < 0.8)
        yml = os.path.join(d, "gdb.yml")
        gen_db.realise(db, yml)
        g = gen_db.load(yml, genome)
        glist.append((g.name, yml, g, gen_db.contig_length(db, genome)))
    else:
        s19, s38 = rng.choice([("+", "-"), ("-", "+"), ("+", "+"), ("-", "-")])
        t, _ = gen_reads.toy_yaml(s19, s38, seed=rng.randrange(40), indels=rng.random() < 0.85)
        yml = os.path.join(d, "toys.yml")
        with open(yml, "w") as f:
            f.write(t)
        glist.append(("TOYS", yml, gen_reads.load_gene(yml, genome), 20000))
        if kind == "multi":
            t2, _ = gen_reads.toy_yaml(s38, s19, seed=rng.randrange(40, 80), name="TOYB", gene_start=11001, pseudo_start=13001,
                                       indels=rng.random() < 0.85)
            yml2 = os.path.join(d, "toyb.yml")
            with open(yml2, "w") as f:
                f.write(t2)
            glist.append(("TOYB", yml2, gen_reads.load_gene(yml2, genome), 20000))
    bam = os.path.join(d, "samp.x.bam" if task["idx"] % 5 == 0 else "samp.bam")
    meta = {"kind": kind, "genome": genome, "plan": plan, "strand": [g.strand for _, _, g, _ in glist], "seed": task["seed"], "idx": task["idx"]}
    if kind != "multi":
        gname, yml, gene, L = glist[0]
        sim = build_sample(gene, L, rng, plan, bam)
        meta.update(haps=sim["haps"], extra=sim["extra"], indels=sum(1 for _, o in gene.mutations if o[:3] in ("ins", "del")))
    else:
        # two genes on one contig: gene A's simulation left of the cut, gene B's right of it (both have two
        # background copies everywhere, so the depth is continuous); the neutral region lies right of both
        (na, ya, ga, L), (nb, yb, gb, _) = glist
        ctg = list(gen_reads.contig(ga, L, rng))
        cb = gen_reads.contig(gb, L, rng)
        cut = (ga.get_wide_region().end + gb.get_wide_region().start) // 2
        ctg[cut:] = cb[cut:]
        ctg = "".join(ctg)
        sa = build_sample(ga, L, rng, plan, os.path.join(d, "a.bam"), contig_seq=ctg)
        sb = build_sample(gb, L, rng, dict(plan, scenario=rng.choice(["plain", "extra", "fusion", "deletion"])), os.path.join(d, "b.bam"), contig_seq=ctg)

        def merge(pa, pb, out):
            import pysam

            reads = []
            for p, keep in ((pa, lambda s: s < cut), (pb, lambda s: s >= cut)):
                with pysam.AlignmentFile(p) as f:
                    for r in f:
                        if keep(r.reference_start):
                            reads.append(gen_reads.Read(r.query_name, r.reference_start, r.cigartuples, r.query_sequence,
                                                        list(r.query_qualities) if r.query_qualities is not None else None,
                                                        r.mapping_quality, r.flag))
            gen_reads.write_bam(out, ga.chr, L, reads)

        merge(sa["bam"], sb["bam"], bam)
        merge(sa["profile_bam"], sb["profile_bam"], bam[:-4] + ".profile.bam")
        sim = {"bam": bam, "profile_bam": bam[:-4] + ".profile.bam", "cn_region": sb["cn_region"]}
        assert str(sa["cn_region"]) == str(sb["cn_region"])
        meta.update(haps=[sa["haps"], sb["haps"]], extra=[sa["extra"], sb["extra"]], cut=cut)
    genes_arg = ",".join(y for _, y, _, _ in glist)
    if kind == "multi" and genes_arg != genes_arg.lower():
        return [], {"skipped": "genotype() lower-cases a comma list of gene files (genotype.py:117); scratch path has upper-case letters"}
    garg = genome if (plan["genome_arg"] or genome != "hg19") else None   # simulated BAMs auto-detect as hg19
    cn_solution = ["1", "1"] if (plan["user_cn"] and kind != "multi") else None
    profile_arg, cn_arg = sim["profile_bam"], sim["cn_region"]
    if plan["profile_yml"] and kind != "multi" and not cn_solution:
        import yaml
        from aldy.profile import Profile

        gene = glist[0][2]
        regions = {(gene.name, r, gi): rg for gi, gr in enumerate(gene.regions) for r, rg in gr.items()}
        pd = Profile.get_sam_profile_data(sim["profile_bam"], regions=regions, genome=genome, cn_region=sim["cn_region"])
        if plan["profile_options"]:
            pd["options"] = dict(plan["profile_options"])
        profile_arg, cn_arg = os.path.join(d, "profile.yml"), None   # -n is only valid with illumina or a BAM profile
        with open(profile_arg, "w") as f:
            yaml.safe_dump(pd, f)
        meta["profile_options"] = plan["profile_options"] or {}
    out1 = os.path.join(d, f"out.{plan['fmt']}")
    prefix = os.path.join(d, "dbg")
    argv = _argv(sim["bam"], profile_arg, cn_arg, genes_arg, garg, out1, prefix, plan, cn_solution)
    t0 = time.time()
    obs, events, code = run_cli(argv)
    meta["t_cli"] = round(time.time() - t0, 2)
    out_text = open(out1).read() if os.path.exists(out1) else ""
    run1 = {"obs": obs, "events": events, "crash": f"exit {code}" if code not in (None, 0) else ""}
    archive = prefix + ".tar.gz"
    genes = [(n, {y.lower()}) for n, y, _, _ in glist]
    replays = []
    t0 = time.time()
    if os.path.exists(archive):
        r = _replay(genes_arg, archive, profile_arg, cn_arg, garg, plan, cn_solution, f"out.{plan['fmt']}", plan["replay_profile"])
        replays.append(("list" if kind == "multi" else "same", r, [n for n, _ in genes], False))
        if garg and task["idx"] % 3 == 0 and kind != "multi":
            # the archive alone names its build (<prefix>.<GENE>.genome, sam.py:429-430,1010-1018): replay WITHOUT --genome
            r = _replay(genes_arg, archive, profile_arg, cn_arg, None, plan, cn_solution, f"out.{plan['fmt']}", plan["replay_profile"])
            replays.append(("nogenome", r, [n for n, _ in genes], False))
        if kind == "multi":
            for n, y, _, _ in glist:
                r = _replay(y, archive, sim["profile_bam"], sim["cn_region"], garg, plan, cn_solution, f"out.{plan['fmt']}", not plan["replay_profile"])
                replays.append((f"only:{n}", r, [n], True))
    meta["t_replay"] = round(time.time() - t0, 2)
    meta["argv"] = argv
    meta["yml"] = {n: open(y).read() for n, y, _, _ in glist} if task.get("keep_yml") else None
    rows, info = _case_events(task["idx"], genes, run1, replays, out_text, archive, meta)
    meta["bounds"] = {n: [min(g.chr_to_ref), max(g.chr_to_ref)] for n, _, g, _ in glist}
    meta["archive"] = info["archive"]
    meta["foreign"] = {n: sorted([p, o, c] for (p, o), c in v["muts"].items() if not o.startswith("ins") and not
                                 (meta["bounds"][n][0] <= p <= meta["bounds"][n][1])) for n, v in info["genes"].items()}
    meta["dump"] = {n: v["dump"] for n, v in info["genes"].items()}
    return rows, meta


def _na10860_case(task):
    aldyenv.setup()
    d = os.path.join(task["dir"], "na10860" + task.get("profile", ""))
    os.makedirs(d, exist_ok=True)
    bam = os.path.join(aldyenv.ALDY_SRC, "aldy/tests/resources/NA10860.bam")
    out1 = os.path.join(d, "out.aldy")
    prefix = os.path.join(d, "dbg")
    prof = task.get("profile", "illumina")   # "exome": a profile ALIAS that also switches copy-number calling off
    extra = ["--param", "phase=false"] if task.get("fast") else []
    argv = ["genotype", bam, "-p", prof, "-g", "CYP2D6", "-o", out1, "--debug", prefix] + extra
    obs, events, code = run_cli(argv)
    run1 = {"obs": obs, "events": events, "crash": f"exit {code}" if code not in (None, 0) else ""}
    out_text = open(out1).read() if os.path.exists(out1) else ""
    archive = prefix + ".tar.gz"
    plan = {"params": {"phase": "false"} if task.get("fast") else {}}
    r = _replay("CYP2D6", archive, prof, None, None, plan, None, "out.aldy", True)
    genes = [("CYP2D6", {"cyp2d6"})]
    meta = {"kind": "na10860", "genome": "hg19", "plan": plan, "argv": argv, "idx": task["idx"], "seed": 0, "haps": ["NA10860"], "extra": {}}
    rows, info = _case_events(task["idx"], genes, run1, [("same", r, ["CYP2D6"], False)], out_text, archive, meta)
    from aldy.gene import Gene

    g = obs.samples[-1].gene if obs.samples else Gene(os.path.join(aldyenv.ALDY_SRC, "aldy/resources/genes/cyp2d6.yml"), genome="hg19")
    meta["bounds"] = {"CYP2D6": [min(g.chr_to_ref), max(g.chr_to_ref)]}
    meta["archive"] = info["archive"]
    meta["foreign"] = {n: sorted([p, o, c] for (p, o), c in v["muts"].items() if not o.startswith("ins") and not
                                 (meta["bounds"][n][0] <= p <= meta["bounds"][n][1])) for n, v in info["genes"].items()}
    meta["dump"] = {n: v["dump"] for n, v in info["genes"].items()}
    return rows, meta


class CaseTimeout(BaseException):
    pass


_PRISTINE = {}


def _restore_pristine():
    """A timed-out case may have been interrupted inside Observe/Recorder: put the real functions back."""
    import aldy.__main__ as M
    import aldy.cn
    import aldy.genotype as G
    import aldy.major
    import aldy.minor
    import aldy.sam as S

    cur = {"M.genotype": (M, "genotype"), "G.genotype": (G, "genotype"), "S.Sample": (S, "Sample"), "cn": (aldy.cn, "estimate_cn"),
           "major": (aldy.major, "estimate_major"), "minor": (aldy.minor, "estimate_minor"), "solve": (aldy.minor, "solve_minor_model")}
    if not _PRISTINE:
        _PRISTINE.update({k: getattr(m, n) for k, (m, n) in cur.items()})
    for k, (m, n) in cur.items():
        if getattr(m, n) is not _PRISTINE[k]:
            setattr(m, n, _PRISTINE[k])


def _task(task):
    """Run one case; never let a harness/simulator failure or an over-long case look like a verdict.
    (aldy's solution enumeration can recurse ~1000 levels through equivalent ILP optima -- RecursionError after minutes,
    identically in both runs; the quick tier gives such a case up after task['budget'] seconds.)"""
    import signal
    import traceback

    aldyenv.setup()
    _restore_pristine()
    fired = []

    def on_alarm(sig, frm):
        fired.append(time.time())
        raise CaseTimeout()

    budget = task.get("budget")
    if budget:
        old = signal.signal(signal.SIGALRM, on_alarm)
        signal.setitimer(signal.ITIMER_REAL, budget, 1.0)   # keeps firing: aldy's main() swallows every exception
    try:
        out = (_na10860_case if task["kind"] == "na10860" else _sim_case)(task)
    except CaseTimeout:
        out = None
    except Exception as ex:
        out = [], {"failed": f"{type(ex).__name__}: {ex}", "tb": traceback.format_exc()[-1500:], "idx": task["idx"], "kind": task["kind"]}
    finally:
        if budget:
            signal.setitimer(signal.ITIMER_REAL, 0)
            signal.signal(signal.SIGALRM, old)
    if fired:
        _restore_pristine()
        return [], {"slow": f"gave up after {budget}s", "idx": task["idx"], "kind": task["kind"], "seed": task["seed"]}
    return out


# --------------------------------------------------------------------------- verdict helpers
def coverage_diff(b, e):
    cb = {(p, o): t for p, o, t in b["ev"]["coverage"]}
    ce = {(p, o): t for p, o, t in e["ev"]["coverage"]}
    return sorted(k for k in set(cb) | set(ce) if cb.get(k) != ce.get(k)), cb, ce


def _count(t):
    return sum(int(x.rsplit("*", 1)[1]) for x in t.split(",")) if t else 0


def classify_coverage(b, e, meta):
    """Is the coverage difference exactly the known one: at positions outside the RefSeq range the replay counts the
    dumped non-insertion observations a second time (as reference)?"""
    diff, cb, ce = coverage_diff(b, e)
    foreign = Counter()
    for p, o, c in meta["foreign"].get(e["gene"], []):
        foreign[p] += c
    lo, hi = meta["bounds"][e["gene"]]
    if not diff:
        return "none", diff
    for p, o in diff:
        if o != "_" or lo <= p <= hi or _count(ce.get((p, o), "")) - _count(cb.get((p, o), "")) != foreign.get(p, 0) or not foreign.get(p, 0):
            return "other", diff
    return FOREIGN, diff


def classify_params(b, e, meta):
    """Is the parameter difference exactly the known one: a parameter the dump loader resets (sam.py:327-330) was set
    by the options section of the profile file and not by the user (who re-supplies his own parameters)?"""
    pb, pe = dict(map(tuple, b["ev"]["params"])), dict(map(tuple, e["ev"]["params"]))
    diff = {n for n in set(pb) | set(pe) if pb.get(n) != pe.get(n)}
    if not diff:
        return "none"
    opts, user = meta.get("profile_options") or {}, meta["plan"]["params"]
    return RESET_OPTS if diff <= RESET_PARAMS and all(n in opts and n not in user for n in diff) else "other"


def field_detail(f, b, e):
    if f == "coverage":
        diff, cb, ce = coverage_diff(b, e)
        return f"{len(diff)} (pos, op) entries differ; first: " + "; ".join(f"{k}: {cb.get(k)} -> {ce.get(k)}" for k in diff[:3])
    if f == "phases":
        vb, ve = phase_view(b["ev"]["phases"]), phase_view(e["ev"]["phases"])
        return f"records with >1 site: {len(vb)} -> {len(ve)}; first difference at {next((i for i, (x, y) in enumerate(zip(vb, ve)) if x != y), min(len(vb), len(ve)))}"
    x, y = b["ev"][f], e["ev"][f]
    if isinstance(x, list):
        d = [r for r in x if r not in y][:3], [r for r in y if r not in x][:3]
        return f"only in original {d[0]}, only in replay {d[1]}"
    return f"{x!r} -> {y!r}"


MC_EXPECT = [  # (cfg suffix, expected violated invariant or None)
    ("_drop", None), ("_asis", "RestoreIsSnapshotInverse"), ("_phase2", "RestoreIsSnapshotInverse"),
    ("_options", "RestoreIsSnapshotInverse"), ("_noupdate", "RestoreIsSnapshotInverse"),
]


def run_mc(ctx, quick):
    import concurrent.futures

    jobs = [("_quick" if quick else "", None)] + MC_EXPECT
    with concurrent.futures.ThreadPoolExecutor(len(jobs)) as ex:
        futs = {s: ex.submit(tlc.run, "mc/MC_DumpReplay", f"mc/MC_DumpReplay{s}.cfg", workers=3, timeout=1500) for s, _ in jobs}
        for s, expect in jobs:
            r = futs[s].result()
            ctx.states += r.distinct
            ctx.transitions += r.generated
            ctx.mc_runs.append(dict(r.summary(), module=f"MC_DumpReplay{s}", cfg=f"MC_DumpReplay{s}.cfg", expected_violation=expect))
            if r.violated != expect:
                raise MachineryError(f"MC_DumpReplay{s}: expected {expect or 'no violation'}, got {r.violated}\n{r.error_text[:2000]}")
    ctx.parts["mc"] = {"holds": "MC_DumpReplay(repaired writer): all invariants; MC_DumpReplay_drop: DropBreaks for every single omitted component",
                       "expected_counterexamples": {s: e for s, e in MC_EXPECT if e}}


def validate(ctx, rows, label="DumpTrace"):
    """rows -> {row index: [(clause, what)]} through spec/trace/DumpTrace.tla (cases stay together, in order)."""
    wire = [dict(r, id=i) for i, r in enumerate(rows)]
    rej = ctx.trace_batches("trace/DumpTrace", "trace/DumpTrace.cfg", wire, label=label, chunk=24, jobs=10, group=lambda r: r["case"])
    out = {}
    for r in rej:
        out.setdefault(r[0], []).append((r[1], r[2]))
    return out


def make_canaries(rng, rows, accepted_cases, n_each=2):
    """Corrupted copies of accepted cases: one field of the REPLAY event changed."""
    out, expect = [], {}
    by_case = {}
    for r in rows:
        by_case.setdefault(r["case"], []).append(r)
    cid = 10 ** 6

    def clone(case):
        nonlocal cid
        cid += 1
        return [dict(json.loads(json.dumps(r)), case=cid) for r in by_case[case]], cid

    def first_replay(cs):
        return next(r for r in cs if r["k"] == "replay" and not r["partial"] and r["hasev"])

    kinds = ["coverage", "phases", "score", "output", "name", "indels", "params", "cn"]
    cands = [c for c in accepted_cases if any(r["k"] == "replay" and not r["partial"] and r["hasev"] for r in by_case[c])]
    for kind in kinds:
        pool = list(cands)
        rng.shuffle(pool)
        done = 0
        for c in pool:
            if done >= n_each:
                break
            cs, new = clone(c)
            e = first_replay(cs)
            ok = False
            if kind == "coverage" and e["ev"]["coverage"]:
                row = rng.choice(e["ev"]["coverage"])
                row[2] = row[2] + ",1/1*1"
                ok, want = True, ("RestoreIsSnapshotInverse", "coverage")
            elif kind == "phases":
                idx = [i for i, p in enumerate(e["ev"]["phases"]) if len(p["sites"]) > 1]
                if idx:
                    del e["ev"]["phases"][rng.choice(idx)]
                    ok, want = True, ("RestoreIsSnapshotInverse", "phases")
            elif kind == "score" and e["res"]["final"]:
                s = json.loads(e["res"]["final"][0])
                s["score"] = s["score"] + 0.001
                e["res"]["final"][0] = text(s)
                ok, want = True, ("SameResult", "final")
            elif kind == "output" and len(e["res"]["output"]) > 2 and any(e["res"]["output"]):
                i = rng.choice([i for i, ln in enumerate(e["res"]["output"]) if ln])
                e["res"]["output"][i] += " "
                ok, want = True, ("SameResult", "output")
            elif kind == "name":
                e["ev"]["name"] += "2"
                ok, want = True, ("RestoreIsSnapshotInverse", "name")
            elif kind == "indels" and e["ev"]["indels"]:
                rng.choice(e["ev"]["indels"])[3] += 1
                ok, want = True, ("RestoreIsSnapshotInverse", "indels")
            elif kind == "params" and e["ev"]["params"]:
                rng.choice(e["ev"]["params"])[1] += "?"
                ok, want = True, ("RestoreIsSnapshotInverse", "params")
            elif kind == "cn" and e["ev"]["cn"]:
                rng.choice(e["ev"]["cn"])[1] += 1
                ok, want = True, ("RestoreIsSnapshotInverse", "cn")
            if ok:
                out += cs
                expect[new] = want
                done += 1
    return out, expect


# --------------------------------------------------------------------------- the check
def tasks_for(ctx):
    quick = ctx.tier == "quick"
    rng = random.Random(17000 + ctx.seed)
    d = tlc.scratch()
    n = 42 if quick else 230
    tasks = []
    for i in range(n):
        kind = "multi" if i % 7 == 3 else ("gdb" if i % 3 == 1 else "toy")
        tasks.append({"idx": i, "kind": kind, "seed": rng.randrange(1 << 30), "dir": d, "budget": 40 if quick else 900})
    if not quick:
        tasks.insert(0, {"idx": n, "kind": "na10860", "seed": 0, "dir": d})
    # the repo's own sample under a profile ALIAS (exome = illumina + no copy-number calling), read phasing off (2 x 25 s):
    # what the alias switches is not in the archive and has to be re-applied on replay
    tasks.insert(0, {"idx": n + 1, "kind": "na10860", "seed": 0, "dir": d, "profile": "exome", "fast": True})
    return tasks


def report(ctx, rows, metas, verdicts, canary_cases=()):
    """Turn DumpTrace rejections into violations / known findings.  Returns the set of rejected case ids."""
    bad = set()
    base = {}
    for i, r in enumerate(rows):
        if r["k"] == "debug":
            base[(r["case"], r["gene"])] = r
    for i, vs in sorted(verdicts.items()):
        r = rows[i]
        if r["case"] in canary_cases:
            continue
        bad.add(r["case"])
        m = metas[r["case"]]
        b = base.get((r["case"], r["gene"]))
        is_replay = bool(b) and r["k"] == "replay"
        cause = {"coverage": classify_coverage(b, r, m)[0] if is_replay else "n/a", "params": classify_params(b, r, m) if is_replay else "n/a"}
        unrestored = [w for c, w in vs if c == "RestoreIsSnapshotInverse"]
        evidence = "+".join(sorted({cause.get(f, "other:" + f) for f in unrestored})) or "restored"
        for clause, what in vs:
            if clause == "BadCase":
                raise MachineryError(f"DumpTrace BadCase({what}) in case {r['case']} {r.get('gene')}")
            fp = {"kind": m["kind"]}
            detail = ""
            if clause == "RestoreIsSnapshotInverse":
                fp.update(field=what)
                if what in cause:
                    fp.update(cause=cause[what])
                detail = field_detail(what, b, r)
            elif clause == "SameResult":
                fp.update(part=what, evidence=evidence)
                x, y = b["res"][what], r["res"][what]
                k = next((j for j, (u, v) in enumerate(zip(x, y)) if u != v), min(len(x), len(y)))
                detail = f"{what}[{k}]: original {x[k] if k < len(x) else '(absent)'} | replay {y[k] if k < len(y) else '(absent)'}"[:900]
            case = {"task": {"idx": m["idx"], "kind": m["kind"], "seed": m["seed"]}, "gene": r.get("gene"), "replay": r.get("label"),
                    "argv": m.get("argv"), "plan": m.get("plan"), "haps": m.get("haps"), "extra": m.get("extra"), "genome": m.get("genome"),
                    "detail": detail, "original": {k: v for k, v in (b or {}).get("res", {}).items() if k != "output"},
                    "replayed": {k: v for k, v in r.get("res", {}).items() if k != "output"}}
            ctx.violation(clause, fp, case, f"case {m['idx']} ({m['kind']}, {r.get('gene')}, replay={r.get('label')}): {clause}({what}) {detail}")
    return bad


def run(ctx):
    aldyenv.setup()
    quick = ctx.tier == "quick"
    ctx.rule = (
        "MC: MC_DumpReplay universe (3 positions, 3 ops, 2 qualities, bags <= 2, phase records over 3 sites, options/user parameters, "
        "two values per scalar field); (B) one case = one simulated sample (toy_yaml genes of both strands / gen_db genes / two toy genes "
        "in one run; scenario plain, hom, extra copy, whole-gene deletion, fusion; tile or sampled reads, junk reads, low-depth foreign "
        "haplotype, off-target deletions; random --param set, output format, user structure, with/without --genome) genotyped through "
        "aldy.__main__.main with --debug and again from the archive; distinct = distinct (case, gene, replay); non-trivial = both runs "
        "reported at least one solution."
    )
    ctx.trusted = ["harness/gen_reads.py, harness/gen_db.py (inputs only)", "harness/pipeline.py recorders (add-only wrappers)",
                   "projection of Sample/Coverage fields and canonical JSON texts in harness/checks/c17.py", "TLC"]
    ctx.assumptions = [
        "Stages read quality lists only through len() and order-preserving threshold filters (coverage.py), so evidence is compared as bags.",
        "Stage purity: cn/major/minor/diplotype/output are functions of the evidence fields listed in DumpReplay!Reads (checked by the "
        "recorded stage results being equal whenever the fields are equal, not proved).",
        "Scores are compared after rounding to 1e-9.",
        "is_long_read is not restored by a dump; only a log message depends on it (not part of the result).",
        "No shipped profile sets display_format/debug_probe/debug_novel/min_avg_coverage in its options section; profile FILES written by "
        "aldy's own profile writer with such options are exercised (every 8th case) and are the known finding C17-reset-param-from-options.",
        "The long-read fusion counter is always empty in short-read samples: its restoration is compared but never exercised.",
    ]
    tasks = tasks_for(ctx)
    t0 = time.time()
    # watchdog: a backend call that never returns (CBC, seen once in C10) cannot be interrupted by SIGALRM
    results = par.pmap(_task, tasks, timeout=900 if quick else 2400, default=lambda t: ([], {"skipped": f"killed by the watchdog: {t.get('kind')}/{t.get('idx')}"}))
    ctx.parts["impl_wall_s"] = round(time.time() - t0, 1)
    run_mc(ctx, quick)
    rows, metas, skipped, failed, slow = [], {}, [], [], []
    for t, (r, m) in zip(tasks, results):
        if m.get("failed"):
            failed.append(m)
            continue
        if m.get("skipped"):
            skipped.append(m["skipped"])
            continue
        if m.get("slow"):
            slow.append({k: m[k] for k in ("idx", "kind", "seed", "slow")})
            continue
        rows += r
        metas[t["idx"]] = m
    if failed:
        # a case that failed INSIDE the code under test (innermost frame of the recorded traceback in the aldy sources) is a
        # violation (the run or its replay raised), not a case the harness could not build
        src = os.path.realpath(os.environ.get("ALDY_SRC", "/repo"))
        still = []
        for f in failed:
            frames = [ln.strip() for ln in (f.get("tb") or "").splitlines() if ln.strip().startswith('File "')]
            if frames and frames[-1].startswith(f'File "{src}/aldy/') and "/aldy/tests/" not in frames[-1]:
                ctx.violation("CodeUnderTestRaised", {"kind": f.get("kind"), "clause": "CodeUnderTestRaised", "error": str(f["failed"]).split(":")[0]},
                              {"case": {k: f[k] for k in ("idx", "kind", "failed")}, "traceback": f.get("tb")}, f"case {f['idx']} ({f['kind']}): {f['failed']}")
            else:
                still.append(f)
        failed = still
    if failed:
        if len(failed) > max(2, len(tasks) // 10):
            raise MachineryError(f"{len(failed)} of {len(tasks)} cases could not be built/run: {failed[0]}")
        ctx.parts["cases_not_built"] = [{k: f[k] for k in ("idx", "kind", "failed")} for f in failed]
    if slow:
        if len(slow) > max(3, len(tasks) // 8):
            raise MachineryError(f"{len(slow)} of {len(tasks)} cases exceeded their time budget: {slow[:3]}")
        ctx.parts["cases_given_up_too_slow"] = slow
    verdicts = validate(ctx, rows)
    rejected_cases = {rows[i]["case"] for i in verdicts}
    # canaries from accepted cases
    rng = random.Random(17100 + ctx.seed)
    accepted = sorted(set(metas) - rejected_cases)
    crow, expect = make_canaries(rng, rows, accepted)
    if crow:
        cv = validate(ctx, crow, label="DumpTraceCanary")
        got = {}
        for i, vs in cv.items():
            got.setdefault(crow[i]["case"], set()).update(vs)
        for c, want in expect.items():
            ctx.canary(want in got.get(c, set()))
    report(ctx, rows, metas, verdicts)
    # accounting
    kinds, scen, params, errs, multi_sol, gap_runs, mms_runs, offdel = Counter(), Counter(), Counter(), 0, 0, 0, 0, 0
    for r in rows:
        if r["k"] != "replay":
            continue
        m = metas[r["case"]]
        nontrivial = bool(r["res"]["final"])
        ctx.count(1, key=(r["case"], r["gene"], r["label"]), nontrivial=nontrivial)
        ctx.traces += 1
        errs += bool(r["res"]["error"])
        multi_sol += len(r["res"]["final"]) > 1
    for c, m in metas.items():
        kinds[m["kind"]] += 1
        scen[m["plan"].get("scenario", "real")] += 1
        for k in m["plan"]["params"]:
            params[k] += 1
        gap_runs += "gap" in m["plan"]["params"]
        mms_runs += "max_minor_solutions" in m["plan"]["params"]
        offdel += any(m["foreign"].values())
    ctx.traces += len(metas)  # the --debug runs themselves
    ctx.parts["cases"] = {"cases": len(metas), "by_kind": dict(kinds), "by_scenario": dict(scen), "params_used": dict(params),
                          "replays": sum(1 for r in rows if r["k"] == "replay"), "replays_with_error_result": errs,
                          "replays_with_several_solutions": multi_sol, "gap_runs": gap_runs, "max_minor_solutions_runs": mms_runs,
                          "cases_with_foreign_ops_outside_refseq": offdel, "skipped": skipped[:3], "skipped_count": len(skipped),
                          "phase_records_dropped_by_dump": sum(len(r["ev"]["phases"]) - len(phase_view(r["ev"]["phases"])) for r in rows if r["k"] == "debug"),
                          "phase_records_kept": sum(len(phase_view(r["ev"]["phases"])) for r in rows if r["k"] == "debug"),
                          "indel_table_nonzero_cases": sum(1 for r in rows if r["k"] == "debug" and r["ev"]["covindels"])}
    for c in list(metas)[:3]:
        m = metas[c]
        dbg = next(r for r in rows if r["case"] == c and r["k"] == "debug")
        rep = next((r for r in rows if r["case"] == c and r["k"] == "replay"), None)
        ctx.sample({"argv": m["argv"], "genome": m["genome"], "haps": m["haps"], "extra": m["extra"], "archive": m["archive"],
                    "dump_components": m["dump"], "original_final": dbg["res"]["final"][:2], "original_error": dbg["res"]["error"],
                    "replay_final": rep["res"]["final"][:2] if rep else None, "output_head": dbg["res"]["output"][:3]})


def replay(path):
    from ..core import Ctx

    aldyenv.setup()
    with open(path) as f:
        case = json.load(f)["case"]
    t = dict(case["task"], dir=tlc.scratch())
    with aldyenv.quiet_stderr():      # aldy's main() logs to stderr
        rows, meta = _task(t)
    if meta.get("failed"):
        print("MACHINERY-FAILURE: case could not be rebuilt:", meta["failed"])
        return 2
    ctx = Ctx("C17", "quick", 0)
    verdicts = validate(ctx, rows, label="replay")
    for i, vs in sorted(verdicts.items()):
        print("  rejected:", rows[i]["k"], rows[i].get("gene"), rows[i].get("label"), vs)
    dbg = [r for r in rows if r["k"] == "debug"]
    for r in dbg:
        print("original", r["gene"], "error:", r["res"]["error"], "final:", r["res"]["final"][:2])
    for r in rows:
        if r["k"] == "replay":
            print("replay  ", r["gene"], r["label"], "error:", r["res"]["error"], "final:", r["res"]["final"][:2])
    if verdicts:
        print(f"VIOLATION property=C17 replay={path}")
        return 1
    print("replay: accepted")
    return 0
