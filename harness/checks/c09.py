"""C09 - the star-allele catalogue is a consistent, build-independent partition.

Spec: spec/CatalogueBuild.tla (loader phases ReadAlleles / BuildConfigs / GroupMajors /
BuildPartials / DedupMinors and the catalogue invariants).
  MC  : spec/mc/MC_Catalogue - reference allele + every bag of 3 further alleles (<= 2 left
        fusions) over 3 variants with left/right fusions, deletion, custom deletions, one
        zero-length region: all invariants on the spec's loader, MajorsDistinct modulo the known
        shape; thorough adds bags of 4 (<= 1 left fusion, MajorsDistinct exact) and the
        proposed repair (all invariants exact).
  (A) : spec/gen/CatalogueGen emits the MC tables; each is realised through gen_db with hostile
        names / labels on opposite strands, loaded by the real Gene for both builds; the projected
        catalogue is validated by spec/trace/CatalogueTrace.tla (invariants + equality with the
        spec's catalogue as a partition + BuildIndependent).
  (B) : the 38 shipped databases x 2 builds (input table parsed by gen_db.from_yaml, independent
        of aldy.gene) and generated hostile databases, validated the same way.
"""
import json
import os
import random

from .. import aldyenv, gen_db, tlc, tracerun
from ..core import MachineryError

GENES_DIR = os.path.join(aldyenv.ALDY_SRC, "aldy", "resources", "genes")
KIND = {"DEFAULT": "default", "LEFT_FUSION": "left", "RIGHT_FUSION": "right", "DELETION": "deletion", "CUSTOM": "custom"}


def norm_name(x):
    if "*" in x:
        x = x.split("*", 1)[1]
    return x.replace("/", "_")


# --------------------------------------------------------------------------- input table (independent of aldy)
def build_table(db, build, varid):
    """The loader's input as CatalogueBuild sees it.  Variants that have no genome site in this
    build (alignment gap / outside named regions) are not part of the table."""
    rt = gen_db.region_table(db, build)
    pt = gen_db.pseudo_table(db, build)
    ridx = {nm: i + 1 for i, (nm, _, _) in enumerate(rt)}
    mp = gen_db.Mapper(db, build)
    notes = []

    def reg_of(site):
        r = None
        for i, (_, a, b) in enumerate(rt):
            if a <= site < b:
                r = i + 1  # later regions override (dict comprehension order of _region_at)
        for _, a, b in pt:
            if a <= site < b:
                notes.append("variant site inside a pseudogene region")
        return r

    func, reg, regw = {}, {}, {}

    def see(row):
        pos, op = row[0], row[1]
        fn = row[3] if len(row) > 3 else None
        try:
            site = mp.anchor_site(pos, op)
        except Exception:
            notes.append(f"unparsable {pos}{op}")
            return None
        if site is None:
            return None
        r = reg_of(site)
        if r is None:
            return None
        key = (pos, op)
        if key not in func:
            func[key] = fn
            reg[key] = r
            # region of the first base as written (what the proposed repair
            # fixes/C09-partial-region-by-written-position.diff uses)
            sw = mp.r2c(pos - 1)
            regw[key] = (reg_of(sw) if sw is not None else None) or r
        return key

    for row in db.get("random", []):
        see(row)
    for g in db.get("groups", {}).values():
        for row in g:
            see(row)
    names = [norm_name(a["name"]) for a in db["alleles"]]
    order = {n: i + 1 for i, n in enumerate(sorted(set(names)))}
    al = []
    ndel = 0
    for a, nm in zip(db["alleles"], names):
        st = a.get("structural")
        vs = []
        if not (st and st[0] == "deletion"):
            for row in a["mutations"]:
                k = see(row)
                if k is not None:
                    vs.append(varid[k])
        e = dict(rank=order[nm], vars=sorted(set(vs)), kind="none", brk=0, **{"del": []})
        if st:
            e["kind"] = st[0]
            if st[0] in ("left", "right"):
                e["brk"] = ridx.get(st[1], 0)
                if not e["brk"]:
                    notes.append(f"breakpoint {st[1]} is not a region")
            elif st[0] == "custom":
                e["del"] = sorted(ridx[x] for x in st[1] if x in ridx)
            else:
                ndel += 1
        al.append(e)
    if ndel > 1:
        notes.append("more than one whole-gene deletion allele")
    if len(set(names)) != len(names):
        notes.append("two database alleles share a name")
    nv = len(varid)
    inv = {i: k for k, i in varid.items()}
    tab = dict(NR=len(rt), Zero=[i + 1 for i, (_, a, b) in enumerate(rt) if b - a <= 0],
               ZeroP=[i + 1 for i, (_, a, b) in enumerate(pt) if b - a <= 0], pseudo=bool(db["pseudogenes"]),
               NV=nv, Core=[i for i in range(1, nv + 1) if inv[i] in func and func[inv[i]] is not None],
               reg=[reg.get(inv[i], 0) for i in range(1, nv + 1)],
               regw=[regw.get(inv[i], 0) for i in range(1, nv + 1)], NA=len(al), al=al)
    return tab, names, notes


# --------------------------------------------------------------------------- projection -> interned record
def real_record(gene, names, varid, nid):
    """Projection of the loaded catalogue with names interned (`nid`: shared str -> int table)."""
    dbidx = {n: i + 1 for i, n in enumerate(names)}

    def n_(x):
        if x not in nid:
            nid[x] = len(nid) + 1
        return nid[x]

    def vs(muts):
        out = []
        for m in muts:
            rec = gene.mutations[(m.pos, m.op)]
            out.append(varid[(rec[3] + 1, rec[4])])
        return sorted(out)

    nr = len(gene.regions[0])
    cfgs = []
    for k, c in gene.cn_configs.items():
        cfgs.append(dict(id=n_(k), kind=KIND[c.kind.name], gene=[int(c.cn[0][r]) for r in gene.regions[0]],
                         pseudo=[int(c.cn[1][r]) for r in gene.regions[1]] if len(c.cn) > 1 and gene.pseudogenes else [0] * nr))
    majors = []
    for an, a in gene.alleles.items():
        minors = []
        for mn, m in a.minors.items():
            if "#" in mn:
                f, san = mn.split("#", 1)
                minors.append(dict(id=n_(mn), fus=n_(f), par=dbidx.get(san, 0), neutral=vs(m.neutral_muts)))
            else:
                minors.append(dict(id=n_(mn), fus=0, par=dbidx.get(mn, 0), neutral=vs(m.neutral_muts)))
        majors.append(dict(id=n_(an), cfg=n_(a.cn_config), core=vs(a.func_muts), fus=n_(an.split("#", 1)[0]) if "#" in an else 0,
                           minors=sorted(minors, key=lambda x: x["id"])))
    res = []
    for nm in names:
        r = gene.get_allele(nm)
        res.append([n_(r[0].name), n_(r[1].name)] if r else [0, 0])
    return dict(cfgs=sorted(cfgs, key=lambda x: x["id"]), majors=sorted(majors, key=lambda x: x["id"]),
                removed=sorted([dbidx[k], dbidx[v]] for k, v in gene.removed.items()), res=res)


def rows_for_db(db, src, genes=None):
    """Two "cat" rows (hg19, hg38) + one "bi" row.  Returns (rows, notes)."""
    varid = {k: i + 1 for i, k in enumerate(gen_db.written_variants(db))}
    nid = {}
    rows, notes, recs, tabs = [], [], {}, {}
    for b in ("hg19", "hg38"):
        tab, names, nt = build_table(db, b, varid)
        g = genes[b] if genes else gen_db.load(db, b)
        rec = real_record(g, names, varid, nid)
        recs[b], tabs[b] = rec, tab
        notes += nt
        rows.append(dict(k="cat", id=f"{src}:{b}", tab=tab, real=rec))
    rows.append(dict(k="bi", id=f"{src}:bi", a=recs["hg19"], b=recs["hg38"]))
    # why the two builds give different inputs (none = identical tables)
    t1, t2 = tabs["hg19"], tabs["hg38"]
    diff = []
    if (t1["NR"], t1["Zero"], t1["ZeroP"]) != (t2["NR"], t2["Zero"], t2["ZeroP"]):
        diff.append("region_table")
    if [a["vars"] for a in t1["al"]] != [a["vars"] for a in t2["al"]]:
        diff.append("variant_presence")
    if any(x != y for x, y in zip(t1["reg"], t2["reg"]) if x and y):
        diff.append("variant_region")
    if t1["Core"] != t2["Core"] and "variant_presence" not in diff:
        diff.append("core_flags")
    if [(a["kind"], a["brk"], a["del"]) for a in t1["al"]] != [(a["kind"], a["brk"], a["del"]) for a in t2["al"]]:
        diff.append("structural")
    return rows, notes, "+".join(diff)


# --------------------------------------------------------------------------- realising MC tables
def mc_db(case, rng):
    """An MC table (reference + alt alleles over v1 core@r1, v2 core@r3, v3 silent@r1; regions
    r1, pce (zero-length), r3; pseudogene) as an abstract database with hostile names, the two
    builds on opposite strands."""
    G = "MCC"
    seq = gen_db._rand_seq(rng, 90, True)
    kinds = rng.choice([("sub", "sub", "sub"), ("del", "ins", "sub"), ("ins", "msub", "del"), ("sub", "delins", "ins")])
    sites = [12, 60, 28]

    def mk(pos, kind):
        r = seq[pos - 1:pos + 1]
        o = {"A": "C", "C": "G", "G": "T", "T": "A"}
        if kind == "sub":
            return f"{r[0]}>{o[r[0]]}"
        if kind == "msub":
            return f"{r}>{o[r[0]]}{o[r[1]]}"
        if kind == "del":
            return f"del{r[0]}"
        if kind == "ins":
            return "ins" + o[r[0]] + o[r[1]]
        return f"del{r}ins{o[r[0]]}"

    V = {1: [sites[0], mk(sites[0], kinds[0]), "rs1", "P1L"], 2: [sites[1], mk(sites[1], kinds[1]), "-", "splicing"],
         3: [sites[2], mk(sites[2], kinds[2]), "rs3", None]}
    regions_ref = [["r1", 1, 46], ["pce", 46, 46], ["r3", 46, 91]]
    rname = {1: "r1", 2: "pce", 3: "r3"}
    builds = {}
    for b, strand, start in (("hg19", "+", 3001), ("hg38", "-", 5001)):
        span = 90
        if strand == "+":
            regs = {"r1": [start, start + 45, start - 200, start - 160], "pce": [start + 45, start + 45, start - 160, start - 150],
                    "r3": [start + 45, start + 90, start - 150, start - 100]}
        else:
            regs = {"r1": [start + 45, start + 90, start + 260, start + 300], "pce": [start + 45, start + 45, start + 250, start + 260],
                    "r3": [start, start + 45, start + 200, start + 250]}
        builds[b] = dict(chr="20", start=start, end=start + span, strand=strand, cigar=f"M{span}", regions=regs, contig_length=20000)
    # hostile names: shared number prefixes, labels equal to other prefixes
    alleles = [dict(name=f"{G}*1.001", label=f"{G}*1", mutations=[], structural=None)]
    counters = {}
    alts = list(case["alt"])
    rng.shuffle(alts)
    for e in alts:
        num = rng.choice(["1", "2", "2", "3", "10"])
        counters[num] = counters.get(num, 1 if num == "1" else 0) + 1
        nm = f"{G}*{num}.{counters[num]:03d}"
        lab = rng.choice([None, None, f"{G}*{num}", f"{G}*1", f"{G}*2", f"{G}*{num}A", f"{G}*3"])
        st = None
        if e["kind"] in ("left", "right"):
            st = [e["kind"], rname[e["brk"]]]
        elif e["kind"] == "deletion":
            st = ["deletion"]
        elif e["kind"] == "custom":
            st = ["custom", [rname[x] for x in e["del"]]]
        alleles.append(dict(name=nm, label=lab, mutations=[list(V[v]) for v in e["vars"]], structural=st))
    return dict(name=G, pseudogenes=[G + "P"], refseq_name="NG_MC", seq=seq, exons=[[10, 40]], regions_ref=regions_ref,
                cn_regions=["r1", "r3"], builds=builds, alleles=alleles, random=[], groups={}, tandems=[])


# --------------------------------------------------------------------------- workers
def _shipped_worker(path):
    aldyenv.setup()
    from aldy.gene import Gene

    db = gen_db.from_yaml(path)
    genes = {b: Gene(path, genome=b) for b in ("hg19", "hg38")}
    name = os.path.basename(path)
    rows, notes, same = rows_for_db(db, f"shipped/{name}", genes)
    return name, rows, notes, same, len(db["alleles"])


def gen_opts(idx):
    opts = dict(hostile=True, seq_len=(300, 700))
    if idx % 3 == 0:
        opts.update(pseudogene=True, fusions=dict(left=2, right=1), zero_region=True)
    if idx % 7 == 0:
        opts.update(boundary_margin=False)  # variants may span region borders
    if idx % 5 == 0:
        opts.update(gaps=1.0)  # alignment I/D in both builds (variants keep their distance from the gaps)
    return opts


def _gen_worker(args):
    idx, seed = args
    aldyenv.setup()
    rng = random.Random(910000 + seed * 1000003 + idx)
    db = gen_db.random_db(rng, **gen_opts(idx))
    try:
        rows, notes, same = rows_for_db(db, f"gen/{idx}")
    except Exception as ex:
        return idx, db, None, [f"{type(ex).__name__}: {ex}"], False
    return idx, db, rows, notes, same


WITNESS_DBS = [(s19, s38, k) for s19, s38 in (("+", "-"), ("-", "+"), ("+", "+"), ("-", "-")) for k in (0, 1)]


def _wit_worker(args):
    """Hand-built witness databases (toy layout, harness/gen_reads.toy_yaml): variants written exactly at the LAST base of
    the region a left fusion loses / the FIRST base of the region it keeps (RefSeq e2 = 201..280, i2 = 281..340, fusion
    `i2-`), as an insertion, a substitution and a 2-base deletion that spans the border, silent and function-altering."""
    k, (s19, s38, flavour) = args
    aldyenv.setup()
    from .. import gen_reads

    pos = 280 if flavour == 0 else 281
    txt, _ = gen_reads.toy_yaml(s19, s38, seed=11 + k, patches=[(278, "GACGT")],
                                extra_alleles={"1.004": [(pos, "insG", "rs2801", None)],
                                               "9.001": [(pos, "insTT", "rs2802", "frameshift")],
                                               "1.005": [(pos, f"{'C' if pos == 280 else 'G'}>A", "rs2803", None)],
                                               "10.001": [(280, "delCG", "rs2804", "frameshift")]})
    path = os.path.join(tlc.scratch(), f"c09_wit_{k}.yml")
    with open(path, "w") as f:
        f.write(txt)
    db = gen_db.from_yaml(path)
    try:
        rows, notes, same = rows_for_db(db, f"wit/{k}")
    except Exception as ex:
        return 100000 + k, db, None, [f"{type(ex).__name__}: {ex}"], False
    return 100000 + k, db, rows, notes, same


def _mc_worker(args):
    chunk, seed = args
    aldyenv.setup()
    out = []
    for i, case in chunk:
        rng = random.Random(920000 + seed * 1000003 + i)
        db = mc_db(case, rng)
        try:
            rows, notes, same = rows_for_db(db, f"mc/{i}")
        except Exception as ex:
            out.append((i, db, None, [f"{type(ex).__name__}: {ex}"], False))
            continue
        out.append((i, db, rows, notes, same))
    return out


def _pool(n=14):
    import multiprocessing as mp

    return mp.get_context("fork").Pool(n)


def run_rows(ctx, rows, label, chunks=10, per_chunk=60):
    return tracerun.run_rows(ctx, "trace/CatalogueTrace", "trace/CatalogueTrace.cfg", rows, label, chunks=chunks,
                             per_chunk=per_chunk, heap="6g")


# --------------------------------------------------------------------------- canaries
def corrupt(rng, row):
    r = json.loads(json.dumps(row))
    if r["k"] == "bi":
        for m in r["b"]["majors"]:
            if m["minors"] and m["minors"][0]["neutral"]:
                m["minors"][0]["neutral"] = m["minors"][0]["neutral"][1:]
                r["id"] = "canary:bi:" + r["id"]
                return r, "bi"
        return None
    real, tab = r["real"], r["tab"]
    majors = real["majors"]
    what = rng.choice(["drop_minor", "core_to_neutral", "cfg_missing", "partial_extra", "dup_minor", "alias_dead", "merge_majors", "res_wrong"])
    if what == "drop_minor":
        c = [m for m in majors if m["fus"] == 0 and len(m["minors"]) >= 1 and any(tab["al"][s["par"] - 1]["kind"] != "left" for s in m["minors"])]
        if not c:
            return None
        m = rng.choice(c)
        s = next(s for s in m["minors"] if tab["al"][s["par"] - 1]["kind"] != "left")
        m["minors"].remove(s)
    elif what == "core_to_neutral":
        c = [m for m in majors if m["core"] and m["minors"]]
        if not c:
            return None
        m = rng.choice(c)
        v = m["core"].pop()
        m["minors"][0]["neutral"] = sorted(m["minors"][0]["neutral"] + [v])
    elif what == "cfg_missing":
        rng.choice(majors)["cfg"] = 99999
    elif what == "partial_extra":
        c = [m for m in majors if m["fus"] != 0]
        cfg = {x["id"]: x for x in real["cfgs"]}
        done = False
        for m in c:
            lost = [v for v in range(1, tab["NV"] + 1) if tab["reg"][v - 1] and cfg[m["fus"]]["gene"][tab["reg"][v - 1] - 1] == 0
                    and v in tab["Core"] and v not in m["core"]]
            if lost:
                m["core"] = sorted(m["core"] + [lost[0]])
                done = True
                break
        if not done:
            return None
    elif what == "dup_minor":
        c = [m for m in majors if len(m["minors"]) >= 2]
        if not c:
            return None
        m = rng.choice(c)
        m["minors"][1]["neutral"] = list(m["minors"][0]["neutral"])
    elif what == "alias_dead":
        if not real["removed"]:
            return None
        real["removed"][0][1] = real["removed"][0][0]
    elif what == "merge_majors":
        c = [m for m in majors if m["fus"] == 0]
        if len(c) < 2:
            return None
        a, b = rng.sample(c, 2)
        a["minors"] = sorted(a["minors"] + b["minors"], key=lambda x: x["id"])
        majors.remove(b)
    elif what == "res_wrong":
        i = rng.randrange(len(real["res"]))
        if tab["al"][i]["kind"] == "left":
            return None
        real["res"][i] = [0, 0]
    r["id"] = f"canary:{what}:" + r["id"]
    return r, what


# --------------------------------------------------------------------------- verdict handling
def shape_of(clause):
    return {"MajorsDistinct/PartialVsDefinedFusion": "partial_vs_defined_fusion",
            "EveryAlleleReachable/OnlyDeletionAlleles": "only_deletion_alleles"}.get(clause, "other")


def report(ctx, rid, clause, case, source, input_diff):
    base = clause.split("/")[0]
    fp = {"source": source, "clause": base, "shape": shape_of(clause) if base in ("MajorsDistinct", "EveryAlleleReachable") else clause,
          "input_differs_between_builds": input_diff or "no"}
    if source == "shipped":
        fp["database"] = os.path.basename(case.get("path", ""))
    ctx.violation(base, fp, case, f"{rid}: {clause}")


def run(ctx):
    aldyenv.setup()
    quick = ctx.tier == "quick"
    rng = random.Random(9000 + ctx.seed)
    ctx.rule = (
        "MC: reference allele + every bag of 3 (quick) / 4 (thorough) database alleles over {core@r1, core@r3, silent@r1} x "
        "{none, left@r1, left@r3, right@r3, deletion, custom{r1}, custom{r3}} with a zero-length region, name order forward / "
        "reverse. (A) the MC tables realised with hostile names on opposite strands and loaded for both builds. (B) 38 shipped "
        "databases x 2 builds and generated hostile databases. distinct = (source, database, build); non-trivial = accepted row "
        "with >= 2 major alleles."
    )
    ctx.trusted = ["gen_db.from_yaml / region_table / Mapper (independent YAML parse and variant -> region assignment)",
                   "name interning in harness/checks/c09.py", "TLC"]
    ctx.assumptions = [
        "names are abstract in the specification; the real names are checked for uniqueness and resolvability only",
        "structural entries do not name zero-length regions",
        "a database whose two builds give different input tables (variant on an alignment gap or across a region border with opposite strands, inconsistent region tables) is reported under BuildIndependent with the reason in the fingerprint (input_differs_between_builds)",
    ]
    # ---- MC (in background threads; joined before the verdicts)
    from concurrent.futures import ThreadPoolExecutor

    if quick:
        mcs = [("mc/MC_Catalogue_two.cfg", "MC_Catalogue(3 alleles, <= 2 left fusions; MajorsDistinct modulo known shape)")]
    else:
        mcs = [("mc/MC_Catalogue.cfg", "MC_Catalogue(full)"),
               ("mc/MC_Catalogue_two.cfg", "MC_Catalogue(two left fusions; MajorsDistinct modulo known shape)"),
               ("mc/MC_Catalogue_repaired.cfg", "MC_Catalogue(two left fusions; proposed repair, all invariants)")]
    mc_pool = ThreadPoolExecutor(len(mcs))
    mc_futs = [(lab, cfg, mc_pool.submit(tlc.run, "mc/MC_Catalogue", cfg, workers=8, timeout=3400)) for cfg, lab in mcs]

    pool = _pool()
    cases_by_id = {}
    try:
        paths = sorted(os.path.join(GENES_DIR, f) for f in os.listdir(GENES_DIR) if f.endswith(".yml"))
        paths.sort(key=lambda p: -os.path.getsize(p))
        shipped_async = pool.map_async(_shipped_worker, paths, chunksize=1)
        ngen = 300 if quick else 5000
        gen_async = pool.map_async(_gen_worker, [(i, ctx.seed) for i in range(ngen)], chunksize=10)
        wit_async = pool.map_async(_wit_worker, list(enumerate(WITNESS_DBS)), chunksize=1)
        # ---- (A)
        out = os.path.join(tlc.scratch(), "cat_cases.ndjson")
        r = ctx.mc("gen/CatalogueGen", "gen/CatalogueGen.cfg", workers=1, env={"OUT_FILE": out}, label="CatalogueGen")
        cases = tlc.read_ndjson(out)
        os.unlink(out)
        got = [p for p in r.prints if p[1] == "CASES"]
        if not got or got[0][2] != len(cases):
            raise MachineryError("CatalogueGen emission mismatch")
        idx = list(range(len(cases)))
        rng.shuffle(idx)
        idx = sorted(idx[: (600 if quick else 8000)])
        mc_async = pool.map_async(_mc_worker, [([(i, cases[i]) for i in idx[j::28]], ctx.seed) for j in range(28)])

        rows, meta = [], {}
        ship_rows = []
        for name, rws, notes, same, nal in shipped_async.get(timeout=3000):
            for rw in rws:
                meta[rw["id"]] = dict(source="shipped", same=same, case={"path": f"aldy/resources/genes/{name}"}, notes=notes)
            ship_rows += rws
        ctx.parts["shipped"] = {"databases": len(paths), "rows": len(ship_rows), "exhaustive": True}
        for i, db, rws, notes, same in gen_async.get(timeout=3000) + wit_async.get(timeout=3000):
            if rws is None:
                ctx.violation("LoaderRaised", {"source": "generated", "clause": "LoaderRaised", "error": notes[0].split(":")[0]},
                              {"db": db}, notes[0])
                continue
            for rw in rws:
                meta[rw["id"]] = dict(source="generated", same=same, case={"db": db}, notes=notes)
            rows += rws
        nmc = 0
        for part in mc_async.get(timeout=3000):
            for i, db, rws, notes, same in part:
                if rws is None:
                    ctx.violation("LoaderRaised", {"source": "mc", "clause": "LoaderRaised", "error": notes[0].split(":")[0]},
                                  {"db": db, "mc_case": cases[i]}, notes[0])
                    continue
                nmc += 1
                for rw in rws:
                    meta[rw["id"]] = dict(source="mc", same=same, case={"db": db, "mc_case": cases[i]}, notes=notes)
                rows += rws
        ctx.parts["generated"] = {"databases": ngen}
        ctx.parts["binding_A"] = {"mc_tables_realised": nmc, "of": len(cases)}
    finally:
        pool.terminate()


    # big shipped rows: one TLC per few rows, heavy ones first
    verdicts = {}
    ship_rows.sort(key=lambda r: -len(json.dumps(r)))
    with ThreadPoolExecutor(2) as ex:
        f1 = ex.submit(run_rows, ctx, ship_rows, "shipped", 12, 4)
        f2 = ex.submit(run_rows, ctx, rows, "gen", 10, 100)
        verdicts.update(f1.result())
        verdicts.update(f2.result())
    for lab, cfg, fut in mc_futs:
        r = fut.result()
        ctx.states += r.distinct
        ctx.transitions += r.generated
        ctx.mc_runs.append(dict(r.summary(), module=lab, cfg=os.path.basename(cfg)))
        if not r.ok:
            raise MachineryError(f"spec-level check {cfg} failed: {r.violated}\n{r.error_text[:3000]}")
    mc_pool.shutdown()
    accepted = []
    clauses = {}
    for rw in ship_rows + rows:
        c = verdicts.get(rw["id"], "")
        m = meta[rw["id"]]
        nontriv = c == "" and rw["k"] == "cat" and len(rw["real"]["majors"]) >= 2
        ctx.count(1, key=rw["id"], nontrivial=nontriv)
        ctx.traces += 1
        if c == "":
            accepted.append(rw)
            continue
        clauses[c] = clauses.get(c, 0) + 1
        case = dict(m["case"], row_id=rw["id"], notes=m["notes"][:5])
        report(ctx, rw["id"], c, case, m["source"], m["same"])
    ctx.parts["rejections_by_clause"] = clauses
    ctx.exhaustive = True
    for rw in accepted[:1]:
        ctx.sample({"id": rw["id"], "k": rw["k"], "tab": rw.get("tab", {}).get("al", [])[:4], "majors": (rw.get("real") or rw.get("a"))["majors"][:3]})

    # ---- canaries
    can, want = [], {}
    pool_rows = [r for r in accepted if r["id"].startswith(("gen/", "mc/"))] + [r for r in accepted if r["id"].startswith("shipped/cyp2c19")]
    rng.shuffle(pool_rows)
    for rw in pool_rows:
        if len(can) >= 45:
            break
        c = corrupt(rng, rw)
        if c and want.get(c[1], 0) < 5:
            want[c[1]] = want.get(c[1], 0) + 1
            can.append(c[0])
    cv = run_rows(ctx, can, "canary", chunks=4, per_chunk=12)
    for c in can:
        rej = bool(cv.get(c["id"], ""))
        if not rej:
            print(f"[C09] canary ACCEPTED: {c['id']}")
        ctx.canary(rej)
    ctx.parts["canaries"] = want


def replay(path):
    from ..core import Ctx

    aldyenv.setup()
    with open(path) as f:
        blob = json.load(f)
    case = blob["case"]
    ctx = Ctx("C09", "quick", 0)
    if "db" in case:
        db, genes = case["db"], None
    else:
        from aldy.gene import Gene

        p = os.path.join(aldyenv.ALDY_SRC, case["path"])
        db = gen_db.from_yaml(p)
        genes = {b: Gene(p, genome=b) for b in ("hg19", "hg38")}
    try:
        rows, notes, same = rows_for_db(db, "replay", genes)
    except Exception as ex:
        print(f"VIOLATION property=C09 replay={path}")
        print(f"  loader raised {type(ex).__name__}: {ex}")
        return 1
    v = run_rows(ctx, rows, "replay", chunks=1)
    print("replay verdicts:", v, "notes:", notes[:5], "input differs between builds:", same or "no")
    if v:
        print(f"VIOLATION property=C09 replay={path}")
        return 1
    print("replay: accepted")
    return 0
