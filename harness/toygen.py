"""A generated gene database derived from aldy's toy gene (tests/resources/toy.yml).

Used by C11/C12 to realise the abstract universes of spec/mc/MC_Diplotype and MC_Output:
same reference (ACGT repeated, 200 bp, hg19 '+' / hg38 '-'), same regions and pseudogene,
but alleles *1 *1C *2 *2C *4 *4C *13 *13C (number group x {no letter, letter}) that each
have their own functional variant, a *3 with one variant of every kind (substitution,
insertion, deletion, multi-nucleotide substitution), a left fusion *7 (so that fused
majors 7#1, 7#2, ... exist), and optionally the whole-gene deletion *6.

All variants are spelled against the reference (unlike toy.yml itself).
"""
import copy
import os

import yaml

from . import aldyenv, tlc

TOY = os.path.join(aldyenv.ALDY_SRC, "aldy/tests/resources/toy.yml")


def ref_base(pos1):
    """Reference base at 1-based RefSeq position (the toy reference is ACGT repeated)."""
    return "ACGT"[(pos1 - 1) % 4]


# name -> (label, [[pos(1-based RefSeq), op, rsid, function?]])
ALLELES = {
    "1.001": ("1", []),
    "1.002": ("1B", [[115, "G>A", "rs115"]]),
    "1.003": ("1C", [[105, "A>T", "rs105", "F105"]]),
    "2.001": ("2", [[113, "A>C", "rs113", "F113"]]),
    "2.002": ("2B", [[113, "A>C", "rs113", "F113"], [163, "G>T", "-"]]),
    "2.003": ("2C", [[113, "A>C", "rs113", "F113"], [133, "A>G", "rs133", "F133"]]),
    "4.001": ("4", [[153, "A>T", "rs153", "F153"]]),
    "4.002": ("4C", [[153, "A>T", "rs153", "F153"], [137, "A>C", "-", "F137"]]),
    "13.001": ("13", [[157, "A>G", "rs157", "F157"]]),
    "13.002": ("13C", [[157, "A>G", "rs157", "F157"], [117, "A>T", "rs117", "F117"]]),
    # one variant of every kind: insertion (after 119), deletion, MNP, silent SNP
    "3.001": ("3", [[119, "insTT", "rs119", "frameshift"], [139, "delGT", "-", "frameshift"],
                    [158, "CG>TA", "rs158", "F158"], [171, "G>C", "rs171"], [148, "insA", "-"]]),
    "3.002": ("3B", [[119, "insTT", "rs119", "frameshift"], [139, "delGT", "-", "frameshift"],
                     [158, "CG>TA", "rs158", "F158"], [175, "delGTA", "rs175"]]),
}


# the universe of spec/mc/MC_Output: allele A = *1 (silent substitution), B = *2 (insertion + deletion, both core),
# C = *3 (core multi-nucleotide substitution + the silent substitution); variant ids 1 sub, 2 ins, 3 del, 4 MNP
OUT_ALLELES = {
    "1.001": ("1", [[171, "G>C", "rs171"]]),
    "2.001": ("2", [[119, "insTT", "rs119", "frameshift"], [139, "delGT", "-", "frameshift"]]),
    "3.001": ("3", [[158, "CG>TA", "rs158", "F158"], [171, "G>C", "rs171"]]),
}
OUT_VARIANTS = {1: (171, "G>C"), 2: (119, "insTT"), 3: (139, "delGT"), 4: (158, "CG>TA")}  # 1-based RefSeq position, op
OUT_NAMES = {"A": ("1", "1.001"), "B": ("2", "2.001"), "C": ("3", "3.001")}


def build(with_deletion=True, with_fusion=True, tandems=None, name="TOYX", alleles_def=None):
    """Write the generated database into the scratch directory and return its path."""
    with open(TOY) as f:
        y = yaml.safe_load(f)
    y = copy.deepcopy(y)
    y["name"] = "TOY"  # the gene name is referenced by [TOY, deletion]
    alleles = {}
    for n, (label, muts) in (alleles_def or ALLELES).items():
        for m in muts:
            p, op = m[0], m[1]
            if ">" in op:
                left = op.split(">")[0]
                assert "".join(ref_base(p + i) for i in range(len(left))) == left, (n, m)
            elif op.startswith("del"):
                assert "".join(ref_base(p + i) for i in range(len(op) - 3)) == op[3:], (n, m)
        alleles[f"TOY*{n}"] = {"label": f"TOY*{label}", "mutations": [list(m) for m in muts]}
    if with_fusion:
        alleles["TOY*7.001"] = {"label": "TOY*7", "mutations": [["TOYP", "i2-"]]}
    if with_deletion:
        alleles["TOY*6.001"] = {"label": "TOY*6DEL", "mutations": [["TOY", "deletion"]]}
    y["alleles"] = alleles
    y["structure"]["tandems"] = [list(t) for t in (tandems or [])]
    path = os.path.join(tlc.scratch(), f"{name}_{int(with_deletion)}{int(with_fusion)}_{len(os.listdir(tlc.scratch()))}.yml")
    with open(path, "w") as f:
        yaml.safe_dump(y, f, default_flow_style=None, sort_keys=False)
    return path


def load(with_deletion=True, with_fusion=True, genome="hg19", alleles_def=None):
    from aldy.gene import Gene

    return Gene(build(with_deletion, with_fusion, alleles_def=alleles_def), genome=genome)
