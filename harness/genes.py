"""Locations and loaders of gene databases in the tree under test ($ALDY_SRC, default /repo)."""
import glob
import os

from . import aldyenv


def toy_path():
    return os.path.join(aldyenv.ALDY_SRC, "aldy/tests/resources/toy.yml")


def genes_dir():
    return os.path.join(aldyenv.ALDY_SRC, "aldy/resources/genes")


def shipped_names():
    return sorted(os.path.basename(p)[:-4] for p in glob.glob(os.path.join(genes_dir(), "*.yml")))


def load(name, genome="hg19"):
    """name: 'toy', a shipped gene name (e.g. 'cyp2d6') or a path to a YAML file."""
    from aldy.gene import Gene

    if name == "toy":
        path = toy_path()
    elif name.endswith(".yml"):
        path = name
    else:
        path = os.path.join(genes_dir(), name.lower() + ".yml")
    return Gene(path, genome=genome)
