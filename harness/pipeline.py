"""Recorders and driver for whole genotype() runs (used by C10, C19, C01, C13, C14, C17).

No change to /repo is needed: aldy.genotype looks the stage functions up through their modules
at call time (`cn.estimate_cn`, `major.estimate_major`, `minor.estimate_minor`) and
estimate_minor calls `solve_minor_model` through its module globals, so wrappers installed in the
harness process see exactly what genotype() sees.  Wrappers are add-only, log at return (also on
the error path) and SNAPSHOT the returned values, because genotype() mutates scores in place
afterwards.
"""
import contextlib
import io
import os


class NamedIO(io.StringIO):
    """In-memory output file with a name (genotype() dispatches on the file name)."""

    def __init__(self, name):
        super().__init__()
        self.name = name


def cn_key(s):
    return tuple(sorted(s.solution.elements()))


def cn_snap(s):
    return {"struct": list(cn_key(s)), "score": float(s.score),
            "region_cn": [{r: int(v) for r, v in g.items()} for g in s.region_cn]}


def major_key(s):
    return (tuple(sorted(sa.major for sa, n in s.solution.items() for _ in range(n))),
            tuple(sorted(str(m) for m in s.added)), cn_key(s.cn_solution))


def major_snap(s):
    k = major_key(s)
    return {"alleles": list(k[0]), "novel": list(k[1]), "cn": list(k[2]), "score": float(s.score),
            "cfgs": [s.cn_solution.gene.alleles[a].cn_config for a in k[0]],
            "novel_raw": [[m.pos, m.op] for m in sorted(s.added)]}


def minor_snap(s):
    copies = [{"major": sa.major, "minor": sa.minor, "added": sorted(str(m) for m in sa.added),
               "missing": sorted(str(m) for m in sa.missing),
               "added_raw": [[m.pos, m.op] for m in sorted(sa.added)], "missing_raw": [[m.pos, m.op] for m in sorted(sa.missing)]}
              for sa in s.solution]
    d = getattr(s, "diplotype", None)
    mk = major_key(s.major_solution)
    gene = s.major_solution.cn_solution.gene
    return {"copies": copies, "score": float(s.score), "major": [list(mk[0]), list(mk[1]), list(mk[2])],
            "major_cfgs": [gene.alleles[a].cn_config if a in gene.alleles else "?" for a in mk[0]],
            "major_score": float(s.major_solution.score), "cn_score": float(s.major_solution.cn_solution.score),
            "diplotype": [list(x) for x in d] if d is not None else None,
            "major_diplotype": s.get_major_diplotype() if d is not None else None,
            "minor_diplotype": s.get_minor_diplotype() if d is not None else None}


class Recorder:
    """with Recorder() as rec: ... ; rec.events is the list of stage events of everything run inside."""

    def __init__(self, stubs=None):
        """stubs: {function name: replacement}: the stage ORACLE is replaced (scripted stage results for the real
        genotype() orchestration, see spec/gen/PipelineGen.tla); everything around it stays the real code."""
        self.events = []
        self._saved = []
        self._depth = 0
        self._stubs = stubs or {}

    def _wrap(self, module, name, before, after):
        real = getattr(module, name)
        orig = self._stubs.get(name, real)
        rec = self

        def wrapper(*a, **kw):
            ev = before(*a, **kw)
            out, err = None, ""
            try:
                out = orig(*a, **kw)
                return out
            except BaseException as ex:
                err = f"{type(ex).__name__}: {ex}"
                raise
            finally:
                ev["err"] = err
                try:
                    after(ev, out)
                except Exception as ex2:  # never let the recorder change behaviour
                    ev["recorder_error"] = repr(ex2)
                rec.events.append(ev)

        wrapper.__wrapped__ = orig
        self._saved.append((module, name, real))
        setattr(module, name, wrapper)

    def __enter__(self):
        import aldy.cn
        import aldy.major
        import aldy.minor

        def cn_before(gene, profile, coverage, solver, debug=None):
            return {"k": "cn", "gene": gene.name, "user": list(profile.cn_solution) if profile.cn_solution else None,
                    "do_copy_number": bool(gene.do_copy_number)}

        def cn_after(ev, out):
            ev["sols"] = [cn_snap(s) for s in (out or [])]
            ev["returned"] = out is not None

        def major_before(gene, coverage, cn_solution, solver, identifier=0, debug=None):
            return {"k": "major", "gene": gene.name, "cn": cn_snap(cn_solution), "identifier": identifier}

        def major_after(ev, out):
            ev["sols"] = [major_snap(s) for s in (out or [])]
            ev["returned"] = out is not None

        def minor_before(gene, coverage, major_sols, solver, max_solutions=1, novel=False):
            return {"k": "minor", "gene": gene.name, "majors": [major_snap(s) for s in major_sols], "max_solutions": max_solutions}

        def minor_after(ev, out):
            ev["sols"] = [minor_snap(s) for s in (out or [])]
            ev["returned"] = out is not None

        def solve_before(gene, coverage, major_sol, alleles_list, mutations, solver, max_solutions=1):
            return {"k": "minor_solve", "gene": gene.name, "major": major_snap(major_sol), "max_solutions": max_solutions}

        def solve_after(ev, out):
            ev["sols"] = [minor_snap(s) for s in (out or [])]
            ev["returned"] = out is not None

        self._wrap(aldy.cn, "estimate_cn", cn_before, cn_after)
        self._wrap(aldy.major, "estimate_major", major_before, major_after)
        self._wrap(aldy.minor, "estimate_minor", minor_before, minor_after)
        self._wrap(aldy.minor, "solve_minor_model", solve_before, solve_after)
        return self

    def __exit__(self, *exc):
        for module, name, orig in reversed(self._saved):
            setattr(module, name, orig)
        self._saved = []
        return False


def run_genotype(gene_db, sam_path, profile_name, out_name="out.aldy", capture_sample=False, stubs=None, **kw):
    """Run the real aldy.genotype.genotype() with recorders on.

    Returns {"events", "result" (list of minor snapshots or None), "result_objs", "error", "error_type",
    "output" (text written to the output file), "sample" (the Sample object if capture_sample)}.
    """
    import aldy.genotype
    import aldy.sam
    from aldy.common import AldyException

    out = NamedIO(out_name)
    holder = {}
    saved_sample = aldy.sam.Sample
    if capture_sample:
        class CapturingSample(saved_sample):  # type: ignore
            def __init__(self, *a, **k):
                holder["sample"] = self
                super().__init__(*a, **k)

        aldy.sam.Sample = CapturingSample
    res, err, etype = None, "", ""
    try:
        with Recorder(stubs=stubs) as rec:
            try:
                res = aldy.genotype.genotype(gene_db, sam_path, profile_name, output_file=out, **kw)
            except AldyException as ex:
                err, etype = str(ex), "AldyException"
            except Exception as ex:  # anything else is not an "explanatory error"
                err, etype = f"{ex}", type(ex).__name__
    finally:
        aldy.sam.Sample = saved_sample
    sols = None
    objs = None
    if res is not None:
        objs = [s for v in res.values() for s in v]
        sols = [minor_snap(s) for s in objs]
    return {"events": rec.events, "result": sols, "result_objs": objs, "error": err, "error_type": etype,
            "output": out.getvalue(), "sample": holder.get("sample")}


# --------------------------------------------------------------------------- trace rows (PipelineTrace.tla)
U = 10000


def _fix(x):
    return int(round(x * U))


def _mkey(s):
    return "|".join([",".join(s["alleles"]), ",".join(s["novel"]), ",".join(s["cn"])])


def _nkey(s):
    return ";".join(f"{c['major']}/{c['minor']}/+{','.join(c['added'])}/-{','.join(c['missing'])}" for c in s["copies"]) + "@" + "|".join(
        ",".join(x) for x in s["major"])


def trace_rows(run, tid, gap):
    """ndjson rows of spec/trace/PipelineTrace.tla for one recorded genotype() run (structural)."""
    ev = run["events"]
    rows = [{"tid": tid, "k": "begin", "gapU": _fix(gap)}]
    cn_ev = [e for e in ev if e["k"] == "cn"]
    maj_ev = [e for e in ev if e["k"] == "major"]
    min_ev = [e for e in ev if e["k"] == "minor"]
    solve_ev = [e for e in ev if e["k"] == "minor_solve"]
    stage = "input"
    if cn_ev and cn_ev[0]["returned"]:
        sols = cn_ev[0]["sols"]
        order = []
        for m in maj_ev:
            k = ",".join(m["cn"]["struct"])
            if k not in order:
                order.append(k)
        by = {",".join(s["struct"]): s for s in sols}
        seq = [by[k] for k in order if k in by] + [s for k, s in by.items() if k not in order]
        rows.append({"tid": tid, "k": "cn", "sols": [{"key": ",".join(s["struct"]), "score": _fix(s["score"])} for s in seq]})
        stage = "cn" if not sols else "major"
    elif cn_ev:
        stage = "cn"
    majS = []
    for m in maj_ev:
        if not m["returned"]:
            continue
        rows.append({"tid": tid, "k": "major", "cnkey": ",".join(m["cn"]["struct"]),
                     "sols": [{"key": _mkey(s), "raw": _fix(s["score"])} for s in m["sols"]]})
        majS += [_mkey(s) for s in m["sols"]]
    if min_ev:
        me = min_ev[0]
        used = set()
        passed = []
        for s in me["majors"]:
            k = _mkey(s)
            idx = next((i + 1 for i, kk in enumerate(majS) if kk == k and i not in used), 0)
            if idx:
                used.add(idx - 1)
            passed.append({"idx": idx, "score": _fix(s["score"])})
        rows.append({"tid": tid, "k": "selmajor", "passed": passed})
        stage = "minor"
        if me["returned"]:
            raw = {}
            for se in solve_ev:
                for s in se["sols"]:
                    raw.setdefault(_nkey(s), _fix(s["score"]))
            sols = []
            for s in me["sols"]:
                mk = "|".join(",".join(x) for x in s["major"])
                sols.append({"key": _nkey(s), "maj": next((i + 1 for i, kk in enumerate(majS) if kk == mk), 0),
                             "raw": raw.get(_nkey(s), -1), "carried": _fix(s["score"])})
            rows.append({"tid": tid, "k": "minor", "sols": sols})
            mkeys = [s["key"] for s in sols]
    rep = []
    used_m = set()
    if run["result"] is not None and min_ev and min_ev[0]["returned"]:
        for s in run["result"]:
            k = _nkey(s)
            # two refined candidates can have the same content (two optimal assignments of the minor model that
            # denote the same alleles): each report entry is matched to a candidate of its own
            idx = next((i + 1 for i, kk in enumerate(mkeys) if kk == k and i not in used_m), 0)
            if idx:
                used_m.add(idx - 1)
            dip = sorted(i for h in (s["diplotype"] or []) for i in h if i >= 0)
            rep.append({"idx": idx, "final": _fix(s["score"]), "chain": {
                "copy_majors": sorted(c["major"] for c in s["copies"]), "major_alleles": sorted(s["major"][0]),
                "allele_cfgs": sorted(s["major_cfgs"]),
                "cn_struct": sorted(s["major"][2]), "dip_sorted": dip, "ncopies": len(s["copies"])}})
    rows.append({"tid": tid, "k": "report", "err": run["error"], "errtype": run["error_type"], "stage": stage,
                 "has_result": run["result"] is not None, "sols": rep})
    return rows
