"""Recorders and driver for whole genotype() runs (used by C10, C19, C01, C13, C14, C17).

No change to /repo is needed: aldy.genotype looks the stage functions up through their modules
at call time (`cn.estimate_cn`, `major.estimate_major`, `minor.estimate_minor`) and
estimate_minor calls `solve_minor_model` through its module globals, so wrappers installed in the
harness process see exactly what genotype() sees.  Wrappers are add-only, log at return (also on
the error path) and SNAPSHOT the returned values, because genotype() mutates scores in place
afterwards.
"""
import contextlib
import io
import os


class NamedIO(io.StringIO):
    """In-memory output file with a name (genotype() dispatches on the file name)."""

    def __init__(self, name):
        super().__init__()
        self.name = name


def cn_key(s):
    return tuple(sorted(s.solution.elements()))


def cn_snap(s):
    return {"struct": list(cn_key(s)), "score": float(s.score),
            "region_cn": [{r: int(v) for r, v in g.items()} for g in s.region_cn]}


def major_key(s):
    return (tuple(sorted(sa.major for sa, n in s.solution.items() for _ in range(n))),
            tuple(sorted(str(m) for m in s.added)), cn_key(s.cn_solution))


def major_snap(s):
    k = major_key(s)
    return {"alleles": list(k[0]), "novel": list(k[1]), "cn": list(k[2]), "score": float(s.score),
            "cfgs": [s.cn_solution.gene.alleles[a].cn_config for a in k[0]],
            "novel_raw": [[m.pos, m.op] for m in sorted(s.added)]}


def minor_snap(s):
    copies = [{"major": sa.major, "minor": sa.minor, "added": sorted(str(m) for m in sa.added),
               "missing": sorted(str(m) for m in sa.missing),
               "added_raw": [[m.pos, m.op] for m in sorted(sa.added)], "missing_raw": [[m.pos, m.op] for m in sorted(sa.missing)]}
              for sa in s.solution]
    d = getattr(s, "diplotype", None)
    mk = major_key(s.major_solution)
    return {"copies": copies, "score": float(s.score), "major": [list(mk[0]), list(mk[1]), list(mk[2])],
            "major_score": float(s.major_solution.score), "cn_score": float(s.major_solution.cn_solution.score),
            "diplotype": [list(x) for x in d] if d is not None else None,
            "major_diplotype": s.get_major_diplotype() if d is not None else None,
            "minor_diplotype": s.get_minor_diplotype() if d is not None else None}


class Recorder:
    """with Recorder() as rec: ... ; rec.events is the list of stage events of everything run inside."""

    def __init__(self):
        self.events = []
        self._saved = []
        self._depth = 0

    def _wrap(self, module, name, before, after):
        orig = getattr(module, name)
        rec = self

        def wrapper(*a, **kw):
            ev = before(*a, **kw)
            out, err = None, ""
            try:
                out = orig(*a, **kw)
                return out
            except BaseException as ex:
                err = f"{type(ex).__name__}: {ex}"
                raise
            finally:
                ev["err"] = err
                try:
                    after(ev, out)
                except Exception as ex2:  # never let the recorder change behaviour
                    ev["recorder_error"] = repr(ex2)
                rec.events.append(ev)

        wrapper.__wrapped__ = orig
        self._saved.append((module, name, orig))
        setattr(module, name, wrapper)

    def __enter__(self):
        import aldy.cn
        import aldy.major
        import aldy.minor

        def cn_before(gene, profile, coverage, solver, debug=None):
            return {"k": "cn", "gene": gene.name, "user": list(profile.cn_solution) if profile.cn_solution else None,
                    "do_copy_number": bool(gene.do_copy_number)}

        def cn_after(ev, out):
            ev["sols"] = [cn_snap(s) for s in (out or [])]
            ev["returned"] = out is not None

        def major_before(gene, coverage, cn_solution, solver, identifier=0, debug=None):
            return {"k": "major", "gene": gene.name, "cn": cn_snap(cn_solution), "identifier": identifier}

        def major_after(ev, out):
            ev["sols"] = [major_snap(s) for s in (out or [])]
            ev["returned"] = out is not None

        def minor_before(gene, coverage, major_sols, solver, max_solutions=1, novel=False):
            return {"k": "minor", "gene": gene.name, "majors": [major_snap(s) for s in major_sols], "max_solutions": max_solutions}

        def minor_after(ev, out):
            ev["sols"] = [minor_snap(s) for s in (out or [])]
            ev["returned"] = out is not None

        def solve_before(gene, coverage, major_sol, alleles_list, mutations, solver, max_solutions=1):
            return {"k": "minor_solve", "gene": gene.name, "major": major_snap(major_sol), "max_solutions": max_solutions}

        def solve_after(ev, out):
            ev["sols"] = [minor_snap(s) for s in (out or [])]
            ev["returned"] = out is not None

        self._wrap(aldy.cn, "estimate_cn", cn_before, cn_after)
        self._wrap(aldy.major, "estimate_major", major_before, major_after)
        self._wrap(aldy.minor, "estimate_minor", minor_before, minor_after)
        self._wrap(aldy.minor, "solve_minor_model", solve_before, solve_after)
        return self

    def __exit__(self, *exc):
        for module, name, orig in reversed(self._saved):
            setattr(module, name, orig)
        self._saved = []
        return False


def run_genotype(gene_db, sam_path, profile_name, out_name="out.aldy", capture_sample=False, **kw):
    """Run the real aldy.genotype.genotype() with recorders on.

    Returns {"events", "result" (list of minor snapshots or None), "result_objs", "error", "error_type",
    "output" (text written to the output file), "sample" (the Sample object if capture_sample)}.
    """
    import aldy.genotype
    import aldy.sam
    from aldy.common import AldyException

    out = NamedIO(out_name)
    holder = {}
    saved_sample = aldy.sam.Sample
    if capture_sample:
        class CapturingSample(saved_sample):  # type: ignore
            def __init__(self, *a, **k):
                holder["sample"] = self
                super().__init__(*a, **k)

        aldy.sam.Sample = CapturingSample
    res, err, etype = None, "", ""
    try:
        with Recorder() as rec:
            try:
                res = aldy.genotype.genotype(gene_db, sam_path, profile_name, output_file=out, **kw)
            except AldyException as ex:
                err, etype = str(ex), "AldyException"
            except Exception as ex:  # anything else is not an "explanatory error"
                err, etype = f"{ex}", type(ex).__name__
    finally:
        aldy.sam.Sample = saved_sample
    sols = None
    objs = None
    if res is not None:
        objs = [s for v in res.values() for s in v]
        sols = [minor_snap(s) for s in objs]
    return {"events": rec.events, "result": sols, "result_objs": objs, "error": err, "error_type": etype,
            "output": out.getvalue(), "sample": holder.get("sample")}
