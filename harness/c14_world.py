"""C14 — the real side of History.tla: one WORLD (two gene databases, their samples, live objects) and the
operation alphabet executed against the real aldy code in ONE process, with a structural projection of every
live Gene / Coverage object and of the operation's result after EVERY operation.

Used in-process by harness/checks/c14.py (forked child per history) and as a stand-alone worker

    PYTHONHASHSEED=<s> python -m harness.c14_world <job.json> <out.json>

for FreshProcess(seed) segments (a new interpreter with another hash seed).

World kinds
-----------
"sim"  two generated genes A, B (gen_reads.toy_yaml on either strand / a gen_db database) that live on ONE contig
       and are sequenced in ONE BAM (so that `genotype("a.yml,b.yml", bam, ...)` is meaningful), a third gene C
       whose locus has no reads in the sample (it fails with a reported error), a second sample s2, a profile BAM.
"syn"  the repo's toy gene (tests/resources/toy.yml) and one small shipped gene with synthetic Coverage objects
       (harness/evidence.py); no BAM, so Genotype/GenotypeMulti are not in the alphabet of these worlds.

Everything here is harness code (trusted base); aldy is only imported inside functions.
"""
import contextlib
import hashlib
import io
import json
import os
import random
import sys
import types

from . import aldyenv, c14_digest as D

CN_REGION = ("20", 27500, 27900)
CONTIG_LEN = 30000
READ_LEN = 100
DEPTH = 10


# =========================================================================== world construction (parent, once)
def _toy(name, strand, seed, gene_start, pseudo_start):
    from . import gen_reads

    other = "-" if strand == "+" else "+"
    return gen_reads.toy_yaml(strand, other, seed=seed, name=name, gene_start=gene_start, pseudo_start=pseudo_start)[0]


def _gendb_between(rng, lo, hi, name):
    """A gen_db database whose hg19 gene + pseudogene block lies inside [lo, hi) of a CONTIG_LEN contig."""
    from . import gen_db

    for _ in range(400):
        db = gen_db.random_db(rng, name=name, contig=CONTIG_LEN, pseudogene=True, seq_len=(300, 700), n_majors=(2, 4))
        b = db["builds"]["hg19"]
        xs = [v for r in b["regions"].values() for v in r] + [b["start"], b["end"]]
        if min(xs) >= lo and max(xs) < hi:
            return db
    raise RuntimeError("no gen_db database fits the window")


def _allele_haps(gene, rng, n=2, allow_struct=True):
    """A random genotype [(structure, variants)] built from catalogued (major, minor) pairs."""
    from . import gen_reads

    dele = gene.deletion_allele()
    majors = {c: [a for a, al in gene.alleles.items() if al.cn_config == c] for c in gene.cn_configs}
    cfgs = [c for c in gene.cn_configs if c != dele and majors[c]]
    haps, planted = [], []
    for _ in range(n):
        c = "1" if (not allow_struct or rng.random() < 0.75 or len(cfgs) == 1) else rng.choice(cfgs)
        a = rng.choice(majors[c])
        mi = rng.choice(sorted(gene.alleles[a].minors))
        v = set(gene.alleles[a].func_muts) | set(gene.alleles[a].minors[mi].neutral_muts)
        haps.append((c, sorted((m.pos, m.op) for m in v)))
        planted.append([a, mi])
    del gen_reads
    return haps, planted


def _occupied(genes):
    from . import gen_reads

    iv = []
    for g in genes:
        iv += [(a, b) for _, _, a, b in gen_reads.region_intervals(g)]
    return gen_reads._merge_overlap(iv)


def _write_sample(path, genes_haps, hole_genes, all_genes, ctg, rng, depth=DEPTH):
    """One BAM: the haplotype copies of every gene in genes_haps + two background copies of everything that is
    no gene/pseudogene region; the loci of `hole_genes` get no read at all."""
    from . import gen_reads

    reads = []
    for gi, (gene, haps) in enumerate(genes_haps):
        for hi, h in enumerate(haps):
            c = gen_reads.haplotype(gene, ctg, h[0], h[1], weak=bool(h[2]) if len(h) > 2 else False, background=False)
            reads += gen_reads.tile(c, ctg, READ_LEN, depth, prefix=f"g{gi}h{hi}", offset=rng.randrange(READ_LEN) if hi else 0)
    for gi, (gene, haps) in enumerate(genes_haps):   # junk the quality filters must drop (low mapping / base quality)
        w = gene.get_wide_region()
        reads += gen_reads.noise_reads(ctg, max(0, w.start), min(CONTIG_LEN, w.end), 25, READ_LEN, rng, prefix=f"junk{gi}")
    occ = _occupied(all_genes)
    for g in hole_genes:
        w = g.get_wide_region()
        occ.append((w.start - 200, w.end + 200))
    occ = gen_reads._merge_overlap(occ)
    bg, cur = [], 0
    for a, b in occ:
        if a > cur:
            bg.append((cur, a))
        cur = max(cur, b)
    if cur < CONTIG_LEN:
        bg.append((cur, CONTIG_LEN))
    for k in range(2):
        c = gen_reads.Copy([gen_reads.Segment(a, b, []) for a, b in bg], "background", False, [])
        reads += gen_reads.tile(c, ctg, READ_LEN, depth, prefix=f"bg{k}")
    gen_reads.write_bam(path, all_genes[0].chr, CONTIG_LEN, reads)
    return path


def build_sim_world(d, seed, variant, genome="hg19"):
    """Write YAMLs + BAMs of a "sim" world under directory d (lower-case path!); returns the JSON-able spec.
    genome="hg38" (toy2 only: the toy databases place both builds at the same coordinates, on opposite strands): the
    build is then given EXPLICITLY and differs from what the header of the small contig lets aldy detect (hg19)."""
    assert genome == "hg19" or variant == "toy2"
    from . import gen_db, gen_reads

    aldyenv.setup()
    assert d == d.lower(), "genotype() lower-cases comma lists of database paths"
    rng = random.Random(seed)
    ymls = {}
    if variant == "toy2":
        ymls["A"] = ("toys.yml", _toy("TOYS", "+", rng.randrange(40), 5001, 8001))
        ymls["B"] = ("toyt.yml", _toy("TOYT", "-", rng.randrange(40), 12001, 15001))
    else:
        ymls["A"] = ("genx.yml", gen_db.to_yaml(_gendb_between(rng, 10800, 19500, "GENX")))
        ymls["B"] = ("toys.yml", _toy("TOYS", rng.choice("+-"), rng.randrange(40), 5001, 8001))
    ymls["C"] = ("toyc.yml", _toy("TOYC", "+", rng.randrange(40), 21001, 23501))
    spec = {"kind": "sim", "variant": variant, "seed": seed, "genome": genome, "genes": {}, "cn_region": list(CN_REGION)}
    genes = {}
    for lab, (fn, txt) in ymls.items():
        p = os.path.join(d, fn)
        with open(p, "w") as f:
            f.write(txt)
        genes[lab] = gen_reads.load_gene(p, genome)
        spec["genes"][lab] = {"yml": p, "name": genes[lab].name, "genome": genome}
    # contig: random, then every gene's lookup sequence / mutated pseudogene copy overlaid in turn
    ctg = list(gen_reads.contig(genes["A"], CONTIG_LEN, rng))
    for lab in ("B", "C"):
        other = gen_reads.contig(genes[lab], CONTIG_LEN, rng)
        for _, _, a, b in gen_reads.region_intervals(genes[lab]):
            ctg[a:b] = other[a:b]
        s, e = genes[lab]._lookup_range
        for i, ch in enumerate(genes[lab]._lookup_seq):
            if ch != "N":
                ctg[s + i] = ch
    ctg = "".join(ctg)
    allg = [genes["A"], genes["B"], genes["C"]]
    spec["samples"] = {}
    for s in ("s1", "s2"):
        gh, planted = [], {}
        for lab in ("A", "B"):
            for _ in range(20):
                haps, pl = _allele_haps(genes[lab], rng)
                try:
                    for h in haps:
                        gen_reads.haplotype(genes[lab], ctg, h[0], h[1])
                    break
                except ValueError:
                    continue
            gh.append((genes[lab], haps))
            planted[lab] = pl
        bam = os.path.join(d, f"{s}.bam")
        _write_sample(bam, gh, [genes["C"]], allg, ctg, rng)
        spec["samples"][s] = {"bam": bam, "planted": planted}
    prof = os.path.join(d, "prof.bam")
    _write_sample(prof, [(g, [("1", ()), ("1", ())]) for g in allg], [], allg, ctg, rng)
    spec["profile_bam"] = prof
    # a user structure that gene A knows and gene B may not (B then fails with a reported error in the multi run)
    dele = genes["A"].deletion_allele()
    spec["user_cn"] = ["1", dele] if dele else ["1", "1"]
    return spec


SHIPPED_SMALL = ["nudt15", "cyp2c19", "tpmt", "cyp3a5", "cyp2b6", "cyp2c9", "cyp2w1"]


def build_real_world(fast=False):
    """The repo's own test sample: CYP2D6 on NA10860.bam with the shipped illumina profile (hg19).
    fast: read phasing off (25 s instead of 60 s per run) and an alternative neutral region for the "nreg" mode."""
    from . import genes as G

    res = os.path.join(aldyenv.ALDY_SRC, "aldy/tests/resources")
    w = {"kind": "real", "seed": 0, "genome": "hg19", "cn_region": None, "profile_bam": "illumina", "user_cn": ["1", "1"],
         "genes": {"A": {"yml": os.path.join(G.genes_dir(), "cyp2d6.yml"), "db": "cyp2d6", "name": "CYP2D6", "genome": "hg19"}},
         "samples": {"s1": {"bam": os.path.join(res, "NA10860.bam")}}}
    if fast:
        w.update(variant="CYP2D6-fast", params={"phase": False}, alt_cn_region=["22", 42547463, 42547763])
    return w


def _has_added(spec):
    w = World(spec, 0)
    for g in ("A", "B"):
        w.ensure_chain(g)
    n = int(any(sa.added for s in w.live["B"]["minor"] for sa in s.solution))
    return n, all(bool(w.live[g]["minor"]) for g in ("A", "B"))


def build_syn_world(seed, shipped="nudt15"):
    """Synthetic-evidence world; the seed is advanced until both genes are genotyped and (if possible) a refinement
    ADDS a variant (tried in forked children: the parent stays pristine)."""
    from . import genes as G

    best = None
    for k in range(10):
        spec = {"kind": "syn", "seed": seed + k, "genome": "hg19",
                "genes": {"A": {"yml": G.toy_path(), "name": "TOY", "genome": "hg19"},
                          "B": {"yml": os.path.join(G.genes_dir(), shipped + ".yml"), "name": shipped.upper(), "genome": "hg19"}}}
        try:
            n, ok = _in_fork(_has_added, spec)
        except RuntimeError:
            continue
        if ok and (best is None or n > best[0]):
            best = (n, spec)
        if ok and n == 1:
            break
    if best is None:
        raise RuntimeError(f"no synthetic world with solutions for {shipped}")
    return best[1]


# =========================================================================== values
def _canon(v):
    return json.dumps(v, sort_keys=True, default=str, separators=(",", ":"))


def _sha(s):
    return hashlib.sha1(s.encode()).hexdigest()[:16]


def mk_value(struct, scores=(), text=""):
    """A result: structure (exact), scores (floats, compared exactly; differences < 1e-5 are classified
    separately), output text (exact)."""
    return {"s": struct, "sc": [float(x) for x in scores], "t": text}


def value_digests(v):
    s = _canon([v["s"], v["t"]])
    return {"res": _sha(s + "|" + _canon([repr(x) for x in v["sc"]])), "resS": _sha(s),
            "sc": [max(-2000000000, min(2000000000, int(round(x * 1e6)))) for x in v["sc"]]}


def _strip_minor_snap(x):
    y = {k: v for k, v in x.items() if k not in ("score", "major_score", "cn_score")}
    return y, [x["score"], x["major_score"], x["cn_score"]]


def split_output(text, mode):
    """Pieces of an output file, one per gene that wrote something: [(GENE, piece)]."""
    if not text:
        return []
    lines = text.splitlines(keepends=True)
    head = "##fileformat" if mode == "vcf" else "#Sample\t"
    starts = [i for i, ln in enumerate(lines) if ln.startswith(head)]
    if not starts or starts[0] != 0:
        return [("?", text)]
    out = []
    for a, b in zip(starts, starts[1:] + [len(lines)]):
        piece = lines[a:b]
        gene = "?"
        for ln in piece:
            if mode == "vcf":
                if ln.startswith("##INFO=<ID=ANN") and "Location within " in ln:
                    gene = ln.split("Location within ")[1].split('"')[0]
                    break
            elif not ln.startswith("#"):
                gene = ln.split("\t")[1]
                break
        out.append((gene, "".join(piece)))
    return out


# =========================================================================== the alphabet (names shared with History.tla)
GENE_ACCESSORS = ["get_functional", "is_functional", "get_rsid", "get_refseq", "get_allele", "region_at", "has_coverage",
                  "Gene.__getitem__", "deletion_allele", "get_wide_region", "Gene.__contains__", "get_minor_mutations",
                  "CNConfig.__str__"]
SOLUTION_ACCESSORS = ["SolvedAllele.mutations", "SolvedAllele.major_repr", "SolvedAllele.__str__", "CNSolution.position_cn",
                      "CNSolution.max_cn", "CNSolution.__str__", "MajorSolution.__str__", "MinorSolution.get_diplotype",
                      "MinorSolution.get_major_diplotype", "MinorSolution.get_minor_diplotype", "MinorSolution.get_major_name",
                      "MinorSolution.get_minor_name", "MinorSolution.get_mutation_coverages", "MinorSolution.__str__",
                      "estimate_diplotype"]
COVERAGE_ACCESSORS = ["Coverage.filtered", "Coverage.total", "Coverage.percentage", "Coverage.dump", "Coverage.single_copy",
                      "Coverage.average_coverage", "Coverage.__getitem__", "Coverage.region_coverage", "Coverage.basic_filter",
                      "Coverage.quality_filter"]
ACCESSORS = GENE_ACCESSORS + SOLUTION_ACCESSORS + COVERAGE_ACCESSORS


def mkop(k, a="", g=(), n=0):
    return {"k": k, "a": a, "g": list(g), "n": n}


def op_key(op):
    """Readable text of an operation record [k, a, g, n] (History.tla)."""
    k = op["k"]
    if k == "FreshProcess":
        return f"FreshProcess({op['n']})"
    gs = "".join(op["g"])
    return f"{k}({op['a']}{',' if op['a'] and gs else ''}{gs})"


class _NoSolutions(Exception):
    pass


# =========================================================================== the world in one process
class World:
    def __init__(self, spec, tid=0, hash_seed=None, start_index=0, epoch=0):
        aldyenv.setup()
        self.spec = spec
        self.tid = tid
        self.seed = int(os.environ.get("PYTHONHASHSEED", "0") or 0) if hash_seed is None else hash_seed
        self.rows = []       # events for HistoryTrace
        self.values = {}     # event index -> full value (diagnosis only)
        self.i = start_index
        self.epoch = epoch   # number of store perturbations so far in this history
        self.gene = {}       # live Gene objects
        self.cov = {}        # live Coverage objects (sample s1)
        self.live = {}       # g -> {"cn": [...], "major": [...], "minor": [...]}
        self.load_digest = {}
        self._inner = []
        self.rng_seed = spec["seed"]
        self.snap = D.Snapshotter()

    # ------------------------------------------------------------------ projections
    def snapshot(self):
        db = {g: self.snap.gene(x) for g, x in self.gene.items()}
        ev = {g: self.snap.coverage(x) for g, x in self.cov.items()}
        return db, ev

    def _emit(self, op, value, raised="", per=(), extra=None):
        db, ev = self.snapshot()
        dg = value_digests(value)
        row = {"tid": self.tid, "i": self.i, "op": {"k": op["k"], "a": op.get("a", ""), "g": list(op.get("g", [])), "n": op.get("n", 0)},
               "seed": self.seed, "ep": self.epoch, "res": dg["res"], "resS": dg["resS"], "sc": dg["sc"], "raised": raised,
               "db": dict({"_": ""}, **{g: x["all"] for g, x in db.items()}),
               "ev": dict({"_": ""}, **{g: x["all"] for g, x in ev.items()}),
               "per": [dict(g=g, err=bool(v["s"].get("error")) if isinstance(v["s"], dict) else False, **value_digests(v)) for g, v in per],
               "inner": [{k: x[k] for k in ("t", "g", "a", "b", "cmp")} for x in self._inner]}
        if extra:
            row.update(extra)
        self.values[self.i] = {"op": op, "key": op_key(op), "value": value, "per": {g: v for g, v in per}, "raised": raised,
                               "inner": list(self._inner),
                               "db_parts": {g: x["parts"] for g, x in db.items()}, "ev_parts": {g: x["parts"] for g, x in ev.items()}}
        self._inner = []
        self.rows.append(row)
        self.i += 1
        return row

    # ------------------------------------------------------------------ loads (not operations of the property's alphabet)
    def ensure_gene(self, g):
        if g in self.gene:
            return self.gene[g]
        from aldy.gene import Gene

        gs = self.spec["genes"][g]
        self.gene[g] = Gene(gs["yml"], genome=gs["genome"])
        self._emit(mkop("Load", "gene", [g]), mk_value("loaded"))
        return self.gene[g]

    def _syn_tables(self, g):
        """Synthetic evidence of a syn world: planted two-copy genotype with mild noise (deterministic in the spec seed)."""
        from . import evidence

        gene = self.gene[g]
        rng = random.Random(self.rng_seed * 7919 + (1 if g == "A" else 2))
        dele = gene.deletion_allele()
        cands = [a for a, al in gene.alleles.items() if al.cn_config == "1"]
        bag, struct = [], []
        for _ in range(2):
            a = rng.choice(cands)
            bag.append((a, rng.choice(sorted(gene.alleles[a].minors))))
            struct.append("1")
        # one copy also carries ONE core variant of an allele that is defined by several (that allele cannot be called,
        # so the variant is reported as novel and the refinement has to ADD it to a copy: this is where the tie-break
        # weights of minor.py:446-452 enter the score)
        own = set().union(*[evidence.allele_variants(gene, a, mi) for a, mi in bag])
        stray = sorted(m for a in cands if len(gene.alleles[a].func_muts) >= 2 for m in gene.alleles[a].func_muts
                       if m not in own and not m.op.startswith("ins") and all(m.pos != o.pos for o in own)
                       and not any(al.func_muts and al.func_muts <= (own | {m}) and m in al.func_muts for al in gene.alleles.values()))
        extra = [rng.choice(stray)] if stray and self.spec.get("stray", True) else []
        table = evidence.plant(gene, bag, depth=20, extra_variants=[set(extra), set()])
        table = evidence.perturb(rng, table, level=0.15)
        del dele
        return bag, struct, table

    def ensure_cov(self, g):
        if g in self.cov:
            return self.cov[g]
        gene = self.ensure_gene(g)
        if self.spec["kind"] in ("sim", "real"):
            from aldy.common import GRange
            from aldy.profile import Profile
            from aldy.sam import Sample

            prof = Profile.load(gene, self.spec["profile_bam"], GRange(*self.spec["cn_region"]) if self.spec.get("cn_region") else None)
            with aldyenv.quiet_stderr():
                sample = Sample(gene, prof, self.spec["samples"]["s1"]["bam"])
            self.cov[g] = sample.coverage
        else:
            from aldy.profile import Profile

            from . import evidence

            bag, struct, table = self._syn_tables(g)
            lrng = random.Random(self.rng_seed * 31 + len(table))
            low = {p: {op: (lrng.randint(1, 4), lrng.randint(0, 3)) for op in ops} for p, ops in sorted(table.items()) if lrng.random() < 0.5}
            # indel table (as a BAM sample has one): the planted catalogued indels with their support + ONE catalogued indel
            # seen in a single read (every threshold filter rejects it: a filter that edits the table in place shows)
            indels, weak = {}, None
            for (pos, op) in sorted(gene.mutations):
                if op.startswith("ins") or op.startswith("del"):
                    n = table.get(pos, {}).get(op, 0)
                    tot = sum(v for o, v in table.get(pos, {}).items() if not o.startswith("ins"))
                    if n:
                        indels[pos, op] = (tot if op.startswith("ins") else max(0, tot - n), n)
                    elif weak is None and tot:
                        weak = (pos, op)
            if weak:
                indels[weak] = (19, 1)
            cov = evidence.make_coverage(gene, Profile("verif"), table, low, indels=indels or None)   # + low-quality observations
            cov.sam = types.SimpleNamespace(name="SYN", _fusion_counter=None, phases={}, is_long_read=False)
            cov._region_coverage = {(gi, r): float(sum(gene.cn_configs[c].cn[gi][r] for c in struct))
                                    for gi, gr in enumerate(gene.regions) for r in gr}
            self.cov[g] = cov
            self.syn = getattr(self, "syn", {})
            self.syn[g] = {"bag": bag, "struct": struct}
        self._emit(mkop("Load", "sample", [g]), mk_value("loaded"))
        return self.cov[g]

    def ensure_chain(self, g, upto="minor"):
        """Live solution objects, created by the real stages (each creation is an operation of the history)."""
        lv = self.live.setdefault(g, {})
        for st in ("cn", "major", "minor"):
            if st not in lv:
                self.do(mkop("Stage", st, [g]), keep=True)
            if st == upto:
                break
        return lv

    # ------------------------------------------------------------------ dispatcher
    def do(self, op, keep=False):
        from aldy.common import AldyException

        k = op["k"]
        raised, per, extra = "", (), None
        try:
            with aldyenv.quiet_stderr():
                if k == "Genotype":
                    mode, smp = op["a"].split("/")
                    value, per, _ = self._genotype(list(op["g"]), mode, smp)
                    value = per[0][1] if per else value
                    per = ()
                elif k == "GenotypeMulti":
                    mode, smp = op["a"].split("/")
                    value, per, extra = self._genotype(list(op["g"]), mode, smp)
                elif k == "Stage":
                    value = self._stage(op["a"], op["g"][0], keep)
                elif k == "Accessor":
                    value = self._accessor(op["a"], op["g"])
                elif k == "Write":
                    value = self._write(op["a"], op["g"][0])
                elif k == "Query":
                    value = self._query(op["a"], op["g"][0])
                elif k == "Store":
                    value = self._store(op["a"])
                else:
                    raise ValueError(f"unknown operation {op}")
        except AldyException as ex:  # a reported error is a result
            value = mk_value({"error": str(ex), "etype": "AldyException"})
        except Exception as ex:  # anything else: reported by the trace as OpRaised
            raised = f"{type(ex).__name__}: {ex}"[:300]
            value = mk_value({"raised": raised})
        return self._emit(op, value, raised, per, extra)

    # ------------------------------------------------------------------ Genotype / GenotypeMulti
    @contextlib.contextmanager
    def _capture_loads(self, loads):
        """Project the Gene and the Sample/Coverage objects genotype() creates right after their construction."""
        import aldy.genotype
        import aldy.sam

        G0, S0 = aldy.genotype.Gene, aldy.sam.Sample

        class CapGene(G0):  # type: ignore
            def __init__(s, *a, **kw):
                super().__init__(*a, **kw)
                loads.append(["db", s, D.gene_digest(s)])

        class CapSample(S0):  # type: ignore
            def __init__(s, *a, **kw):
                super().__init__(*a, **kw)
                loads.append(["ev", s, D.coverage_digest(s.coverage)])

        aldy.genotype.Gene, aldy.sam.Sample = CapGene, CapSample
        try:
            yield
        finally:
            aldy.genotype.Gene, aldy.sam.Sample = G0, S0

    def _genotype(self, gs, mode, s):
        import logbook
        from aldy.common import GRange

        from . import pipeline

        sp = self.spec
        assert sp["kind"] in ("sim", "real"), "Genotype needs a sample file"
        paths = ",".join(sp["genes"][g].get("db", sp["genes"][g]["yml"]) for g in gs)
        kw = dict(genome=sp["genome"])
        kw.update(sp.get("params") or {})
        if sp.get("cn_region"):
            kw["cn_region"] = GRange(*sp["cn_region"])
        profile = sp["profile_bam"]
        if mode == "cn":
            kw["cn_solution"] = list(sp["user_cn"])
            profile = None
        if mode == "nreg":
            # the same sample with ANOTHER copy-number-neutral region (a run with other parameters in between two
            # identical runs): results of the default runs around it must not change
            kw["cn_region"] = GRange(*sp["alt_cn_region"])
        loads = []
        handler = logbook.TestHandler(level=logbook.ERROR)
        with handler.applicationbound(), self._capture_loads(loads):
            r = pipeline.run_genotype(paths, sp["samples"][s]["bam"], profile,
                                      out_name="out.vcf" if mode == "vcf" else "out.aldy", **kw)
        name2lab = {sp["genes"][g]["name"]: g for g in sp["genes"]}
        path2lab = {sp["genes"][g]["yml"]: g for g in sp["genes"]}
        # what genotype() did to the objects it loaded itself
        for kind, obj, before in loads:
            after = D.gene_digest(obj) if kind == "db" else D.coverage_digest(obj.coverage)
            lab = name2lab.get(obj.name if kind == "db" else obj.gene.name, "?")
            cmp0 = kind == "db" or (mode != "cn" and s == "s1")  # comparable with the harness' own load of the same input
            self._inner.append({"t": kind, "g": lab, "a": before["all"], "b": after["all"], "cmp": bool(cmp0),
                                "parts": D.diff_parts(before, after)})
        # per-gene results
        failed = {}
        msgs = [rec.message for rec in handler.records]
        for j, m in enumerate(msgs):
            if m.startswith("Failed gene "):
                nm = m[len("Failed gene "):].strip()
                failed[nm.lower()] = msgs[j + 1][len("Message: "):] if j + 1 < len(msgs) and msgs[j + 1].startswith("Message: ") else ""
        pieces = split_output(r["output"], mode)
        by_gene_text = {}
        for nm, piece in pieces:
            by_gene_text.setdefault(name2lab.get(nm, nm), []).append(piece)
        sols_by = {}
        if r["result_objs"] is not None:
            import aldy.genotype  # noqa

            for obj in r["result_objs"]:
                lab = name2lab.get(obj.major_solution.cn_solution.gene.name, "?")
                sols_by.setdefault(lab, []).append(pipeline.minor_snap(obj))
        per = []
        single = len(gs) == 1
        for g in gs:
            if single and r["error"]:
                per.append((g, mk_value({"error": r["error"], "etype": r["error_type"], "sols": None}, (), "".join(by_gene_text.get(g, [])))))
                continue
            fkey = next((k for k in failed if k == sp["genes"][g]["yml"].lower() or k == g.lower()), None)
            if fkey is not None and g not in sols_by:
                per.append((g, mk_value({"error": failed[fkey], "etype": "AldyException", "sols": None}, (), "".join(by_gene_text.get(g, [])))))
                continue
            snaps, scores = [], []
            for x in sols_by.get(g, []):
                y, sc = _strip_minor_snap(x)
                snaps.append(y)
                scores += sc
            per.append((g, mk_value({"error": "", "etype": "", "sols": snaps if g in sols_by else None}, scores,
                                    "".join(by_gene_text.get(g, [])))))
        # the whole-run value: order of pieces, nothing but the pieces, which genes reported
        order_ok = [lab for lab, _ in [(name2lab.get(nm, nm), p) for nm, p in pieces]]
        whole = mk_value({"genes": gs, "pieces": order_ok, "reported": sorted(sols_by), "failed": sorted(failed),
                          "concat_ok": "".join(p for _, p in pieces) == r["output"],
                          "result_keys": sorted(path2lab.get(k, k) for k in (r["result"] is not None and self._result_keys(r)) or [])},
                         (), r["output"] if len(r["output"]) < 200000 else _sha(r["output"]))
        multi = {"multi": {"pieces": order_ok, "reported": sorted(sols_by), "concat": "".join(p for _, p in pieces) == r["output"]}}
        return whole, per, multi

    @staticmethod
    def _result_keys(r):
        # run_genotype flattens the dict; recover the gene of each solution instead
        return sorted({o.major_solution.cn_solution.gene.name for o in (r["result_objs"] or [])})

    # ------------------------------------------------------------------ stages on the live objects
    def _stage(self, st, g, keep):
        from . import pipeline

        gene, cov = self.ensure_gene(g), self.ensure_cov(g)
        lv = self.live.setdefault(g, {})
        if st == "cn":
            import aldy.cn

            out = aldy.cn.estimate_cn(gene, cov.profile, cov, "any")
            out = sorted(out, key=lambda m: (int(1000 * m.score), m._solution_nice()))
            if keep or "cn" not in lv:
                lv["cn"] = out
            snaps = sorted((pipeline.cn_snap(s) for s in out), key=lambda x: x["struct"])
            return mk_value([{k: v for k, v in x.items() if k != "score"} for x in snaps], [x["score"] for x in snaps])
        if st == "major":
            import aldy.major

            if "cn" not in lv:
                self.ensure_chain(g, "cn")
            res = []
            for i, c in enumerate(lv["cn"]):
                res += aldy.major.estimate_major(gene, cov, c, "any", identifier=i)
            if keep or "major" not in lv:
                lv["major"] = res
            snaps = sorted((pipeline.major_snap(s) for s in res), key=lambda x: (x["alleles"], x["novel"], x["cn"]))
            return mk_value([{k: v for k, v in x.items() if k != "score"} for x in snaps], [x["score"] for x in snaps])
        if st == "minor":
            import aldy.minor

            if "major" not in lv:
                self.ensure_chain(g, "major")
            if not lv["major"]:
                if keep or "minor" not in lv:
                    lv["minor"] = []
                return mk_value({"no_major_solutions": True})
            res = aldy.minor.estimate_minor(gene, cov, lv["major"], "any", max_solutions=cov.profile.max_minor_solutions)
            if keep or "minor" not in lv:
                lv["minor"] = res
            snaps, scores = [], []
            for x in sorted((pipeline.minor_snap(s) for s in res), key=lambda x: _canon([x["major"], x["copies"]])):
                y, sc = _strip_minor_snap(x)
                snaps.append(y)
                scores += sc
            return mk_value(snaps, scores)
        raise ValueError(st)

    # ------------------------------------------------------------------ writers
    def _write(self, fmt, g):
        import aldy.diplotype

        lv = self.ensure_chain(g)
        gene, cov = self.gene[g], self.cov[g]
        f = io.StringIO()
        name = getattr(cov.sam, "name", "SYN") if cov.sam is not None else "SYN"
        if fmt == "decomposition":
            for i, sol in enumerate(lv["minor"]):
                aldy.diplotype.write_decomposition(name, gene, cov, i + 1, sol, f)
        else:
            if lv["minor"]:
                aldy.diplotype.write_vcf(name, gene, cov, lv["minor"], f)
        return mk_value({"n": len(lv["minor"])}, (), f.getvalue())

    # ------------------------------------------------------------------ query printing
    def _query(self, q, g):
        import logbook
        from aldy.query import query

        gene = self.ensure_gene(g)
        arg = ""
        if q == "all":
            arg = ""
        elif q == "cn":
            arg = sorted(gene.cn_configs)[-1]
        elif q == "major":
            arg = sorted(a for a in gene.alleles if a not in gene.cn_configs)[0] if any(a not in gene.cn_configs for a in gene.alleles) else sorted(gene.alleles)[0]
        elif q == "minor":
            arg = sorted(m for al in gene.alleles.values() for m in al.minors)[-1]
        h = logbook.TestHandler()
        with h.applicationbound():
            query(gene, arg)
        return mk_value({"query": arg}, (), "\n".join(rec.message for rec in h.records))

    # ------------------------------------------------------------------ the process-wide debug store
    def _store(self, what):
        import aldy.common

        st = aldy.common.json
        n = len(st)
        if what == "clear":
            st.clear()
        else:
            for g in self.spec["genes"].values():
                st[g["name"]] = aldy.common.JsonDict(
                    {"sample": "POISON", "cn": aldy.common.JsonDict({"sol": [{"1": 3}], "data": {}}),
                     "major": aldy.common.JsonDict({i: aldy.common.JsonDict({"sol": [{"POISON": 7}], "data": [], "cn": "{}"}) for i in range(40)}),
                     "minor": aldy.common.JsonDict({i: aldy.common.JsonDict({"sol": [("POISON", [], [])], "diplotype": [[9], [9]], "data": []}) for i in range(40)})})
        self.epoch += 1
        return mk_value({"store": what, "had_entries": n > 0})

    # ------------------------------------------------------------------ accessors (applied to the live objects of BOTH genes)
    def _accessor(self, a, gs):
        for g in gs:  # every load / stage the accessor needs happens (and is recorded) BEFORE the accessor runs
            self.ensure_gene(g)
            if a not in GENE_ACCESSORS:
                self.ensure_cov(g)
                self.ensure_chain(g)
        return mk_value({g: self._accessor_one(a, g) for g in gs})

    def _probe_sites(self, gene):
        from aldy.gene import Mutation

        cat = sorted(gene.mutations)
        rng = random.Random(len(cat) * 31 + len(gene.seq))
        extra = []
        reg = [(nm, r) for nm, r in gene.regions[0].items() if r.end > r.start]
        for nm, r in reg[:12]:
            for pos in {r.start, r.end - 1, (r.start + r.end) // 2}:
                ref = gene[pos]
                if ref in "ACGT":
                    alt = "ACGT"[("ACGT".index(ref) + 1 + rng.randrange(3)) % 4]
                    extra.append((pos, f"{ref}>{alt}"))
                extra.append((pos, "insA"))
                extra.append((pos, f"del{ref}"))
        w = gene.get_wide_region()
        outside = [(w.start - 5, "A>C"), (w.end + 5, "insT")]
        return [Mutation(*m) for m in cat[:80]], [Mutation(*m) for m in sorted(set(extra))[:60] + outside]

    def _accessor_one(self, a, g):
        import aldy.coverage
        from aldy.coverage import Coverage
        from aldy.gene import Mutation

        gene = self.ensure_gene(g)
        if a in GENE_ACCESSORS:
            cat, extra = self._probe_sites(gene)
            muts = cat + extra
            if a == "get_functional":
                return [[str(m), gene.get_functional(m), gene.get_functional(m, False)] for m in muts]
            if a == "is_functional":
                return [[str(m), gene.is_functional(m), gene.is_functional(m, False)] for m in muts]
            if a == "get_rsid":
                return [[str(m), gene.get_rsid(m), gene.get_rsid(m.pos, m.op), gene.get_rsid(m, default=False)] for m in muts]
            if a == "get_refseq":
                return [[str(m), gene.get_refseq(m), gene.get_refseq(m.pos, m.op, from_atg=True)] for m in muts]
            if a == "get_allele":
                names = sorted(m for al in gene.alleles.values() for m in al.minors) + sorted(gene.removed) + ["no-such-allele"]
                res = []
                for n in names[:120]:
                    r = gene.get_allele(n)
                    res.append([n, None if r is None else [r[0].name, r[1].name]])
                return res
            if a == "region_at":
                return [[m.pos, gene.region_at(m.pos)] for m in muts]
            if a == "has_coverage":
                return [[al, m.pos, gene.has_coverage(al, m.pos)] for al in sorted(gene.alleles)[:40] for m in (cat[:25] + extra[-4:])]
            if a == "Gene.__getitem__":
                s, e = gene._lookup_range
                return [gene[s - 3:s + 7], gene[e - 4:e + 4], gene[s - 20:s - 10], [gene[m.pos] for m in muts], gene[(s + e) // 2:(s + e) // 2 + 30]]
            if a == "deletion_allele":
                return gene.deletion_allele()
            if a == "get_wide_region":
                return list(gene.get_wide_region())
            if a == "Gene.__contains__":
                return [[m.pos, m.pos in gene] for m in muts] + [str(gene), repr(gene)]
            if a == "get_minor_mutations":
                return [[an, mn, sorted(str(x) for x in al.get_minor_mutations(mn))] for an, al in sorted(gene.alleles.items())[:60] for mn in sorted(al.minors)]
            if a == "CNConfig.__str__":
                return [[k, str(c), c.vector] for k, c in sorted(gene.cn_configs.items())] + [
                    str(mi) if len(mi.neutral_muts) < 2 else mi.name for al in list(gene.alleles.values())[:40] for mi in al.minors.values()]
        cov = self.ensure_cov(g)
        lv = self.ensure_chain(g)
        minors, majors, cns = lv["minor"], lv["major"], lv["cn"]
        sites = sorted(cov._coverage)[:: max(1, len(cov._coverage) // 60)]
        cat, extra = self._probe_sites(gene)
        muts = cat + extra[:20] + [Mutation(p, "_") for p in sites[:30]]
        if a == "SolvedAllele.mutations":
            from aldy.solutions import SolvedAllele

            objs = [sa for s in minors for sa in s.solution]
            objs += [SolvedAllele(gene, an, mn) for an, al in list(gene.alleles.items())[:30] for mn in list(al.minors)[:3]]
            return [[sa.major, sa.minor, sorted(str(m) for m in sa.mutations())] for sa in objs]
        if a == "SolvedAllele.major_repr":
            return [[sa.major_repr() for sa in s.solution] for s in minors] + [[sa.major_repr() for sa in s.solution] for s in majors]
        if a == "SolvedAllele.__str__":
            return [[str(sa) for sa in s.solution] for s in minors] + [[str(sa) for sa in s.solution] for s in majors]
        if a == "CNSolution.position_cn":
            return [[c.position_cn(m.pos) for m in muts] for c in cns]
        if a == "CNSolution.max_cn":
            return [c.max_cn() for c in cns]
        if a == "CNSolution.__str__":
            return [[str(c), c._solution_nice()] for c in cns]
        if a == "MajorSolution.__str__":
            return [[str(s), s._solution_nice()] for s in majors]
        if a == "MinorSolution.get_diplotype":
            return [[list(map(list, s.get_diplotype()))] for s in minors]
        if a == "MinorSolution.get_major_diplotype":
            return [s.get_major_diplotype() for s in minors]
        if a == "MinorSolution.get_minor_diplotype":
            return [[s.get_minor_diplotype(), s.get_minor_diplotype(legacy=True)] for s in minors]
        if a == "MinorSolution.get_major_name":
            return [[s.get_major_name(i) for i in list(range(len(s.solution))) + [-1]] for s in minors]
        if a == "MinorSolution.get_minor_name":
            return [[[s.get_minor_name(i), s.get_minor_name(i, legacy=True)] for i in list(range(len(s.solution))) + [-1]] for s in minors]
        if a == "MinorSolution.get_mutation_coverages":
            return [sorted([str(m), n, repr(c)] for m, n, c in s.get_mutation_coverages(cov)) for s in minors]
        if a == "MinorSolution.__str__":
            return [[str(s), s._solution_nice()] for s in minors]
        if a == "estimate_diplotype":
            from aldy.diplotype import estimate_diplotype

            return [[estimate_diplotype(gene, s), list(map(list, s.diplotype))] for s in minors]
        if a == "Coverage.filtered":
            res = []
            for name, fn in (("quality", Coverage.quality_filter), ("basic", lambda c, m: c.basic_filter(m)),
                             ("none", lambda c, m: False)):
                new = cov.filtered(fn)
                res.append([name, new is not cov, new._coverage is not cov._coverage, D.digest(new._coverage), D.digest(new._indels)])
            return res
        if a == "Coverage.total":
            return [[str(m), repr(cov.total(m)), repr(cov.total(m.pos))] for m in muts]
        if a == "Coverage.percentage":
            return [[str(m), repr(cov.percentage(m))] for m in muts]
        if a == "Coverage.dump":
            lines = []
            cov.dump(lines.append)
            cov.dump()
            return lines
        if a == "Coverage.single_copy":
            return [[repr(cov.single_copy(m, c)) for m in muts] + [repr(cov.single_copy(m.pos, c)) for m in muts[:10]] for c in cns]
        if a == "Coverage.average_coverage":
            return repr(cov.average_coverage())
        if a == "Coverage.__getitem__":
            return [[str(m), cov[m], cov.coverage(m)] for m in muts]
        if a == "Coverage.region_coverage":
            res = [[gi, r, repr(cov.region_coverage(gi, r))] for gi, gr in enumerate(gene.regions) for r in gr if (gi, r) in cov._region_coverage]
            if cov.profile.cn_region:
                res.append(repr(cov.diploid_avg_coverage()))
            return res
        if a == "Coverage.basic_filter":
            return [[str(m), bool(cov.basic_filter(m)), bool(cov.basic_filter(m, cn=2.5)), bool(cov.basic_filter(m, thres=0.1))] for m in muts]
        if a == "Coverage.quality_filter":
            return [[str(m), len(cov.quality_filter(m))] for m in muts]
        del aldy
        raise ValueError(f"unknown accessor {a}")

    # ------------------------------------------------------------------ end of a process segment
    def reload_check(self, with_cov=False):
        """The catalogue (and the evidence) after the history against a FRESH load in the same process."""
        from aldy.gene import Gene

        fresh = {"_": ""}
        for g in self.gene:
            gs = self.spec["genes"][g]
            fresh[g] = D.gene_digest(Gene(gs["yml"], genome=gs["genome"]))["all"]
        fev = {"_": ""}
        if with_cov:
            live = dict(self.cov)
            for g in live:
                del self.cov[g]
                rows, i = list(self.rows), self.i
                self.ensure_cov(g)               # builds a new one (its Load row is dropped again)
                fev[g] = D.coverage_digest(self.cov[g])["all"]
                self.rows, self.i = rows, i
                self.cov[g] = live[g]
        db, ev = self.snapshot()
        row = {"tid": self.tid, "i": self.i, "op": mkop("Reload"), "seed": self.seed, "ep": self.epoch, "res": "", "resS": "", "sc": [],
               "raised": "", "db": dict({"_": ""}, **{g: x["all"] for g, x in db.items()}),
               "ev": dict({"_": ""}, **{g: x["all"] for g, x in ev.items()}), "per": [], "inner": [], "fresh_db": fresh, "fresh_ev": fev}
        self.values[self.i] = {"op": mkop("Reload"), "key": "Reload", "value": None, "db_parts": {g: x["parts"] for g, x in db.items()},
                               "ev_parts": {g: x["parts"] for g, x in ev.items()}}
        self.rows.append(row)
        self.i += 1


def run_segment(spec, ops, tid, start_index=0, epoch=0, reload_cov=False, hash_seed=None):
    """Execute ops (operation records WITHOUT FreshProcess) in this process; returns (rows, values, epoch)."""
    w = World(spec, tid, hash_seed, start_index, epoch)
    for op in ops:
        w.do(op)
    w.reload_check(reload_cov)
    return w.rows, w.values, w.epoch


def _in_fork(fn, *args):
    """Run fn(*args) in a forked child of this process (pristine interpreter state of the parent) and return its
    picklable result; an exception in the child is re-raised here."""
    import pickle

    r, wfd = os.pipe()
    pid = os.fork()
    if pid == 0:
        code = 0
        try:
            os.close(r)
            try:
                out = (True, fn(*args))
            except BaseException as ex:  # noqa
                import traceback

                out = (False, f"{type(ex).__name__}: {ex}\n{traceback.format_exc()}")
            with os.fdopen(wfd, "wb") as f:
                pickle.dump(out, f, protocol=4)
        except BaseException:
            code = 1
        finally:
            os._exit(code)
    os.close(wfd)
    with os.fdopen(r, "rb") as f:
        data = f.read()
    os.waitpid(pid, 0)
    if not data:
        raise RuntimeError("history child died without a result")
    ok, out = pickle.loads(data)
    if not ok:
        raise RuntimeError("history child failed: " + out)
    return out


def _in_new_interpreter(job, hash_seed):
    """FreshProcess(seed): the segment runs in a NEW interpreter with PYTHONHASHSEED = seed."""
    import subprocess
    import tempfile

    from . import tlc

    d = tempfile.mkdtemp(prefix="c14job_", dir=tlc.scratch())
    jp, op_ = os.path.join(d, "job.json"), os.path.join(d, "out.json")
    with open(jp, "w") as f:
        json.dump(job, f)
    env = dict(os.environ, PYTHONHASHSEED=str(hash_seed), ALDY_SRC=aldyenv.ALDY_SRC)
    p = subprocess.run([sys.executable, "-W", "ignore", "-m", "harness.c14_world", jp, op_], cwd=tlc.VERIF, env=env,
                       stdout=subprocess.PIPE, stderr=subprocess.PIPE, text=True, timeout=1800)
    if p.returncode != 0 or not os.path.exists(op_):
        raise RuntimeError(f"FreshProcess worker failed (rc={p.returncode}): {p.stderr[-1500:]}")
    with open(op_) as f:
        out = json.load(f)
    for fn in (jp, op_):
        os.unlink(fn)
    os.rmdir(d)
    return out["rows"], {int(k): v for k, v in out["values"].items()}, out["epoch"]


def run_history(spec, ops, tid, reload_cov=False, with_values=False, first_in_fork=True):
    """One history = operation records incl. FreshProcess.  Segment 0 runs in a forked child of the caller (hash seed of
    the harness, normally 0), every FreshProcess(seed) starts a new interpreter.  Returns (rows, values)."""
    segs, cur, seeds = [], [], [None]
    for op in ops:
        if op["k"] == "FreshProcess":
            segs.append(cur)
            cur = []
            seeds.append(op["n"])
        else:
            cur.append(op)
    segs.append(cur)
    rows, values, idx, epoch = [], {}, 0, 0
    base_seed = int(os.environ.get("PYTHONHASHSEED", "0") or 0)
    for si, (seg, sd) in enumerate(zip(segs, seeds)):
        if si > 0:
            fp = mkop("FreshProcess", "", [], sd)
            rows.append({"tid": tid, "i": idx, "op": fp, "seed": sd, "ep": epoch, "res": "", "resS": "", "sc": [], "raised": "",
                         "db": {"_": ""}, "ev": {"_": ""}, "per": [], "inner": []})
            values[idx] = {"op": fp, "key": op_key(fp), "value": None}
            idx += 1
            r, v, epoch = _in_new_interpreter({"what": "segment", "spec": spec, "ops": seg, "tid": tid, "start_index": idx,
                                               "epoch": epoch, "reload_cov": reload_cov}, sd)
        elif first_in_fork:
            r, v, epoch = _in_fork(run_segment, spec, seg, tid, idx, epoch, reload_cov, base_seed)
        else:
            r, v, epoch = run_segment(spec, seg, tid, idx, epoch, reload_cov, base_seed)
        rows += r
        if with_values:
            values.update(v)
        idx += len(r)
    for r in rows:
        r.setdefault("w", tid)   # memo group of HistoryTrace (the caller groups the histories of one world)
    return rows, values


# =========================================================================== RefinementIndependent families
def refine_family(fam):
    """All orderings of all non-empty sub-lists of a pool of candidate major solutions handed to the real
    estimate_minor; the refinement returned for each candidate.  fam: {"gene": name|path, "genome", "table",
    "params", "pool": [[struct, majors, score]], "fid"}.  Returns rows for HistoryTrace (k = "Refine")."""
    import itertools

    aldyenv.setup()
    from aldy.minor import estimate_minor
    from aldy.profile import Profile

    from . import evidence, genes
    from .checks import c04

    gene = genes.load(fam["gene"], fam["genome"])
    table = {int(p): v for p, v in fam["table"].items()}
    rows, meta = [], {}
    pool = fam["pool"]
    db0 = D.gene_digest(gene)

    def universe(idx):
        u = set()
        for j in idx:
            for a in pool[j][1]:
                u |= set(gene.alleles[a].func_muts)
                for mi in gene.alleles[a].minors.values():
                    u |= set(mi.neutral_muts)
        return _sha(_canon(sorted(str(m) for m in u)))

    n = 0
    lists = []
    for k in range(1, len(pool) + 1):
        for sub in itertools.permutations(range(len(pool)), k):
            lists.append(sub)
    lists.sort(key=lambda L: (len(L), L))
    for L in lists:
        cov = evidence.make_coverage(gene, Profile("verif", **fam.get("params", {})), table)
        ev0 = D.coverage_digest(cov)
        sols = []
        for j in L:
            ms = c04.make_major_sol(gene, pool[j][0], pool[j][1])
            ms.score = pool[j][2]
            sols.append(ms)
        raised = ""
        try:
            with aldyenv.quiet_stderr():
                res = estimate_minor(gene, cov, sols, "any")
        except Exception as ex:
            res, raised = [], f"{type(ex).__name__}: {ex}"[:200]
        mins = min(pool[j][2] for j in L)
        dbx, evx = D.gene_digest(gene), D.coverage_digest(cov)
        cur = None
        for pos, j in enumerate(L):
            mine = [r for r in res if r.major_solution is sols[pos]]
            carried = pool[j][2] - mins
            # a refinement = the multiset of refined copies (the position of a copy in the list is not part of it)
            copies = sorted(sorted([sa.major, sa.minor, sorted(str(m) for m in sa.added), sorted(str(m) for m in sa.missing)] for sa in r.solution)
                            for r in mine)
            v = mk_value({"cand": j, "refinement": copies}, [round(r.score - carried, 9) + 0.0 for r in mine])
            dg = value_digests(v)
            rid = n
            n += 1
            part = dict(g=f"c{j}", err=False, **dg)
            if cur is None:
                cur = {"tid": fam["fid"], "i": rid, "op": mkop("Refine", "", [f"c{x}" for x in L]), "seed": 0, "ep": 0, "res": "", "resS": "",
                       "sc": [], "raised": raised, "db": {"_": "", "A": dbx["all"]}, "ev": {"_": "", "A": evx["all"]}, "per": [],
                       "inner": [{"t": "db", "g": "A", "a": db0["all"], "b": dbx["all"], "cmp": False},
                                 {"t": "ev", "g": "A", "a": ev0["all"], "b": evx["all"], "cmp": False}]}
                meta[rid] = {"L": list(L), "univ": universe(L), "laststruct": ",".join(sorted(pool[L[-1]][0])),
                             "db_parts": D.diff_parts(db0, dbx), "ev_parts": D.diff_parts(ev0, evx), "parts": []}
                rows.append(cur)
            cur["per"].append(part)
            meta[cur["i"]]["parts"].append({"cand": j, "value": v})
    return rows, meta


# =========================================================================== worker entry (FreshProcess segments)
def main(argv):
    job = json.load(open(argv[0]))
    if job.get("what") == "segment":
        rows, values, epoch = run_segment(job["spec"], job["ops"], job["tid"], job.get("start_index", 0), job.get("epoch", 0),
                                          job.get("reload_cov", False))
        out = {"rows": rows, "values": {str(k): v for k, v in values.items()}, "epoch": epoch}
    else:
        raise SystemExit(f"unknown job {job.get('what')}")
    with open(argv[1], "w") as f:
        json.dump(out, f, default=str)
    return 0


if __name__ == "__main__":
    sys.exit(main(sys.argv[1:]))
