"""Purely structural projections of aldy objects into the abstract vocabulary of the specs
(DESIGN §1.1): sort, index, rename, scale.  No semantics is computed here: filters,
candidates, scores are all recomputed by the TLA+ side from raw counts."""
import fractions

from natsort import natsorted

U = 10000  # fixed-point unit of spec/Core.tla


def frac(x, limit=1000):
    f = fractions.Fraction(x).limit_denominator(limit)
    return f.numerator, f.denominator


def fix(x):
    return int(round(x * U))


def params(profile):
    tn, td = frac(profile.threshold)
    gn, gd = frac(profile.gap, 100)
    return {
        "thrN": tn, "thrD": td,
        "minCov10": int(round(profile.min_coverage * 10)),
        "cnMax": int(profile.cn_max),
        "novelPen": fix(profile.major_novel),
        "gapN": gn, "gapD": gd,
        "missPen": fix(profile.minor_miss), "addPen": fix(profile.minor_add),
        "phasePen": fix(profile.minor_phase),
    }


def _is_good(q, profile):
    m, b = q
    return b >= profile.min_quality and m >= profile.min_mapq


def site_records(gene, coverage, positions, var_index):
    """Filter.tla site records for `positions` from the raw Coverage object."""
    profile = coverage.profile
    recs = []
    for pos in positions:
        ops = []
        raw = coverage._coverage.get(pos, {})
        names = sorted(raw)
        tab = {}
        if coverage._indels:
            for (p, o), (n, y) in coverage._indels.items():
                if p == pos:
                    tab[o] = [int(n), int(y)]
        for o in sorted(set(names) | set(tab)):
            quals = raw.get(o, [])
            good = sum(1 for q in quals if _is_good(q, profile))
            ops.append({
                "op": o, "good": good, "low": len(quals) - good, "ins": o.startswith("ins"),
                "var": var_index.get((pos, o), 0), "tab": tab.get(o, []), "elig": True,
            })
        recs.append({"pos": pos, "ops": ops})
    return recs


def major_case(cid, gene, coverage, cn_solution, result, origin=None):
    """Case record of spec/MajorModel.tla for one estimate_major call.
    `coverage` is the RAW coverage handed to estimate_major; `result` its return value."""
    func = sorted((pos, op) for (pos, op), v in gene.mutations.items() if v[0] is not None)
    # prune: only sites where some catalogued core variant has any raw evidence at all
    def has_evidence(pos, op):
        if coverage._coverage.get(pos, {}).get(op):
            return True
        return bool(coverage._indels and (pos, op) in coverage._indels)

    live_sites = sorted({pos for pos, op in func if has_evidence(pos, op)})
    site_idx = {p: i + 1 for i, p in enumerate(live_sites)}
    live_vars = [(pos, op) for pos, op in func if pos in site_idx]
    var_idx = {v: i + 1 for i, v in enumerate(live_vars)}
    origin = origin if origin is not None else (live_sites[0] if live_sites else 0)
    sites = site_records(gene, coverage, live_sites, var_idx)
    for s in sites:
        s["pos"] -= origin
    struct_names = natsorted(cn_solution.solution)
    cfg_names = list(struct_names)
    cfg_idx = {n: i + 1 for i, n in enumerate(cfg_names)}
    cfgs = []
    for n in cfg_names:
        cn = []
        for pos in live_sites:
            r = gene.region_at(pos)
            cn.append(int(gene.cn_configs[n].cn[r[0]][r[1]]) if r else 0)
        cfgs.append({"name": n, "cn": cn})
    struct = [{"cfg": cfg_idx[n], "n": int(cn_solution.solution[n])} for n in struct_names]
    al_names = [a for a in gene.alleles if gene.alleles[a].cn_config in cfg_idx]
    al_names = sorted(al_names, key=lambda a: (cfg_idx[gene.alleles[a].cn_config], natsorted([a])[0], a))
    al_names = sorted(al_names, key=lambda a: cfg_idx[gene.alleles[a].cn_config])
    al_idx = {a: i + 1 for i, a in enumerate(al_names)}
    alleles = []
    for a in al_names:
        core = sorted(var_idx.get((m.pos, m.op), 0) for m in gene.alleles[a].func_muts)
        alleles.append({"name": a, "cfg": cfg_idx[gene.alleles[a].cn_config], "core": core})
    res = []
    for s in result:
        names = [sa.major for sa, n in s.solution.items() for _ in range(n)]
        res.append({
            "score": fix(s.score),
            "alleles": sorted(al_idx[n] for n in names),
            "novel": sorted(var_idx.get((m.pos, m.op), 0) for m in s.added),
        })
    return {
        "id": cid, "p": params(coverage.profile), "sites": sites,
        "vars": [{"si": site_idx[pos], "ins": op.startswith("ins"), "pos": pos - origin, "op": op} for pos, op in live_vars],
        "cfgs": cfgs, "struct": struct, "alleles": alleles, "result": res,
    }


# --------------------------------------------------------------------------- CN
KIND = {"DEFAULT": "default", "LEFT_FUSION": "left", "RIGHT_FUSION": "right", "DELETION": "deletion", "CUSTOM": "custom"}


def cn_case(cid, gene, profile, configs, max_cn, region_cov, fusion_support, result, raised="", fs_raw=None):
    """Case record of spec/CNModel.tla for one solve_cn_model call.
    fs_raw: {name: (a, b)} integer counters the float fusion_support values were made from."""
    regions = [r for r in gene.unique_regions if r in region_cov]
    nU = len(gene.unique_regions)
    names = natsorted(configs)
    idx = {n: i + 1 for i, n in enumerate(names)}
    has_pseudo = len(gene.regions) > 1
    cfgs = []
    for n in names:
        c = configs[n]
        a, b = (fs_raw or {}).get(n, (0, -1))
        cfgs.append({
            "name": n, "kind": KIND[c.kind.name],
            "g": [int(c.cn[0][r]) for r in regions],
            "ps": [int(c.cn[1][r]) if has_pseudo else 0 for r in regions],
            "fsA": int(a), "fsB": int(b),
        })
    regs = []
    for r in regions:
        c0, c1 = region_cov[r]
        regs.append({"name": r, "c0": int(round(c0 * 100)), "c1": int(round(c1 * 100)),
                     "w10": int(round(profile.cn_pce_penalty * 10)) if r == "pce" else 10})
    gn, gd = frac(profile.gap, 100)
    p = {
        "diff10": int(round(profile.cn_diff * 10)), "fit10": int(round(profile.cn_fit * 10)),
        "pars": int(round(profile.cn_parsimony * 7.5 * U)),
        "parsL": int(round(profile.cn_parsimony * 7.5 * profile.cn_fusion_left * U)),
        "parsR": int(round(profile.cn_parsimony * 7.5 * profile.cn_fusion_right * U)),
        "cnMax100": int(profile.cn_max) * 100, "gapN": gn, "gapD": gd,
    }
    res = []
    for s in result:
        res.append({"score": int(round(s.score * nU * 100 * U)),
                    "cfgs": sorted(idx[n] for n, k in s.solution.items() for _ in range(k))})
    return {"id": cid, "p": p, "M": int(max_cn), "regs": regs, "cfgs": cfgs, "pseudo": has_pseudo,
            "fs": bool(fusion_support), "result": res, "raised": raised, "nU": nU}


# --------------------------------------------------------------------------- minor
def minor_case(cid, gene, coverage, major_sol, result, enumerate_all=True, planted=None, raised=""):
    """Case record of spec/MinorModel.tla for one estimate_minor call with ONE major solution."""
    called = natsorted({sa.major for sa in major_sol.solution})
    M = set()
    for a in called:
        M |= {(m.pos, m.op) for m in gene.alleles[a].func_muts}
        for mi in gene.alleles[a].minors.values():
            M |= {(m.pos, m.op) for m in mi.neutral_muts}
    M |= {(m.pos, m.op) for m in major_sol.added}
    M |= {(m.pos, m.op) for m in gene.random_mutations}
    vars_ = sorted(M)
    var_idx = {v: i + 1 for i, v in enumerate(vars_)}
    positions = sorted({p for p, _ in vars_})
    site_idx = {p: i + 1 for i, p in enumerate(positions)}
    origin = positions[0] if positions else 0
    sites = site_records(gene, coverage, positions, var_idx)
    for s, pos in zip(sites, positions):
        r = gene.region_at(pos)
        s["keepall"] = bool(r and (r[1][0] == "e" or r[1] in ("utr3", "utr5", "up")))
        s["pos"] -= origin
    cn_solution = major_sol.cn_solution
    struct_names = natsorted(cn_solution.solution)
    cfg_names = list(struct_names)
    for a in called:
        if gene.alleles[a].cn_config not in cfg_names:
            cfg_names.append(gene.alleles[a].cn_config)
    cfg_idx = {n: i + 1 for i, n in enumerate(cfg_names)}
    cfgs = []
    for n in cfg_names:
        cn = []
        for pos in positions:
            r = gene.region_at(pos)
            cn.append(int(gene.cn_configs[n].cn[r[0]][r[1]]) if r else 0)
        cfgs.append({"name": n, "cn": cn})
    struct = [{"cfg": cfg_idx[n], "n": int(cn_solution.solution[n])} for n in struct_names]
    maj_idx = {a: i + 1 for i, a in enumerate(called)}
    majors = [{"name": a, "cfg": cfg_idx[gene.alleles[a].cn_config],
               "core": sorted(var_idx[(m.pos, m.op)] for m in gene.alleles[a].func_muts)} for a in called]
    minors, min_idx = [], {}
    for a in called:
        for mn in natsorted(gene.alleles[a].minors):
            min_idx[a, mn] = len(minors) + 1
            minors.append({"name": mn, "major": maj_idx[a],
                           "silent": sorted(var_idx[(m.pos, m.op)] for m in gene.alleles[a].minors[mn].neutral_muts)})
    call = sorted(maj_idx[sa.major] for sa, n in major_sol.solution.items() for _ in range(n))
    res = []
    for s in result:
        copies = []
        for sa in s.solution:
            copies.append({"minor": min_idx.get((sa.major, sa.minor), 0),
                           "added": sorted(var_idx.get((m.pos, m.op), 0) for m in sa.added),
                           "missing": sorted(var_idx.get((m.pos, m.op), 0) for m in sa.missing)})
        res.append({"score": fix(s.score), "copies": copies})
    # read-phase evidence: identical fragment patterns over the considered sites (>= 2 sites), as the stage groups them
    phases = []
    sam = getattr(coverage, "sam", None)
    if coverage.profile.phase and sam is not None and getattr(sam, "phases", None):
        import collections as _c

        modes = _c.Counter()
        for rv in sam.phases.values():
            c_ = tuple(sorted((k, v) for k, v in rv.items() if k in site_idx))
            if len(c_) > 1:
                modes[c_] += 1
        for c_, n in sorted(modes.items()):
            phases.append({"cnt": n, "at": [{"si": site_idx[k], "var": var_idx.get((k, v), 0)} for k, v in c_]})
    return {
        "id": cid, "p": params(coverage.profile), "sites": sites, "phases": phases,
        # number of allele-copy variables of the model and the budget of phase variables: beyond it the stage
        # down-samples the fragment patterns (a heuristic the property does not describe)
        "nalleles": sum(max(1, sum(n for sa, n in major_sol.solution.items() if sa.major == a)) * len(gene.alleles[a].minors) for a in called),
        "phaseVars": int(coverage.profile.minor_phase_vars),
        "vars": [{"si": site_idx[p], "ins": op.startswith("ins"), "core": gene.mutations.get((p, op), (None,))[0] is not None,
                  "pos": p - origin, "op": op} for p, op in vars_],
        "cfgs": cfgs, "struct": struct, "majors": majors, "minors": minors, "call": call,
        "result": res, "raised": raised, "enumerate": bool(enumerate_all),
        "planted": [sorted(var_idx[(m.pos, m.op)] for m in cp if (m.pos, m.op) in var_idx) for cp in (planted or [])],
    }
