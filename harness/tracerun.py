"""Parallel trace-batch validation for row-independent trace specs (Verdict(ev) style).

Rows carry an "id" (any JSON value); on the wire it is replaced by a small integer because TLC
wraps long printed tuples over several lines (tlc.parse_prints would then miss the rejection).
The trace spec prints <<"V", id, clause>> per rejected row and <<"V", "DONE", n>> at the end.
"""
import os
from concurrent.futures import ThreadPoolExecutor

from . import tlc
from .core import MachineryError


def run_rows(ctx, module, cfg, rows, label, chunks=8, per_chunk=400, heap="3g", timeout=3000):
    """Returns {row id: clause} for the rejected rows ("U:..." clauses included)."""
    if not rows:
        return {}
    n = max(1, min(chunks, len(rows) // per_chunk + 1))
    names = [r["id"] for r in rows]
    wire = [dict(r, id=i) for i, r in enumerate(rows)]
    parts = [wire[i::n] for i in range(n)]
    d = tlc.scratch()
    res = {}
    tag = os.path.basename(module)

    def one(i):
        path = os.path.join(d, f"{tag}_{label}_{i}_{os.getpid()}.ndjson")
        tlc.write_ndjson(path, parts[i])
        try:
            return i, tlc.run(module, cfg, workers=1, env={"TRACE_FILE": path}, timeout=timeout, heap=heap)
        finally:
            os.unlink(path)

    with ThreadPoolExecutor(n) as ex:
        for i, r in ex.map(one, range(n)):
            ctx.states += r.distinct
            ctx.transitions += r.generated
            ctx.mc_runs.append(dict(r.summary(), module=f"{tag}({label}/{i})", rows=len(parts[i])))
            if not r.ok:
                raise MachineryError(f"{tag} did not complete: {r.violated}\n{r.error_text[:2000]}")
            done = [p for p in r.prints if len(p) >= 3 and p[1] == "DONE"]
            if not done or done[-1][2] != len(parts[i]):
                raise MachineryError(f"{tag}({label}/{i}) consumed {done[-1][2] if done else '?'} of {len(parts[i])} rows")
            for p in r.prints:
                if p[1] != "DONE":
                    res[names[p[1]]] = p[2]
    return res
