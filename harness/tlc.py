"""TLC runner: exhaustive model checking, simulation and trace-batch validation.

All TLC invocations of the framework go through `run()`.  The spec directory
(/verif/spec) is put on the TLA-Library path so wrappers in spec/mc, spec/trace and
spec/gen can EXTEND/INSTANCE the modules in spec/.
"""
import os
import re
import shutil
import subprocess
import tempfile
import time
import json

VERIF = os.path.dirname(os.path.dirname(os.path.abspath(__file__)))
SPEC = os.path.join(VERIF, "spec")
JAR = "/opt/veriftools/tla/tla2tools.jar"
DEPS = "/opt/veriftools/tla/CommunityModules-deps.jar"


class TlcError(Exception):
    """Machinery failure (TLC crashed, timed out, unparsable output): exit 2."""


class TlcResult:
    def __init__(self):
        self.ok = False  # finished without error
        self.generated = 0  # states generated (transitions explored)
        self.distinct = 0  # distinct states
        self.depth = 0
        self.violated = None  # name of violated invariant / property, or "deadlock"...
        self.error_text = ""
        self.out = ""
        self.wall = 0.0
        self.prints = []  # values printed with PrintT that start with <<"V", ...>>
        self.coverage = {}  # action -> (distinct, total)
        self.cmd = ""

    def summary(self):
        return {
            "ok": self.ok,
            "generated": self.generated,
            "distinct": self.distinct,
            "depth": self.depth,
            "violated": self.violated,
            "wall_s": round(self.wall, 2),
        }


_scratch_root = None


def scratch():
    """Process-wide scratch directory, removed at exit."""
    global _scratch_root
    if _scratch_root is None:
        _scratch_root = tempfile.mkdtemp(prefix="aldyverif_")
        import atexit

        atexit.register(lambda: shutil.rmtree(_scratch_root, ignore_errors=True))
    return _scratch_root


def run(
    module,
    cfg=None,
    workers=16,
    timeout=1800,
    env=None,
    simulate=None,
    depth=None,
    coverage=False,
    deadlock=False,
    extra=(),
    heap="8g",
    dfs=False,
    seed=None,
):
    """Run TLC on spec file `module` (path relative to /verif/spec or absolute).

    cfg: config path (default: same name .cfg). simulate: e.g. "num=1000".
    Returns TlcResult; raises TlcError on machinery failure.
    """
    mod = module if os.path.isabs(module) else os.path.join(SPEC, module)
    if not mod.endswith(".tla"):
        mod += ".tla"
    if cfg is None:
        cfg = mod[:-4] + ".cfg"
    elif not os.path.isabs(cfg):
        cfg = os.path.join(SPEC, cfg)
    meta = tempfile.mkdtemp(prefix="tlc_", dir=scratch())
    libs = os.pathsep.join(
        [SPEC, os.path.join(SPEC, "mc"), os.path.join(SPEC, "trace"), os.path.join(SPEC, "gen")]
    )
    cmd = [
        "java",
        "-XX:+UseParallelGC",
        f"-Xmx{heap}",
        f"-DTLA-Library={libs}",
    ]
    if dfs:
        cmd.append("-Dtlc2.tool.queue.IStateQueue=StateDeque")
    cmd += [
        "-cp",
        f"{JAR}:{DEPS}",
        "tlc2.TLC",
        "-workers",
        str(workers),
        "-metadir",
        meta,
        "-noGenerateSpecTE",
        "-config",
        cfg,
    ]
    if not deadlock:
        cmd.append("-deadlock")  # -deadlock DISABLES deadlock checking
    if coverage:
        cmd += ["-coverage", "1"]
    if simulate:
        cmd += ["-simulate", simulate]
    if depth:
        cmd += ["-depth", str(depth)]
    if seed is not None:
        cmd += ["-seed", str(seed)]
    cmd += list(extra)
    cmd.append(mod)
    e = dict(os.environ)
    if env:
        e.update({k: str(v) for k, v in env.items()})
    res = TlcResult()
    res.cmd = " ".join(cmd)
    t0 = time.time()
    try:
        p = subprocess.run(
            cmd,
            cwd=os.path.dirname(mod),
            env=e,
            stdout=subprocess.PIPE,
            stderr=subprocess.STDOUT,
            timeout=timeout,
            text=True,
            errors="replace",
        )
    except subprocess.TimeoutExpired as ex:
        shutil.rmtree(meta, ignore_errors=True)
        raise TlcError(f"TLC timed out after {timeout}s: {res.cmd}") from ex
    finally:
        res.wall = time.time() - t0
    shutil.rmtree(meta, ignore_errors=True)
    out = p.stdout
    res.out = out
    m = None
    for m in re.finditer(
        r"(\d+) states generated, (\d+) distinct states found, (\d+) states left on queue", out
    ):
        pass
    if m:
        res.generated, res.distinct = int(m.group(1)), int(m.group(2))
    m = re.search(r"The depth of the complete state graph search is (\d+)", out)
    if m:
        res.depth = int(m.group(1))
    if simulate:
        m = None
        for m in re.finditer(r"(\d+) states checked", out):
            pass
        if m:
            res.generated = res.distinct = int(m.group(1))
        # Simulation mode prints: "The number of states generated: N"
        m = re.search(r"The number of states generated: (\d+)", out)
        if m:
            res.generated = res.distinct = int(m.group(1))
    m = re.search(r"Error: Invariant (\S+) is violated", out)
    if m:
        res.violated = m.group(1)
    elif re.search(r"Error: Action property (\S+) is violated", out):
        res.violated = re.search(r"Error: Action property (\S+) is violated", out).group(1)
    elif "Error: Temporal properties were violated" in out:
        res.violated = "temporal"
    elif "Error: Deadlock reached" in out:
        res.violated = "deadlock"
    elif re.search(r"Error: The postcondition (\S*) ?is violated|Postcondition.*violated", out):
        res.violated = "postcondition"
    elif "Error: Assumption" in out:
        res.violated = "assumption"
    res.prints = parse_prints(out)
    if coverage:
        for m in re.finditer(r"<(\w+) line (\d+), col \d+ to line \d+, col \d+ of module (\w+)>: (\d+):(\d+)", out):
            res.coverage[f"{m.group(3)}!{m.group(1)}"] = (int(m.group(4)), int(m.group(5)))
    finished = "Model checking completed. No error has been found" in out or (
        simulate and res.violated is None and p.returncode == 0
    )
    res.ok = bool(finished) and res.violated is None
    if not res.ok and res.violated is None:
        # Not a property verdict: parse error, semantic error, crash...
        tail = extract_error(out)[:2500] + "\n...\n" + "\n".join(out.splitlines()[-12:])
        res.error_text = tail
        raise TlcError(f"TLC failed (rc={p.returncode}) on {mod}:\n{tail}")
    if res.violated:
        res.error_text = extract_error(out)
    return res


def extract_error(out):
    i = out.find("Error:")
    return out[i : i + 6000] if i >= 0 else ""


def parse_prints(out):
    """Return the list of TLA+ tuples printed with PrintT whose first element is "V".

    Each is converted into a Python list by a small TLA+ value parser (strings, ints,
    tuples, sets as lists, records as dicts).  Output of several workers may interleave,
    so parsing is by bracket matching on the whole text.
    """
    vals = []
    for m in re.finditer(r'<<\s*"V",\s', out):  # long values are wrapped by TLC as `<< "V",`
        try:
            v, _ = _parse_value(out, m.start())
            vals.append(v)
        except Exception:
            continue
    return vals


def _skip(s, i):
    while i < len(s) and s[i] in " \n\t\r":
        i += 1
    return i


def _parse_value(s, i):
    i = _skip(s, i)
    if s.startswith("<<", i):
        i += 2
        items = []
        i = _skip(s, i)
        if s.startswith(">>", i):
            return items, i + 2
        while True:
            v, i = _parse_value(s, i)
            items.append(v)
            i = _skip(s, i)
            if s.startswith(">>", i):
                return items, i + 2
            assert s[i] == ",", (s[i - 20 : i + 20])
            i += 1
    if s[i] == "{":
        i += 1
        items = []
        i = _skip(s, i)
        if s[i] == "}":
            return items, i + 1
        while True:
            v, i = _parse_value(s, i)
            items.append(v)
            i = _skip(s, i)
            if s[i] == "}":
                return items, i + 1
            assert s[i] == ","
            i += 1
    if s[i] == "[":
        i += 1
        d = {}
        while True:
            i = _skip(s, i)
            m = re.match(r"(\w+) \|-> ", s[i:])
            assert m, s[i : i + 30]
            i += m.end()
            v, i = _parse_value(s, i)
            d[m.group(1)] = v
            i = _skip(s, i)
            if s[i] == "]":
                return d, i + 1
            assert s[i] == ","
            i += 1
    if s[i] == '"':
        j = i + 1
        buf = []
        while s[j] != '"':
            if s[j] == "\\":
                j += 1
            buf.append(s[j])
            j += 1
        return "".join(buf), j + 1
    m = re.match(r"-?\d+", s[i:])
    if m:
        return int(m.group(0)), i + m.end()
    m = re.match(r"TRUE|FALSE", s[i:])
    if m:
        return m.group(0) == "TRUE", i + m.end()
    m = re.match(r"\w+", s[i:])
    if m:
        return m.group(0), i + m.end()
    raise ValueError(s[i : i + 30])


def write_ndjson(path, rows):
    with open(path, "w") as f:
        for r in rows:
            f.write(json.dumps(r, separators=(",", ":")))
            f.write("\n")


def read_ndjson(path):
    rows = []
    with open(path) as f:
        for line in f:
            line = line.strip()
            if line:
                rows.append(json.loads(line))
    return rows
