"""Read simulator shared by the checks (C06, C07, end-to-end genotyping checks).

Everything works from a LOADED `aldy.gene.Gene` (any YAML, shipped or generated); nothing here
depends on how the YAML was produced.  Reads are ALIGNED BY CONSTRUCTION: the simulator knows
where every base of a haplotype copy comes from, so it emits (reference start, CIGAR, sequence)
directly -- no mapper is involved.  All coordinates are 0-based genome coordinates of the gene's
contig (the same coordinate system as `Gene.regions`, `Gene.mutations`, pysam).

Stable API
----------
``contig(gene, length, rng, pseudo="mutated", divergence=0.04) -> str``
    Genome-oriented contig sequence of `length` bases: seeded random ACGT, every pseudogene region
    overwritten by a copy of the same-named gene region with random substitutions at rate
    `divergence` when both have the same length (``pseudo="mutated"``; otherwise, or when lengths
    differ, it stays random), and finally `gene._lookup_seq` overlaid at `gene._lookup_range`
    (positions where the lookup sequence is ``N`` -- genome bases not mapped to RefSeq -- keep the
    random base).  The overlay is applied last so `gene[pos]` always equals `contig[pos]` wherever
    `gene[pos] != "N"`.

``Copy`` / ``haplotype(gene, contig, structure="1", variants=(), weak=False, background=False) -> Copy``
    One haplotype copy.  `structure` is a key of `gene.cn_configs` (default copy "1", the
    whole-gene deletion, a left/right fusion, a custom deletion).  `variants` are loaded aldy
    mutations `(pos, op)` / `Mutation(pos, op)` in genome coordinates with the LOADED insertion
    convention (`insX` at `pos` = X inserted AFTER the anchor base `pos`; `delX` at `pos` removes
    `pos..pos+len-1`; `A>B`, `AB>CD`, `A.B>C.D` substitute in place).  The copy is a list of
    ``Segment(start, end, variants)``: contig intervals that exist in this copy, such that every
    (gene g, region r) is covered by exactly `gene.cn_configs[structure].cn[g][r]` segments
    (`weak=True`: the pseudogene counts are reduced by one -- aldy's "weak" extra copy that
    duplicates only the main gene).  A fusion is therefore realised as the gene segments on one
    side of the break region and the pseudogene segments on the other side; reads are never
    chimeric (a read that would cross the break is clipped at the segment end).
    `background=True` adds everything on the contig that is not a gene/pseudogene region (so
    reads run naturally from the flanks into the gene); a diploid sample has exactly two
    background copies (see `simulate_sample`).  Variants lying in a region the structure lacks
    are dropped (like aldy's partial fusion alleles); a variant crossing a segment end raises.

``tile(copy, contig, read_len, depth, prefix="r", offset=0, mapq=60, baseq=40) -> [Read]``
    Error-free reads tiled in REFERENCE coordinates at step `read_len // depth` (must divide):
    every position of every segment is spanned by exactly `depth` reads (deleted bases count:
    they are spanned by a D); reads are clipped to the segment, a read never starts or ends inside
    a deletion or with an insertion.
``sample(copy, contig, read_len, depth, rng, ...) -> [Read]``
    The same number of reads with uniformly random starts (sampling noise).
``noise_reads(contig, start, end, n, read_len, rng, prefix="n", mapq=(0, 9), baseq=(2, 9), mismatch=0.2) -> [Read]``
    `n` junk reads inside [start, end): random mismatches, low mapping and base qualities.
``pair_names(reads, gap)``: give mates (reads `gap` apart in the list) one name and proper flags.
``Read(name, start, cigar, seq, qual, mapq, flag, tags)``: `cigar` = list of (op, len) in pysam
    numbering (0 M, 1 I, 2 D, 4 S, 5 H, 7 =, 8 X); `seq`/`qual` may be None.
``write_bam(path, contig_name, contig_len, reads, extra_contigs=()) -> path``
    Coordinate-sorted, indexed BAM with the given header; reads are written as given (arbitrary
    CIGARs/flags/qualities; no validation) -- used by C06 for hostile reads.  A read may carry
    ``contig=<name>`` to be placed on one of `extra_contigs` [(name, length)].
``simulate_sample(gene, hap_list, read_len, depth_per_copy, path, rng, neutral_region=None,
                  contig_len=20000, mode="tile") -> dict``
    `hap_list`: list of `(structure, variants)` or `(structure, variants, weak)`.  Writes
    `<path>` (the sample) and `<path minus .bam>.profile.bam` (two reference default copies at the
    same depth).  Both contain two background copies, so the copy-number-neutral region
    (`neutral_region`, default: 400 bases near the far end of the contig) always has two copies.
    Returns {"bam", "profile_bam", "cn_region", "contig", "contig_len", "reads", "profile_reads"}.
``toy_yaml(strand_hg19="+", strand_hg38="-", seed=0, pseudogene=True, ...) -> (yaml_text, info)``
    A small consistent gene ("TOYS", 660 bp RefSeq at ~5,001 on chr "20"; alleles whose variants
    match the reference; SNP, MNP, deletion, insertion, left/right fusion, whole-gene deletion)
    used until/alongside harness/gen_db.py.  ``load_gene(yaml_text_or_path, genome, name=None)``.

``allele_variants(gene, major) -> [(pos, op)]``: loaded variants (functional + first minor's neutral) of a major allele.

Notes for users
---------------
* `read_len` must be a multiple of `depth` (tiling step = read_len // depth).  The gene must lie at >= ~1,100 on its
  contig (aldy pads fetch regions by 500 / 1000) -- true for toy_yaml and gen_db genes.
* The whole-gene deletion never appears among aldy's major alleles nor in `CNSolution.solution`: a planted
  ["1", <deletion>] comes back as majors ["1"], structure {"1": 1}, diplotype "*1 / *<deletion>".
* aldy can never observe a multi-base substitution whose op repeats a letter (`TAA>CAC`: the "A>A" position is not a
  mismatch) nor a NEUTRAL multi-base substitution (only functional ones are merged, known finding C06): planted alleles
  defined by such variants are not recoverable; this is aldy, not the simulator.
* Works unchanged on harness/gen_db.py genes: `gen_db.load(path, build)`, `contig_len=gen_db.contig_length(db, build)`.

Self-test: ``python -m harness.gen_reads --selftest`` (both strands/builds of toy_yaml: self-profile == 2.0 in every
region; planted SNP / MNP / deletion / insertion alleles, extra weak copy, whole-gene deletion, left fusion recovered).
"""
import os
import random
from collections import namedtuple

CONTIG_NAME = "20"
_COMP = {"A": "T", "C": "G", "G": "C", "T": "A", "N": "N", ".": "."}


def revcomp(s):
    return "".join(_COMP[c] for c in reversed(s))


class Read:
    __slots__ = ("name", "start", "cigar", "seq", "qual", "mapq", "flag", "tags", "contig")

    def __init__(self, name, start, cigar, seq, qual=None, mapq=60, flag=0, tags=None, contig=None):
        self.name, self.start, self.cigar, self.seq = name, start, list(cigar), seq
        self.qual, self.mapq, self.flag, self.tags, self.contig = qual, mapq, flag, tags, contig

    def ref_len(self):
        return sum(n for op, n in self.cigar if op in (0, 2, 3, 7, 8))

    def end(self):
        return self.start + self.ref_len()

    def as_dict(self):
        return {"name": self.name, "start": self.start, "cigar": [list(c) for c in self.cigar], "seq": self.seq,
                "qual": list(self.qual) if self.qual is not None else None, "mapq": self.mapq, "flag": self.flag}

    def copy(self, **kw):
        r = Read(self.name, self.start, self.cigar, self.seq, self.qual, self.mapq, self.flag, self.tags, self.contig)
        for k, v in kw.items():
            setattr(r, k, v)
        return r

    def __repr__(self):
        return f"Read({self.name}@{self.start} {cigar_string(self.cigar)} flag={self.flag})"


_OPS = "MIDNSHP=X"


def cigar_string(cigar):
    return "".join(f"{n}{_OPS[op]}" for op, n in cigar)


Segment = namedtuple("Segment", ["start", "end", "variants"])  # variants: sorted list of (pos, op)


class Copy:
    """One haplotype copy: the contig intervals present in it (with their variants)."""

    def __init__(self, segments, structure, weak, dropped):
        self.segments, self.structure, self.weak, self.dropped = segments, structure, weak, dropped

    def depth_at(self, pos):
        return sum(1 for s in self.segments if s.start <= pos < s.end)

    def __repr__(self):
        return f"Copy({self.structure}{' weak' if self.weak else ''}; {[(s.start, s.end, len(s.variants)) for s in self.segments]})"


# --------------------------------------------------------------------------- gene helpers
def load_gene(yml, genome, name=None):
    """Load a Gene from YAML text or a path (aldy must already be importable: aldyenv.setup())."""
    from aldy.gene import Gene

    if "\n" not in yml and os.path.exists(yml):
        return Gene(yml, genome=genome)
    return Gene(None, name=name or "GEN", yml=yml, genome=genome)


def region_intervals(gene):
    """[(g, region_name, start, end)] of every non-empty gene/pseudogene region."""
    return [(g, r, rng.start, rng.end) for g, d in enumerate(gene.regions) for r, rng in d.items() if rng.end > rng.start]


def contig(gene, length, rng, pseudo="mutated", divergence=0.04):
    seq = rng.choices("ACGT", k=length)
    s, e = gene._lookup_range
    assert 0 <= s and e <= length, f"gene lookup range {s}-{e} does not fit a contig of {length}"
    look = gene._lookup_seq
    for g in range(1, len(gene.regions)):
        for r, rng_p in gene.regions[g].items():
            rg = gene.regions[0][r]
            if pseudo == "mutated" and rg.end - rg.start == rng_p.end - rng_p.start:
                for i in range(rng_p.end - rng_p.start):
                    b = look[rg.start + i - s] if s <= rg.start + i < e else "N"
                    if b == "N":
                        continue
                    if rng.random() < divergence:
                        b = rng.choice([c for c in "ACGT" if c != b])
                    if 0 <= rng_p.start + i < length:
                        seq[rng_p.start + i] = b
    for i, b in enumerate(look):
        if b != "N":
            seq[s + i] = b
    return "".join(seq)


def _merge(intervals):
    out = []
    for a, b in sorted(intervals):
        if b <= a:
            continue
        if out and out[-1][1] == a:
            out[-1][1] = b
        else:
            assert not out or out[-1][1] < a, f"overlapping intervals {out[-1]} {(a, b)}"
            out.append([a, b])
    return [tuple(x) for x in out]


def background_intervals(gene, contig_len):
    """Contig minus every gene/pseudogene region."""
    occ = _merge_overlap([(a, b) for _, _, a, b in region_intervals(gene)])
    out, cur = [], 0
    for a, b in occ:
        if a > cur:
            out.append((cur, a))
        cur = max(cur, b)
    if cur < contig_len:
        out.append((cur, contig_len))
    return out


def _merge_overlap(intervals):
    out = []
    for a, b in sorted(intervals):
        if out and a <= out[-1][1]:
            out[-1][1] = max(out[-1][1], b)
        else:
            out.append([a, b])
    return [tuple(x) for x in out]


def _var_span(pos, op):
    """Reference interval [a, b) a variant touches (insertion: anchor and next base)."""
    if op.startswith("ins"):
        return pos, pos + 2
    if op.startswith("del"):
        d = op[3:].split("ins")[0]
        return pos, pos + len(d)
    l, _ = op.split(">")
    return pos, pos + len(l)


def haplotype(gene, contig, structure="1", variants=(), weak=False, background=False, contig_len=None):
    cfg = gene.cn_configs[structure]
    cn = [dict(d) for d in cfg.cn]
    if weak:
        for g in range(1, len(cn)):
            cn[g] = {r: max(0, v - 1) for r, v in cn[g].items()}
    maxm = max([v for d in cn for v in d.values()] + [1])
    variants = sorted({(int(p), str(o)) for p, o in variants})
    segs, used = [], set()
    for level in range(1, maxm + 1):
        iv = [(rng.start, rng.end) for g, d in enumerate(gene.regions) if g < len(cn) for r, rng in d.items() if cn[g].get(r, 0) >= level]
        if level == 1 and background:
            iv += background_intervals(gene, contig_len or len(contig))
        for a, b in _merge(iv):
            vs = []
            for p, o in variants:
                va, vb = _var_span(p, o)
                r = gene.region_at(p)
                if r is None or r[0] != 0 or level != 1:
                    continue
                if a <= va and vb <= b:
                    vs.append((p, o))
                    used.add((p, o))
                elif va < b and vb > a:
                    raise ValueError(f"variant {p}.{o} crosses the end of segment {a}-{b} of structure {structure}")
            _check_disjoint(vs)
            segs.append(Segment(a, b, vs))
    dropped = [v for v in variants if v not in used]
    return Copy(segs, structure, weak, dropped)


def _check_disjoint(vs):
    last = -1  # end of the reference interval consumed so far
    for p, o in vs:
        a, b = _var_span(p, o)
        if o.startswith("ins"):
            if p + 1 < last:
                raise ValueError(f"insertion {p}.{o} lies inside a previous variant")
            continue
        if a < last:
            raise ValueError(f"overlapping variants at {p}.{o}")
        last = b


# --------------------------------------------------------------------------- reads from a copy
def _read_from(seg, contig, a, b):
    """Alignment of the copy's bases over reference interval [a, b) (within seg).
    Returns (start, cigar, seq) or None when nothing is left after trimming."""
    # trim ends that fall inside a deletion
    changed = True
    while changed and a < b:
        changed = False
        for p, o in seg.variants:
            if o.startswith("del"):
                va, vb = _var_span(p, o)
                if va <= a < vb:
                    a = vb
                    changed = True
                if va < b <= vb:
                    b = va
                    changed = True
    if a >= b:
        return None
    cig, out = [], []

    def push(op, n):
        if n <= 0:
            return
        if cig and cig[-1][0] == op:
            cig[-1][1] += n
        else:
            cig.append([op, n])

    pos = a
    for p, o in seg.variants:
        va, vb = _var_span(p, o)
        if o.startswith("ins"):
            if not (a <= p and p + 1 < b) or pos > p + 1:  # both neighbours inside the read
                continue
            push(0, p + 1 - pos)
            out.append(contig[pos : p + 1])
            pos = p + 1
            push(1, len(o) - 3)
            out.append(o[3:])
        elif o.startswith("del"):
            d, _, ins = o[3:].partition("ins")
            if vb <= a or va >= b:
                continue
            push(0, va - pos)
            out.append(contig[pos:va])
            push(2, len(d))
            pos = vb
            if ins:
                push(1, len(ins))
                out.append(ins)
        else:
            l, r = o.split(">")
            for i, (x, y) in enumerate(zip(l, r)):
                q = p + i
                if x == "." or not a <= q < b or q < pos:
                    continue
                push(0, q - pos)
                out.append(contig[pos:q])
                push(0, 1)
                out.append(y)
                pos = q + 1
    push(0, b - pos)
    out.append(contig[pos:b])
    return a, [tuple(c) for c in cig], "".join(out)


def _mk(name, al, mapq, baseq, flag=0):
    start, cig, seq = al
    return Read(name, start, cig, seq, [baseq] * len(seq), mapq, flag)


def tile(copy, contig, read_len, depth, prefix="r", offset=0, mapq=60, baseq=40):
    assert depth >= 1 and read_len % depth == 0, "read_len must be a multiple of depth"
    step = read_len // depth
    reads, k = [], 0
    for si, seg in enumerate(copy.segments):
        a = seg.start - read_len + step - (offset % step)
        while a < seg.end:
            lo, hi = max(a, seg.start), min(a + read_len, seg.end)
            if lo < hi:
                al = _read_from(seg, contig, lo, hi)
                if al:
                    reads.append(_mk(f"{prefix}.{si}.{k}", al, mapq, baseq))
                    k += 1
            a += step
    return reads


def sample(copy, contig, read_len, depth, rng, prefix="s", mapq=60, baseq=40):
    reads, k = [], 0
    for si, seg in enumerate(copy.segments):
        n = round(depth * (seg.end - seg.start + read_len) / read_len)
        for _ in range(n):
            a = rng.randrange(seg.start - read_len + 1, seg.end)
            lo, hi = max(a, seg.start), min(a + read_len, seg.end)
            al = _read_from(seg, contig, lo, hi)
            if al:
                reads.append(_mk(f"{prefix}.{si}.{k}", al, mapq, baseq))
                k += 1
    return reads


def noise_reads(contig, start, end, n, read_len, rng, prefix="n", mapq=(0, 9), baseq=(2, 9), mismatch=0.2):
    """`n` junk reads inside [start, end): random mismatches, low mapping and/or base quality."""
    out = []
    for k in range(n):
        a = rng.randrange(start, max(start + 1, end - read_len))
        b = min(end, a + read_len)
        seq = "".join((rng.choice("ACGT") if rng.random() < mismatch else c) for c in contig[a:b])
        out.append(Read(f"{prefix}.{k}", a, [(0, b - a)], seq, [rng.randint(*baseq) for _ in seq], rng.randint(*mapq), 0))
    return out


def pair_names(reads, gap=3):
    """Give reads i and i+gap (in list order, greedily) one query name and paired-end flags."""
    used = [False] * len(reads)
    for i in range(len(reads)):
        j = i + gap
        if used[i] or j >= len(reads) or used[j]:
            continue
        used[i] = used[j] = True
        reads[j].name = reads[i].name
        reads[i].flag |= 0x1 | 0x2 | 0x40 | 0x20
        reads[j].flag |= 0x1 | 0x2 | 0x80 | 0x10
    return reads


# --------------------------------------------------------------------------- BAM
def write_bam(path, contig_name, contig_len, reads, extra_contigs=()):
    import pysam

    sq = [{"SN": contig_name, "LN": int(contig_len)}] + [{"SN": n, "LN": int(l)} for n, l in extra_contigs]
    tid = {d["SN"]: i for i, d in enumerate(sq)}
    header = pysam.AlignmentHeader.from_dict({"HD": {"VN": "1.6", "SO": "coordinate"}, "SQ": sq})
    order = sorted(range(len(reads)), key=lambda i: (tid[reads[i].contig or contig_name], reads[i].start, i))
    with pysam.AlignmentFile(path, "wb", header=header) as f:
        for i in order:
            r = reads[i]
            a = pysam.AlignedSegment(header)
            a.query_name = r.name
            a.flag = r.flag
            a.reference_id = tid[r.contig or contig_name]
            a.reference_start = r.start
            a.mapping_quality = r.mapq
            a.cigartuples = [tuple(c) for c in r.cigar] if r.cigar else None
            a.query_sequence = r.seq if r.seq else None
            if r.seq and r.qual is not None:
                a.query_qualities = pysam.qualitystring_to_array("".join(chr(33 + q) for q in r.qual))
            a.next_reference_id = -1
            a.next_reference_start = -1
            a.template_length = 0
            if r.tags:
                a.set_tags(list(r.tags))
            f.write(a)
    pysam.index(path)
    return path


def default_neutral(gene, contig_len, size=400):
    from aldy.common import GRange

    w = gene.get_wide_region()
    if contig_len - w.end >= size + 2200:
        a = contig_len - size - 1200
    else:
        a = 1200
        assert a + size + 1000 <= w.start, "no room for a neutral region"
    return GRange(gene.chr, a, a + size)


def simulate_sample(gene, hap_list, read_len, depth_per_copy, path, rng, neutral_region=None, contig_len=20000,
                    mode="tile", contig_seq=None, paired=False, write_profile=True):
    ctg = contig_seq or contig(gene, contig_len, rng)
    cn_region = neutral_region or default_neutral(gene, contig_len)

    def build(haps, tag):
        reads, nbg = [], 0
        for i, h in enumerate(haps):
            structure, variants = h[0], h[1]
            weak = bool(h[2]) if len(h) > 2 else False
            bg = (not weak) and nbg < 2
            nbg += bg
            c = haplotype(gene, ctg, structure, variants, weak=weak, background=bg, contig_len=contig_len)
            if mode == "tile":
                reads += tile(c, ctg, read_len, depth_per_copy, prefix=f"{tag}{i}", offset=rng.randrange(read_len) if i else 0)
            else:
                reads += sample(c, ctg, read_len, depth_per_copy, rng, prefix=f"{tag}{i}")
        while nbg < 2:  # background copies not attached to a complete gene copy
            segs = [Segment(a, b, []) for a, b in background_intervals(gene, contig_len)]
            c = Copy(segs, "background", False, [])
            reads += tile(c, ctg, read_len, depth_per_copy, prefix=f"{tag}bg{nbg}") if mode == "tile" else sample(
                c, ctg, read_len, depth_per_copy, rng, prefix=f"{tag}bg{nbg}")
            nbg += 1
        if paired:
            pair_names(reads)
        return reads

    reads = build(hap_list, "h")
    write_bam(path, gene.chr, contig_len, reads)
    out = {"bam": path, "cn_region": cn_region, "contig": ctg, "contig_len": contig_len, "reads": reads}
    if write_profile:
        ppath = (path[:-4] if path.endswith(".bam") else path) + ".profile.bam"
        preads = build([("1", ()), ("1", ())], "p")
        write_bam(ppath, gene.chr, contig_len, preads)
        out.update(profile_bam=ppath, profile_reads=preads)
    return out


# --------------------------------------------------------------------------- a small consistent gene
TOY_LAYOUT = [("up", 60), ("e1", 80), ("i1", 60), ("e2", 80), ("i2", 60), ("e3", 80), ("down", 100)]


def toy_yaml(strand_hg19="+", strand_hg38="-", seed=0, pseudogene=True, gene_start=5001, pseudo_start=8001,
             name="TOYS", pseudo_delta=None, indels=True, patches=(), extra_alleles=None, drop_alleles=()):
    """YAML text of a small gene whose catalogue is consistent with its reference.

    RefSeq (1-based) layout: up 1-60, e1 61-140, i1 141-200, e2 201-280, i2 281-340, e3 341-420,
    down 421-520.  Gene at `gene_start` (1-based genome) in both builds, pseudogene (same region
    lengths, or + pseudo_delta[name]) at `pseudo_start`.  Returns (text, info) where info has the
    allele -> RefSeq variant table.  `indels=False` leaves the deletion/insertion alleles out (a gene without
    catalogued indels keeps insertion entries in its Coverage table); `patches` [(pos1, bases)] overwrite RefSeq
    bases, `extra_alleles` {name: [(pos1, op, rsid, function)]} / `drop_alleles` edit the catalogue.
    """
    rng = random.Random(7700 + seed)
    n = sum(l for _, l in TOY_LAYOUT)
    seq = [rng.choice("ACGT") for _ in range(n)]

    def put(pos1, s):  # 1-based
        for i, c in enumerate(s):
            seq[pos1 - 1 + i] = c

    put(98, "CAGTC")     # 100 G>A   functional SNP (e1)        -> *2
    put(168, "TCATG")    # 170 A>C   neutral SNP (i1)           -> *1.002, *3
    put(218, "GTACGT")   # 220 delAC functional (e2)            -> *3
    put(238, "TCAGCT")   # 240 CA>TG functional MNP (e2)        -> *5  (239..)
    put(358, "GCAGCA")   # 360 insTT after A(360) functional    -> *4
    put(308, "GACTG")    # 310 C>T   neutral (i2)               -> *3
    put(398, "AGCAT")    # 400 C>G   functional (e3)            -> *7 (right fusion keeps e1 only ... see below)
    put(118, "TGCAT")    # 120 C>A   functional (e1)            -> *7
    put(328, "GTCAGT")   # 330 CA>TG neutral MNP (i2)           -> *1.003
    for pos1, bases in patches:
        put(pos1, bases)
    seq = "".join(seq)
    P = pseudo_delta or {}
    bounds, x = {}, 1
    for r, l in TOY_LAYOUT:
        bounds[r] = (x, x + l)
        x += l

    def genome_regions(strand, start, deltas):
        out, lens = {}, [(r, l + deltas.get(r, 0)) for r, l in TOY_LAYOUT]
        tot = sum(l for _, l in lens)
        x = 0
        for r, l in lens:
            if strand == "+":
                out[r] = (start + x, start + x + l)
            else:
                out[r] = (start + tot - x - l, start + tot - x)
            x += l
        return out

    def regions(strand):
        g = genome_regions(strand, gene_start, {})
        p = genome_regions(strand, pseudo_start, P) if pseudogene else None
        lines = []
        for r, _ in TOY_LAYOUT:
            if r[0] == "i":
                continue  # introns are filled in by aldy
            row = list(g[r]) + (list(p[r]) if p else [])
            lines.append(f"         {r}: [{', '.join(map(str, row))}]")
        return "\n".join(lines)

    if pseudogene and P:
        assert all(not r.startswith("i") or True for r in P)
    alle = {
        "1.001": [],
        "1.002": [(170, "A>C", "rs170", None)],
        "1.003": [(330, "CA>TG", "rs330", None)],
        "2.001": [(100, "G>A", "rs100", "functional")],
        "3.001": [(220, "delAC", "rs220", "frameshift"), (170, "A>C", "rs170", None), (310, "C>T", "rs310", None)],
        "4.001": [(360, "insTT", "rs360", "frameshift")],
        "5.001": [(240, "AG>TC", "rs240", "functional")],
    }
    if pseudogene:
        alle["6.001"] = [(name + "P", "i2-")]
        alle["7.001"] = [(name + "P", "e3+"), (120, "C>A", "rs120", "functional")]
    alle["8.001"] = [(name, "deletion")]
    if not indels:
        del alle["3.001"], alle["4.001"]
    for a in drop_alleles:
        alle.pop(a, None)
    alle.update(extra_alleles or {})
    out = [f"name: {name}", "version: verif-1", "generated: '2026-01-01'", "alleles:"]
    for a, ms in alle.items():
        out.append(f"   {name}*{a}:")
        out.append(f"      label: {name}*{a.split('.')[0]}")
        if not ms:
            out.append("      mutations: []")
            continue
        out.append("      mutations:")
        for m in ms:
            if len(m) == 2:
                out.append(f"      - [{m[0]}, {m[1]}]")
            else:
                pos, op, rs, fn = m
                out.append(f"      - [{pos}, {op}, {rs}" + (f", {fn}]" if fn else "]"))
    out += ["structure:", f"   genes: [{name}" + (f", {name}P]" if pseudogene else "]"), "   regions:"]
    out += ["      hg19:", regions(strand_hg19), "      hg38:", regions(strand_hg38)]
    out += ["   cn_regions: [e1, i1, e2, i2, e3]", "reference:", "   name: NG_VERIF", "   mappings:"]
    out += [f"      hg19: ['{CONTIG_NAME}', {gene_start}, {gene_start + n}, '{strand_hg19}', M{n}]"]
    out += [f"      hg38: ['{CONTIG_NAME}', {gene_start}, {gene_start + n}, '{strand_hg38}', M{n}]"]
    out += ["   exons:"] + [f"   - [{bounds[e][0]}, {bounds[e][1]}]" for e in ("e1", "e2", "e3")]
    out += ["   seq: |-"] + ["      " + seq[i : i + 80] for i in range(0, n, 80)]
    info = {"name": name, "alleles": alle, "seq": seq, "n": n, "bounds": bounds}
    return "\n".join(out) + "\n", info


def allele_variants(gene, allele):
    """Loaded genome-coordinate variants (functional + neutral of the first minor) of a major allele."""
    a = gene.alleles[allele]
    minor = sorted(a.minors)[0]
    return sorted({(m.pos, m.op) for m in a.func_muts} | {(m.pos, m.op) for m in a.minors[minor].neutral_muts})


# --------------------------------------------------------------------------- self-test
def _selftest():
    import sys
    import time

    from . import aldyenv, tlc

    aldyenv.setup()
    from aldy.common import GRange  # noqa
    from aldy.genotype import genotype
    from aldy.profile import Profile
    from aldy.sam import Sample

    d = tlc.scratch()
    fails = 0
    for genome, sh19, sh38 in (("hg19", "+", "-"), ("hg38", "+", "-"), ("hg19", "-", "+")):
        text, info = toy_yaml(sh19, sh38, seed=1)
        yml = os.path.join(d, f"toys_{genome}_{sh19}.yml")
        with open(yml, "w") as f:
            f.write(text)
        gene = load_gene(yml, genome)
        rng = random.Random(5)
        ctg = contig(gene, 20000, rng)
        # (i) two reference copies used as their own profile
        sim = simulate_sample(gene, [("1", ()), ("1", ())], 60, 10, os.path.join(d, f"ref_{genome}{sh19}.bam"), rng, contig_seq=ctg)
        prof = Profile.load(gene, sim["profile_bam"], sim["cn_region"])
        with aldyenv.quiet_stderr():
            s = Sample(gene, prof, sim["bam"])
        vals = {(g, r): s.coverage.region_coverage(g, r) for g, dd in enumerate(gene.regions) for r in dd}
        ok = all(v == 2.0 for v in vals.values())
        print(f"[selftest] {genome} strand={gene.strand:+d} self-profile: all region_coverage == 2.0: {ok}")
        fails += not ok
        # (ii) planted genotypes
        names = sorted(gene.alleles)
        left = next(c for c, v in gene.cn_configs.items() if v.kind.name == "LEFT_FUSION")
        dele = gene.deletion_allele()
        plant = [
            ([("1", "1"), ("1", "2")], ["1", "2"]),
            ([("1", "3"), ("1", "4")], ["3", "4"]),            # deletion allele / insertion allele
            ([("1", "5"), ("1", "1")], ["1", "5"]),            # MNP
            ([("1", "2"), ("1", "2"), ("1", "2", True)], ["2", "2", "2"]),  # extra (weak) copy
            ([("1", "1"), (dele, None)], ["1", dele]),         # whole-gene deletion
            ([("1", "2"), (left, "1"), ], None),               # left fusion (+ a complete copy)
        ]
        for haps, expect in plant:
            hl = []
            for h in haps:
                st, al = h[0], h[1]
                vs = allele_variants(gene, al) if al else ()
                hl.append((st, vs) + ((True,) if len(h) > 2 else ()))
            t0 = time.time()
            sim = simulate_sample(gene, hl, 60, 10, os.path.join(d, "plant.bam"), rng, contig_seq=ctg)
            with aldyenv.quiet_stderr():
                try:
                    res = genotype(yml, sim["bam"], sim["profile_bam"], output_file=None, cn_region=sim["cn_region"], genome=genome)
                    sols = list(res.values())[0]
                    got = [sorted(a.major for a in s_.solution) for s_ in sols]
                    cns = [dict(s_.major_solution.cn_solution.solution) for s_ in sols]
                except Exception as ex:  # noqa
                    got = f"{type(ex).__name__}: {ex}"
            if expect is None:
                exp = sorted(["2", f"{left}#1"]) if f"{left}#1" in gene.alleles else None
            else:
                exp = sorted(expect)
            ok = isinstance(got, list) and exp in got
            if isinstance(got, list) and expect is not None and dele in expect:
                # aldy never lists the whole-gene deletion among the major alleles nor in
                # CNSolution.solution (cn.py drops it): it shows as a single remaining copy and in
                # the printed diplotype
                rest = [a for a in exp if a != dele]
                ok = rest in got and any(c == {"1": len(rest)} for c in cns) and any(
                    f"*{dele}" in s_.get_major_diplotype() for s_ in sols)
                got = (got, cns, sols[0].get_major_diplotype())
            print(f"[selftest] {genome} strand={gene.strand:+d} planted {haps} -> {got} expected {exp} {'ok' if ok else 'MISMATCH'} ({time.time() - t0:.1f}s)")
            fails += not ok
        del names
    print("[selftest]", "PASS" if not fails else f"{fails} FAILURES")
    return 1 if fails else 0


if __name__ == "__main__":
    import sys

    if "--selftest" in sys.argv:
        sys.exit(_selftest())
    print(__doc__)
