"""Attribution of an optimality / completeness violation to the solver backend (used only to fill fingerprints).

`watch()` wraps aldy.lpinterface.CBC.solve in the harness process: after every Solve() of the CBC backend the model is
exported as an MPModelProto (pure OR-tools data, no aldy logic) together with the objective CBC reported as OPTIMAL.
`worse_than_scip(records)` re-solves each exported model with SCIP (shipped in the same OR-tools wheel): if SCIP finds
a strictly better objective for the SAME model, CBC returned a non-optimal point flagged OPTIMAL (DESIGN II.3 #2)."""
import contextlib


@contextlib.contextmanager
def watch(records, limit=40):
    from aldy import lpinterface
    from ortools.linear_solver import linear_solver_pb2

    orig = lpinterface.CBC.solve

    def solve(self, init=None):
        st, obj = orig(self, init)
        if len(records) < limit:
            try:
                proto = linear_solver_pb2.MPModelProto()
                self.model.ExportModelToProto(proto)
                records.append((proto, float(obj)))
            except Exception:  # noqa: BLE001 - attribution only
                pass
        return st, obj

    lpinterface.CBC.solve = solve
    try:
        yield records
    finally:
        lpinterface.CBC.solve = orig


def worse_than_scip(records, tol=1e-6, time_limit_ms=60000):
    """True iff for one of the recorded models SCIP proves/finds an objective below the one CBC reported as optimal."""
    from ortools.linear_solver import pywraplp

    for proto, cbc_obj in records:
        s = pywraplp.Solver.CreateSolver("SCIP")
        if s is None:
            return False
        s.SetTimeLimit(time_limit_ms)
        s.LoadModelFromProto(proto)
        st = s.Solve()
        if st in (pywraplp.Solver.OPTIMAL, pywraplp.Solver.FEASIBLE):
            val = s.Objective().Value()
            better = val < cbc_obj - tol if not proto.maximize else val > cbc_obj + tol
            if better:
                return True
    return False
