"""Import aldy from the working tree (/repo, or $ALDY_SRC) quietly; rebuild the Cython
extension modules if their sources are newer than the built objects."""
import glob
import os
import subprocess
import sys
import warnings

ALDY_SRC = os.environ.get("ALDY_SRC", "/repo")
GUARD = "ALDY_VERIF"


def rebuild_if_needed():
    src = glob.glob(os.path.join(ALDY_SRC, "aldy/indelpost/*.pyx")) + glob.glob(
        os.path.join(ALDY_SRC, "aldy/indelpost/*.pxd")
    ) + glob.glob(os.path.join(ALDY_SRC, "aldy/indelpost/*.c*"))
    sos = glob.glob(os.path.join(ALDY_SRC, "aldy/indelpost/*.so"))
    pyx = [s for s in src if s.endswith((".pyx", ".pxd")) or os.path.basename(s) in ("ssw.c",)]
    if not pyx:
        return False
    newest_src = max(os.path.getmtime(s) for s in pyx)
    if sos and min(os.path.getmtime(s) for s in sos) >= newest_src:
        return False
    subprocess.run(
        [sys.executable, "setup.py", "build_ext", "--inplace"],
        cwd=ALDY_SRC,
        stdout=subprocess.DEVNULL,
        stderr=subprocess.DEVNULL,
        check=True,
    )
    return True


_done = False


def setup():
    """Make `import aldy` resolve to the working tree, with hooks enabled and logs off."""
    global _done
    if _done:
        return
    _done = True
    os.environ[GUARD] = "1"
    os.environ.setdefault("PYTHONHASHSEED", "0")
    warnings.filterwarnings("ignore")
    if ALDY_SRC not in sys.path:
        sys.path.insert(0, ALDY_SRC)
    rebuild_if_needed()
    import logbook

    logbook.NullHandler().push_application()
    import aldy  # noqa

    assert os.path.realpath(os.path.dirname(aldy.__file__)) == os.path.realpath(
        os.path.join(ALDY_SRC, "aldy")
    ), f"aldy imported from {aldy.__file__}, expected {ALDY_SRC}"


def quiet_stderr():
    """Context manager that silences C-level stderr noise (absl/ortools)."""
    import contextlib

    @contextlib.contextmanager
    def cm():
        sys.stderr.flush()
        old = os.dup(2)
        dn = os.open(os.devnull, os.O_WRONLY)
        os.dup2(dn, 2)
        try:
            yield
        finally:
            sys.stderr.flush()
            os.dup2(old, 2)
            os.close(dn)
            os.close(old)

    return cm()
