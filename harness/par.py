"""Process-parallel map for the implementation side of the checks (solver calls, gene loads)."""
import multiprocessing
import os


def _init():
    from . import aldyenv

    aldyenv.setup()
    # silence C-level stderr noise of OR-tools in workers
    dn = os.open(os.devnull, os.O_WRONLY)
    os.dup2(dn, 2)


def pmap(fn, items, jobs=None):
    """fn must be a module-level function; items a list of picklable arguments."""
    items = list(items)
    jobs = min(jobs or int(os.environ.get("VERIF_JOBS", "14")), max(1, len(items)))
    if jobs <= 1 or len(items) <= 1:
        return [fn(x) for x in items]
    ctx = multiprocessing.get_context("fork")
    with ctx.Pool(jobs, initializer=_init) as pool:
        return pool.map(fn, items, chunksize=1)
