"""Process-parallel map for the implementation side of the checks (solver calls, gene loads)."""
import multiprocessing
import os
import time


def _init():
    from . import aldyenv

    aldyenv.setup()
    # silence C-level stderr noise of OR-tools in workers
    dn = os.open(os.devnull, os.O_WRONLY)
    os.dup2(dn, 2)


TIMED_OUT = []  # (function name, item) of tasks killed by the watchdog in this process (reported in the evidence)


def _worker(fn, tasks, results):
    _init()
    while True:
        t = tasks.get()
        if t is None:
            return
        i, item = t
        results.put((i, "start", os.getpid()))
        try:
            results.put((i, "done", fn(item)))
        except BaseException as ex:  # noqa: BLE001 - reported to the parent, which re-raises
            import traceback

            results.put((i, "error", f"{type(ex).__name__}: {ex}\n{traceback.format_exc()}"))


def pmap(fn, items, jobs=None, timeout=None, default=None):
    """fn must be a module-level function; items a list of picklable arguments.

    timeout/default: a task still running `timeout` seconds after it started is killed (the CBC backend
    occasionally does not terminate: seen once, C10 thorough, 60+ CPU-minutes inside CglProbing) and its
    result is default(item); the task is recorded in TIMED_OUT.  Without `default` there is no watchdog."""
    items = list(items)
    jobs = min(jobs or int(os.environ.get("VERIF_JOBS", "14")), max(1, len(items)))
    if default is None:
        if jobs <= 1 or len(items) <= 1:
            return [fn(x) for x in items]
        ctx = multiprocessing.get_context("fork")
        with ctx.Pool(jobs, initializer=_init) as pool:
            return pool.map(fn, items, chunksize=1)
    timeout = float(os.environ.get("VERIF_TASK_TIMEOUT", timeout or 900))
    ctx = multiprocessing.get_context("fork")
    tasks, results = ctx.Queue(), ctx.Queue()
    for t in enumerate(items):
        tasks.put(t)
    procs = {}

    def spawn():
        p = ctx.Process(target=_worker, args=(fn, tasks, results), daemon=True)
        p.start()
        procs[p.pid] = p

    for _ in range(jobs):
        spawn()
    out, running, done = [None] * len(items), {}, 0
    try:
        while done < len(items):
            try:
                i, kind, val = results.get(timeout=2.0)
            except Exception:  # queue.Empty
                i = None
            if i is not None:
                if kind == "start":
                    running[i] = (val, time.time())
                elif kind == "done":
                    if i in running:
                        running.pop(i)
                        out[i] = val
                        done += 1
                else:
                    raise RuntimeError(f"worker failed on item {i}: {val}")
            now = time.time()
            for i, (pid, t0) in list(running.items()):
                if now - t0 > timeout:
                    running.pop(i)
                    p = procs.pop(pid, None)
                    if p is not None:
                        p.kill()
                        p.join()
                    TIMED_OUT.append((getattr(fn, "__name__", str(fn)), items[i]))
                    out[i] = default(items[i])
                    done += 1
                    spawn()
            for pid, p in list(procs.items()):
                if not p.is_alive() and any(rp == pid for rp, _ in running.values()):
                    # a worker died (the code under test aborted the process): never skip that silently
                    bad = [items[i] for i, (rp, _) in running.items() if rp == pid]
                    raise RuntimeError(f"worker {pid} died (exit {p.exitcode}) while running {fn.__name__}{bad!r}")
    finally:
        for _ in procs:
            tasks.put(None)
        for p in procs.values():
            p.join(timeout=0.5)
            if p.is_alive():
                p.kill()
    return out
