------------------------------ MODULE Diplotype ------------------------------
(***************************************************************************)
(* C11 - the diplotype is a faithful arrangement of the called alleles.    *)
(*                                                                         *)
(* Two layers.                                                             *)
(*                                                                         *)
(* SEMANTIC LAYER (the oracle, section 2): the property as postconditions  *)
(* on a result r = <<h1, h2>> (two sequences of copy indices 0..n-1, -1 =  *)
(* placeholder of the whole-gene-deletion allele).  They mention no phase  *)
(* of the heuristic; a different but valid arrangement satisfies them.     *)
(* Real executions are validated against THESE (trace/DiplotypeTrace).     *)
(*                                                                         *)
(* OPERATIONAL LAYER (section 3): aldy.diplotype.estimate_diplotype as a   *)
(* state machine with the code's phases                                    *)
(*   Group, Placeholders, Tandems, SplitSingleGroup, Duplicates, Rest,     *)
(*   Rebalance, FlattenSort                                                *)
(* (each phase is also an operator Ph<Name>, so the whole heuristic is the *)
(* operator Arrange(in)).  MC_Diplotype checks the postconditions on it;   *)
(* a violation there is a DESIGN finding and an input for the real code.   *)
(*                                                                         *)
(* Input record   in = [copies, tandems, del, fix]                         *)
(*   copies  : Seq([key, tok])  key = number group of the allele (what the *)
(*             tandem list names), tok = the shown name as natural-order   *)
(*             token sequence (Seq(Int): text chunk rank, number, ...)     *)
(*   tandems : Seq(<<key, key>>)  the database's common tandems            *)
(*   del     : [has, key, tok]  the gene's deletion allele (if it has one) *)
(*   fix     : BOOLEAN  FALSE = the code as shipped; TRUE = with the       *)
(*             proposed same-number-tandem repair (fixes/C11-*.diff)       *)
(***************************************************************************)
EXTENDS Integers, Sequences, FiniteSets, TLC

(* ======================= 1. natural order =============================== *)
Min2(a, b) == IF a < b THEN a ELSE b

(* strict lexicographic order on token sequences; a proper prefix is smaller.  *)
(* "Natural": a digit run is ONE token compared as a number.                   *)
TokLess(a, b) ==
    \E k \in 1..(Min2(Len(a), Len(b)) + 1) :
        /\ \A j \in 1..(k - 1) : a[j] = b[j]
        /\ IF k <= Len(a) /\ k <= Len(b) THEN a[k] < b[k] ELSE k > Len(a) /\ k <= Len(b)

(* the same one level up: sequences of names *)
NamesLess(x, y) ==
    \E k \in 1..(Min2(Len(x), Len(y)) + 1) :
        /\ \A j \in 1..(k - 1) : x[j] = y[j]
        /\ IF k <= Len(x) /\ k <= Len(y) THEN TokLess(x[k], y[k]) ELSE k > Len(x) /\ k <= Len(y)

N(in) == Len(in.copies)
Nm(in, i) == IF i = -1 THEN in.del.tok ELSE in.copies[i + 1].tok    \* shown name of an index
Key(in, i) == in.copies[i + 1].key
Names(in, h) == [j \in DOMAIN h |-> Nm(in, h[j])]
SeqRange(s) == {s[j] : j \in DOMAIN s}

(* ======================= 2. the property ================================ *)
All(r) == r[1] \o r[2]
Reals(h) == SelectSeq(h, LAMBDA i : i # -1)
Placeholders(h) == Len(h) - Len(Reals(h))

WellFormed(in, r) == Len(r) = 2 /\ \A i \in SeqRange(All(r)) : i \in (-1)..(N(in) - 1)

(* every called copy appears exactly once (n entries covering n indices) *)
EachCopyOnce(in, r) ==
    /\ Len(Reals(All(r))) = N(in)
    /\ SeqRange(Reals(All(r))) = 0..(N(in) - 1)

(* both haplotypes are non-empty whenever at least two copies are called *)
BothNonEmpty(in, r) == N(in) >= 2 => (r[1] # <<>> /\ r[2] # <<>>)

(* the deletion allele is shown exactly for the missing haplotypes of a gene that has one: *)
(* a haplotype without a called copy shows it once, a haplotype with called copies never,  *)
(* and a gene without a deletion allele never shows a placeholder.                         *)
DeletionShown(in, r) ==
    \A h \in 1..2 :
        Placeholders(r[h]) = IF in.del.has /\ Reals(r[h]) = <<>> THEN 1 ELSE 0

(* ---- tandem units ------------------------------------------------------- *)
(* "Alleles listed as a common tandem are placed next to each other on one haplotype when   *)
(*  more than two copies are called" and "alleles within a haplotype are in natural order"  *)
(* are one statement about UNITS: a haplotype is a sequence of units, a unit is one allele  *)
(* or two DISTINCT adjacent copies whose number groups form a listed tandem (either order), *)
(* and (i) the pairing is maximal - no listed tandem (a, b) is left with an unpaired copy   *)
(* of a and another unpaired copy of b - (ii) the units are in natural order of the shown   *)
(* name of their first allele.  With n <= 2 there are no tandem units.                      *)
(* Satisfiable for every input: pair greedily, then sort.                                   *)
Listed(in, i, j) ==
    \E t \in DOMAIN in.tandems :
        \/ Key(in, i) = in.tandems[t][1] /\ Key(in, j) = in.tandems[t][2]
        \/ Key(in, i) = in.tandems[t][2] /\ Key(in, j) = in.tandems[t][1]
CanPair(in, r, h, k) ==          \* positions k, k+1 of haplotype h may form a tandem unit
    /\ N(in) > 2
    /\ r[h][k] # -1 /\ r[h][k + 1] # -1 /\ r[h][k] # r[h][k + 1]
    /\ Listed(in, r[h][k], r[h][k + 1])
Pairings(in, r) ==
    LET cand == {hk \in UNION {{<<h, k>> : k \in 1..(Len(r[h]) - 1)} : h \in 1..2} : CanPair(in, r, hk[1], hk[2])}
    IN  {P \in SUBSET cand : \A p \in P : <<p[1], p[2] + 1>> \notin P}
Paired(r, P) == UNION {{r[p[1]][p[2]], r[p[1]][p[2] + 1]} : p \in P}
Maximal(in, r, P) ==
    LET left == (0..(N(in) - 1)) \ Paired(r, P) IN
    \A t \in DOMAIN in.tandems :
        ~\E i, j \in left : i # j /\ Key(in, i) = in.tandems[t][1] /\ Key(in, j) = in.tandems[t][2]
UnitsSorted(in, r, P) ==
    \A h \in 1..2 :
        LET heads == {k \in 1..Len(r[h]) : <<h, k - 1>> \notin P}
        IN  \A k1, k2 \in heads : k1 < k2 => ~TokLess(Nm(in, r[h][k2]), Nm(in, r[h][k1]))
HapsSorted(in, r) == ~NamesLess(Names(in, r[2]), Names(in, r[1]))

TandemsAdjacent(in, r) == N(in) > 2 => \E P \in Pairings(in, r) : Maximal(in, r, P)
NaturalOrder(in, r) == HapsSorted(in, r) /\ \E P \in Pairings(in, r) : UnitsSorted(in, r, P)
(* the two together: ONE reading of the haplotypes as units does both *)
TandemUnitsInOrder(in, r) ==
    \E P \in Pairings(in, r) : UnitsSorted(in, r, P) /\ (N(in) > 2 => Maximal(in, r, P))

(* what is printed: the non-empty haplotypes as sequences of shown names *)
Shown(in, r) == LET ne == SelectSeq(r, LAMBDA h : h # <<>>) IN [j \in DOMAIN ne |-> Names(in, ne[j])]

(* first violated clause of the single-result postconditions, "" if none.              *)
(* (NamesAreMajors and OrderFree12 relate the result to printed text / other runs and  *)
(*  are stated where that is available: DiplotypeTrace, MC_Diplotype.)                 *)
PostVerdict(in, r) ==
    IF ~WellFormed(in, r) THEN "WellFormed"
    ELSE IF ~EachCopyOnce(in, r) THEN "EachCopyOnce"
    ELSE IF ~BothNonEmpty(in, r) THEN "BothNonEmpty"
    ELSE IF ~DeletionShown(in, r) THEN "DeletionShown"
    ELSE IF ~TandemsAdjacent(in, r) THEN "TandemsAdjacent"
    ELSE IF ~NaturalOrder(in, r) THEN "NaturalOrder"
    ELSE IF ~TandemUnitsInOrder(in, r) THEN "TandemsAdjacent/NaturalOrder(one reading)"
    ELSE ""

(* ======================= 3. the heuristic =============================== *)
(* st = [groups, d, dc, err]                                                             *)
(*   groups : Seq([k, items])  the code's major_dict (a defaultdict: insertion ordered,  *)
(*            READING a missing key inserts an empty group - this matters for            *)
(*            `len(major_dict) == 1`)                                                    *)
(*   d      : <<Seq(elem), Seq(elem)>>  elem = <<i>> (one copy) or <<i, j>> (tandem)      *)
(*   dc     : the alternation counter;  err : "" or the exception the code raises        *)
St0 == [groups |-> <<>>, d |-> << <<>>, <<>> >>, dc |-> 0, err |-> ""]

GIdx(G, k) == IF \E j \in DOMAIN G : G[j].k = k THEN CHOOSE j \in DOMAIN G : G[j].k = k ELSE 0
Touch(G, k) == IF GIdx(G, k) # 0 THEN G ELSE Append(G, [k |-> k, items |-> <<>>])
Items(G, k) == IF GIdx(G, k) = 0 THEN <<>> ELSE G[GIdx(G, k)].items
Push(G, k, i) == LET H == Touch(G, k) IN [H EXCEPT ![GIdx(H, k)].items = Append(@, i)]
DelAt(G, k, p) == [G EXCEPT ![GIdx(G, k)].items = SubSeq(@, 1, p - 1) \o SubSeq(@, p + 1, Len(@))]
Singles(s) == [j \in DOMAIN s |-> <<s[j]>>]
RECURSIVE XLen(_)
XLen(h) == IF h = <<>> THEN 0 ELSE Len(Head(h)) + XLen(Tail(h))
Side(dc) == (dc % 2) + 1
Other(dc) == ((dc + 1) % 2) + 1

(* -- Group (diplotype.py:227-232): by number group, in input order -- *)
RECURSIVE GroupFrom(_, _, _)
GroupFrom(in, i, G) == IF i >= N(in) THEN G ELSE GroupFrom(in, i + 1, Push(G, Key(in, i), i))
PhGroup(in, st) == [st EXCEPT !.groups = GroupFrom(in, 0, <<>>)]

(* -- Placeholders (233-238) -- *)
PhPlaceholders(in, st) ==
    IF ~in.del.has THEN st
    ELSE IF N(in) = 0 THEN [st EXCEPT !.groups = Push(Push(@, in.del.key, -1), in.del.key, -1)]
    ELSE IF N(in) = 1 THEN [st EXCEPT !.groups = Push(@, in.del.key, -1)]
    ELSE st

(* -- Tandems (245-250): while major_dict[ta] and major_dict[tb]: pair the first of each -- *)
(* shipped code: `del major_dict[ta][0], major_dict[tb][0]` - for ta = tb this pairs copy    *)
(* [0] with ITSELF and deletes two entries (IndexError when only one is left).               *)
(* in.fix: pair [0] with [1] when ta = tb and loop only while two are left.                  *)
RECURSIVE TandemLoop(_, _, _, _)
TandemLoop(fix, st, ta, tb) ==
    LET G1 == Touch(st.groups, ta) IN
    IF Items(G1, ta) = <<>> THEN [st EXCEPT !.groups = G1]       \* `and` short-circuits: tb is not read
    ELSE
    LET G2 == Touch(G1, tb) IN
    IF Items(G2, tb) = <<>> THEN [st EXCEPT !.groups = G2]
    ELSE IF fix /\ ta = tb /\ Len(Items(G2, ta)) < 2 THEN [st EXCEPT !.groups = G2]
    ELSE
    LET second == IF fix /\ ta = tb THEN 2 ELSE 1
        a  == Items(G2, ta)[1]
        b  == Items(G2, tb)[second]
        d2 == [st.d EXCEPT ![Side(st.dc)] = Append(@, <<a, b>>)]
    IN  IF fix
        THEN TandemLoop(fix, [st EXCEPT !.groups = DelAt(DelAt(G2, tb, second), ta, 1), !.d = d2, !.dc = @ + 1], ta, tb)
        ELSE LET G3 == DelAt(G2, ta, 1) IN
             IF Items(G3, tb) = <<>>
             THEN [st EXCEPT !.groups = G3, !.d = d2, !.dc = @ + 1, !.err = "IndexError"]
             ELSE TandemLoop(fix, [st EXCEPT !.groups = DelAt(G3, tb, 1), !.d = d2, !.dc = @ + 1], ta, tb)
RECURSIVE TandemsFrom(_, _, _)
TandemsFrom(in, st, t) ==
    IF t > Len(in.tandems) \/ st.err # "" THEN st
    ELSE TandemsFrom(in, TandemLoop(in.fix, st, in.tandems[t][1], in.tandems[t][2]), t + 1)
PhTandems(in, st) == IF N(in) > 2 THEN TandemsFrom(in, st, 1) ELSE st

(* -- SplitSingleGroup (257-264): 1,1,1,1 -> 1+1 / 1+1 -- *)
PhSplitSingleGroup(in, st) ==
    IF Len(st.groups) = 1 /\ Len(st.groups[1].items) % 2 = 0 THEN
        LET it == st.groups[1].items
            hf == Len(it) \div 2
            d1 == [st.d EXCEPT ![Side(st.dc)] = @ \o Singles(SubSeq(it, 1, hf))]
            d2 == [d1 EXCEPT ![Side(st.dc + 1)] = @ \o Singles(SubSeq(it, hf + 1, Len(it)))]
        IN  [st EXCEPT !.d = d2, !.dc = @ + 2, !.groups = <<>>]
    ELSE st

(* -- Duplicates (265-271) / Rest (274-280): whole groups onto the shorter side -- *)
RECURSIVE PlaceFrom(_, _, _)
PlaceFrom(st, g, minLen) ==
    IF g > Len(st.groups) THEN st
    ELSE IF Len(st.groups[g].items) >= minLen THEN
        LET dc1 == IF XLen(st.d[Side(st.dc)]) > XLen(st.d[Other(st.dc)]) THEN st.dc + 1 ELSE st.dc
        IN  PlaceFrom([st EXCEPT !.d[Side(dc1)] = @ \o Singles(st.groups[g].items),
                                 !.groups[g].items = <<>>,
                                 !.dc = dc1 + 1], g + 1, minLen)
    ELSE PlaceFrom(st, g + 1, minLen)
PhDuplicates(in, st) == PlaceFrom(st, 1, 2)
PhRest(in, st) == PlaceFrom(st, 1, 1)

(* -- Rebalance (284-288) -- *)
PhRebalance(in, st) ==
    IF st.d[2] # <<>> THEN st
    ELSE IF Len(st.d[1]) > 1 THEN
        [st EXCEPT !.d = << SubSeq(st.d[1], 1, Len(st.d[1]) - 1), <<st.d[1][Len(st.d[1])]>> >>]
    ELSE IF Len(st.d[1]) = 1 /\ Len(st.d[1][1]) = 2 THEN
        [st EXCEPT !.err = "TypeError"]     \* `diplotype = diplotype[0][0]`: two ints, flatten() fails
    ELSE st

(* -- FlattenSort (290-306): stable natural sort of the units by their first name, expand, -- *)
(*    then stable natural sort of the two haplotypes by their name lists                      *)
RECURSIVE InsertSorted(_, _)
InsertSorted(s, x) ==
    IF s = <<>> THEN <<x>>
    ELSE IF TokLess(x.t, Head(s).t) THEN <<x>> \o s
    ELSE <<Head(s)>> \o InsertSorted(Tail(s), x)
RECURSIVE StableSort(_)
StableSort(s) == IF s = <<>> THEN <<>> ELSE InsertSorted(StableSort(SubSeq(s, 1, Len(s) - 1)), s[Len(s)])
RECURSIVE Expand(_)
Expand(s) == IF s = <<>> THEN <<>> ELSE Head(s).e \o Expand(Tail(s))
Flat(in, h) == Expand(StableSort([j \in DOMAIN h |-> [e |-> h[j], t |-> Nm(in, h[j][1])]]))
FlattenSort(in, st) ==
    LET a == Flat(in, st.d[1])
        b == Flat(in, st.d[2])
    IN  IF NamesLess(Names(in, b), Names(in, a)) THEN <<b, a>> ELSE <<a, b>>

(* the whole heuristic as one operator: [res, err, at] *)
Arrange(in) ==
    LET s1 == PhPlaceholders(in, PhGroup(in, St0))
        s2 == PhTandems(in, s1)
    IN  IF s2.err # "" THEN [res |-> <<>>, err |-> s2.err, at |-> "Tandems"]
        ELSE LET s3 == PhRebalance(in, PhRest(in, PhDuplicates(in, PhSplitSingleGroup(in, s2))))
             IN  IF s3.err # "" THEN [res |-> <<>>, err |-> s3.err, at |-> "Rebalance"]
                 ELSE [res |-> FlattenSort(in, s3), err |-> "", at |-> ""]

(* ---- as a state machine (one action per phase) ---- *)
VARIABLES in, st, pc, res
vars == <<in, st, pc, res>>

Step(from, Ph(_, _), to) ==
    /\ pc = from
    /\ LET s == Ph(in, st) IN
        /\ st' = s
        /\ pc' = IF s.err # "" THEN "crash" ELSE to
    /\ UNCHANGED <<in, res>>

Group            == Step("Group", PhGroup, "Placeholders")
PlaceholdersStep == Step("Placeholders", PhPlaceholders, "Tandems")
Tandems          == Step("Tandems", PhTandems, "SplitSingleGroup")
SplitSingleGroup == Step("SplitSingleGroup", PhSplitSingleGroup, "Duplicates")
Duplicates       == Step("Duplicates", PhDuplicates, "Rest")
Rest             == Step("Rest", PhRest, "Rebalance")
Rebalance        == Step("Rebalance", PhRebalance, "FlattenSort")
FlattenSortStep  ==
    /\ pc = "FlattenSort"
    /\ res' = FlattenSort(in, st)
    /\ pc' = "done"
    /\ UNCHANGED <<in, st>>

Next == \/ Group \/ PlaceholdersStep \/ Tandems \/ SplitSingleGroup
        \/ Duplicates \/ Rest \/ Rebalance \/ FlattenSortStep

(* ---- invariants of the heuristic (checked by MC_Diplotype) ---- *)
Done == pc = "done"
Completes            == pc # "crash"
InvEachCopyOnce      == Done => WellFormed(in, res) /\ EachCopyOnce(in, res)
InvBothNonEmpty      == Done => BothNonEmpty(in, res)
InvDeletionShown     == Done => DeletionShown(in, res)
InvTandemsAdjacent   == Done => TandemsAdjacent(in, res)
InvNaturalOrder      == Done => NaturalOrder(in, res)
InvTandemUnitsInOrder == Done => TandemUnitsInOrder(in, res)
(* for one or two copies the printed string does not depend on the order of the input *)
InvOrderFree12 ==
    (Done /\ N(in) = 2) =>
        LET sw == [in EXCEPT !.copies = <<in.copies[2], in.copies[1]>>]
            o  == Arrange(sw)
        IN  o.err = "" /\ Shown(sw, o.res) = Shown(in, res)
(* the operator form and the state machine are the same algorithm *)
InvArrangeIsMachine == Done => (Arrange(in).err = "" /\ Arrange(in).res = res)
(* nothing is lost or invented on the way: groups + placed elements hold every index once *)
RECURSIVE GroupItems(_)
GroupItems(G) == IF G = <<>> THEN <<>> ELSE Head(G).items \o GroupItems(Tail(G))
RECURSIVE Elems(_)
Elems(h) == IF h = <<>> THEN <<>> ELSE Head(h) \o Elems(Tail(h))
Conserved ==
    (pc \notin {"Group", "done", "crash"}) =>
        LET all == Reals(GroupItems(st.groups) \o Elems(st.d[1]) \o Elems(st.d[2]))
        IN  Len(all) = N(in) /\ SeqRange(all) = 0..(N(in) - 1)
=============================================================================
