----------------------------- MODULE MajorModel -----------------------------
(***************************************************************************)
(* Major star-allele calling (major.py).                                   *)
(*                                                                         *)
(* SEMANTIC LAYER: the property-level definition of what estimate_major    *)
(* may return for a case c (a record, see below): the admissible allele    *)
(* multisets, their fit error and the set of all of them within the gap.   *)
(* It never mentions solver variables.                                     *)
(*                                                                         *)
(* Case record c:                                                          *)
(*   p       parameters [thrN, thrD, minCov10, cnMax, novelPen, gapN, gapD]*)
(*           (novelPen in fixed-point units)                               *)
(*   sites   Seq of Filter site records (sites with a catalogued core       *)
(*           variant), position-sorted                                     *)
(*   vars    Seq([si, ins]) catalogued function-altering (core) variants:  *)
(*           site index, is-insertion                                       *)
(*   cfgs    Seq([name, cn: Seq(Nat)]) configurations; cn per site index:  *)
(*           gene copies the configuration has at that site                 *)
(*   struct  Seq([cfg, n]) the gene structure: configuration index -> count *)
(*   alleles Seq([name, cfg, core: Seq(var index)]) catalogued majors       *)
(***************************************************************************)
EXTENDS Filter

SiteCn(c, i) == SumDom(c.struct, LAMBDA k : c.struct[k].n * c.cfgs[c.struct[k].cfg].cn[i])
StructCount(c, g) == SumDom(c.struct, LAMBDA k : IF c.struct[k].cfg = g THEN c.struct[k].n ELSE 0)
StructCfgs(c) == {c.struct[k].cfg : k \in DOMAIN c.struct}

(* the op record of variant v / of the reference at site i (a zero record if absent) *)
NoOp == [op |-> "", good |-> 0, low |-> 0, ins |-> FALSE, var |-> 0, tab |-> <<>>, elig |-> TRUE]
OpsOf(c, i, P(_)) == {k \in DOMAIN c.sites[i].ops : P(c.sites[i].ops[k])}
VarOp(c, v) ==
    LET i == c.vars[v].si
        K == OpsOf(c, i, LAMBDA o : o.var = v)
    IN IF K = {} THEN NoOp ELSE c.sites[i].ops[CHOOSE k \in K : TRUE]
RefOp(c, i) ==
    LET K == OpsOf(c, i, LAMBDA o : o.op = "_")
    IN IF K = {} THEN NoOp ELSE c.sites[i].ops[CHOOSE k \in K : TRUE]

VarCov(c, v)  == FCov(c.p, c.sites[c.vars[v].si], VarOp(c, v), SiteCn(c, c.vars[v].si))
VarObs(c, v)  == Obs(c.p, c.sites[c.vars[v].si], VarOp(c, v), SiteCn(c, c.vars[v].si))
RefObs(c, i)  == Obs(c.p, c.sites[i], RefOp(c, i), SiteCn(c, i))
VarExact(c, v) == ObsExact(c.p, c.sites[c.vars[v].si], VarOp(c, v), SiteCn(c, c.vars[v].si))
RefExact(c, i) == ObsExact(c.p, c.sites[i], RefOp(c, i), SiteCn(c, i))

(* observed core variants: catalogued core variants with filtered support *)
Observed0(c) == {v \in DOMAIN c.vars : VarCov(c, v) > 0}
Core(c, a) == SeqToSet(c.alleles[a].core)

(* Everything that depends on the evidence only, evaluated ONCE per case (TLCEval forces  *)
(* TLC to normalise the value instead of re-evaluating the definition at every use).      *)
Derive(c) ==
    LET obs == TLCEval(Observed0(c)) IN
    [ obs    |-> obs,
      sites  |-> TLCEval({c.vars[v].si : v \in obs}),
      vobs   |-> TLCEval([v \in DOMAIN c.vars |-> IF v \in obs THEN VarObs(c, v) ELSE 0]),
      robs   |-> TLCEval([i \in DOMAIN c.sites |-> RefObs(c, i)]),
      (* candidates: configuration is part of the structure and every core variant is supported *)
      cand   |-> TLCEval({a \in DOMAIN c.alleles :
                    c.alleles[a].cfg \in StructCfgs(c) /\ Core(c, a) \subseteq obs}),
      (* number of observation terms that are not exactly representable: error bound of Score *)
      inexact |-> Cardinality({v \in obs : ~VarExact(c, v)})
                + Cardinality({i \in {c.vars[v].si : v \in obs} : ~RefExact(c, i)}),
      edge   |-> \E i \in DOMAIN c.sites : HasEdge(c.p, c.sites[i], SiteCn(c, i)) ]

Observed(c) == Derive(c).obs
Candidates(c) == Derive(c).cand
CandOf(c, d, g) == {a \in d.cand : c.alleles[a].cfg = g}

(* all multisets with exactly struct[g] alleles of configuration g, as sorted sequences *)
RECURSIVE CombosFrom(_, _, _)
CombosFrom(c, d, k) ==
    IF k > Len(c.struct) THEN {<<>>}
    ELSE {x \o y : x \in BagsOf(CandOf(c, d, c.struct[k].cfg), c.struct[k].n), y \in CombosFrom(c, d, k + 1)}
MergedStruct(c) == \A j, k \in DOMAIN c.struct : j # k => c.struct[j].cfg # c.struct[k].cfg
Combos(c, d) == CombosFrom(c, d, 1)

Carriers(c, x, v) == Cardinality({i \in DOMAIN x : v \in Core(c, x[i])})
Novel(c, d, x) == {v \in d.obs : Carriers(c, x, v) = 0}
(* at most one novel non-insertion variant per site *)
Admissible(c, d, x) ==
    \A i \in d.sites :
        Cardinality({v \in Novel(c, d, x) : c.vars[v].si = i /\ ~c.vars[v].ins}) <= 1
(* copies that show the reference at site i: the allele has gene copies there and no      *)
(* non-insertion core variant at that site                                                *)
ShowsRef(c, a, i) ==
    /\ c.cfgs[c.alleles[a].cfg].cn[i] > 0
    /\ ~\E v \in Core(c, a) : c.vars[v].si = i /\ ~c.vars[v].ins
RefCarriers(c, x, i) == Cardinality({k \in DOMAIN x : ShowsRef(c, x[k], i)})

FitError(c, d, x) ==
    LET nov == Novel(c, d, x) IN
      SumOver(d.obs, LAMBDA v :
            Abs(d.vobs[v] - U * Carriers(c, x, v) - (IF v \in nov THEN U ELSE 0)))
    + SumOver(d.sites, LAMBDA i : Abs(d.robs[i] - U * RefCarriers(c, x, i)))
Penalty(c, d, x) ==
    LET k == Cardinality(Novel(c, d, x)) IN
    (IF k > 0 THEN c.p.novelPen ELSE 0) + (U \div 10) * k
Score(c, d, x) == FitError(c, d, x) + Penalty(c, d, x)

AdmissibleCombos(c, d) == {x \in Combos(c, d) : Admissible(c, d, x)}
=============================================================================
