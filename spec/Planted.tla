------------------------------ MODULE Planted ------------------------------
(***************************************************************************)
(* C01: error-free reads simulated from a catalogued genotype are called   *)
(* as that genotype.  The run is the Pipeline; this module states the two  *)
(* end-to-end relations between the PLANTED haplotypes (history variable   *)
(* of the run) and the reported solutions, using CNModel to decide the     *)
(* property's precondition "the planted gene structure is an optimal       *)
(* explanation of the region depths" from the recorded normalised depths.  *)
(*                                                                         *)
(* Case record e:                                                          *)
(*   cn        case record of CNModel built from the recorded region depths*)
(*             (all configurations of the gene, M = the stage's maximum)   *)
(*   planted   [struct: Seq(cfg index, deletion excluded),                 *)
(*              majors: Seq(Str) sorted, variants: Seq([v, n]) variant ->  *)
(*              number of planted copies carrying it]                      *)
(*   reported  Seq([struct: Seq(cfg index), majors: Seq(Str) sorted,       *)
(*              variants: Seq([v, n])])   the best solutions               *)
(*   err       "" or the error the run ended with                          *)
(***************************************************************************)
EXTENDS CNModel

AsBag(c, s) == [g \in Cfgs(c) |-> CountIn(s, g)]
VarBag(vs) == {<<vs[i].v, vs[i].n>> : i \in DOMAIN vs}

(* is the planted structure optimal (within the rounding band) among all explanations? *)
PlantedOptimal(e) ==
    LET T == TLCEval(Table(e.cn))
        P == AsBag(e.cn, e.planted.struct)
        eps == ObjEps(e.cn) + 1
    IN  IF T = {} THEN "no"
        ELSE LET best == MinSet({t[2] : t \in T})
                 mine == {t[2] : t \in {u \in T : u[1] = P}}
             IN IF mine = {} THEN "no"
                ELSE IF MinSet(mine) <= best - eps \/ (MinSet(mine) <= best + eps /\ Cardinality({t \in T : t[2] <= best + eps /\ t[1] # P}) = 0) THEN "yes"
                ELSE IF MinSet(mine) <= best + eps THEN "tie"
                ELSE "no"

PlantedVerdict(e) ==
    LET opt == PlantedOptimal(e) IN
    IF opt = "no" THEN "NA:PlantedStructureNotOptimal"
    ELSE IF e.err # "" THEN (IF opt = "yes" THEN "PlantedAmongBest(run failed)" ELSE "NA:Tie")
    ELSE IF opt = "yes" /\ ~\E i \in DOMAIN e.reported : e.reported[i].majors = e.planted.majors THEN "PlantedAmongBest"
    ELSE IF \E i \in DOMAIN e.reported :
              AsBag(e.cn, e.reported[i].struct) = AsBag(e.cn, e.planted.struct)
              /\ VarBag(e.reported[i].variants) # VarBag(e.planted.variants)
         THEN "NothingAddedNothingLost"
    ELSE IF opt = "tie" THEN "NA:Tie" ELSE ""
=============================================================================
