-------------------------------- MODULE Aldy --------------------------------
(***************************************************************************)
(* Composition: one gene of one genotype() run, from the loaded sample to  *)
(* the written result.  It couples                                         *)
(*   Guards   (C19: routes, no-data guards, error path, simple-output line)*)
(*   Pipeline (C10: structure -> major -> selection -> minor -> selection) *)
(* over disjoint variables by JOINT actions: the structure step of Guards  *)
(* is Pipeline's EstimateCN, Guards' abstract "stages succeed / fail" step *)
(* is the rest of Pipeline.  The stage contracts themselves are CNModel,   *)
(* MajorModel, MinorModel (oracles here); evidence construction is Pileup, *)
(* Depth, VcfInput, DumpReplay; the catalogue is CatalogueBuild + Coords;  *)
(* parameters are Params; the result text is Diplotype + Output.           *)
(* TLC checks that the properties of both components survive the coupling  *)
(* and the coupling invariants below (spec/mc/MC_Aldy).                    *)
(***************************************************************************)
EXTENDS Core

CONSTANTS MaxAvg, Mins

VARIABLES facts, gpc, struct, greport, gerr, raised, logged, out,           \* Guards
          ppc, cnS, majS, selMaj, minS, preport, perr, todo, gapU             \* Pipeline
gvars == <<facts, gpc, struct, greport, gerr, raised, logged, out>>
pvars == <<ppc, cnS, majS, selMaj, minS, preport, perr, todo, gapU>>
vars == <<gvars, pvars>>

G == INSTANCE Guards WITH DepthGuardAlways <- TRUE, LocusByRegions <- TRUE, SimpleLineAlways <- TRUE,
                          pc <- gpc, report <- greport, err <- gerr
P == INSTANCE Pipeline WITH pc <- ppc, report <- preport, err <- perr

Init ==
    /\ G!Init
    /\ gapU \in {0, 1000}
    /\ ppc = "cn" /\ cnS = <<>> /\ majS = <<>> /\ selMaj = <<>> /\ minS = <<>> /\ preport = <<>> /\ perr = "" /\ todo = 0

(* stage oracles of the bounded model *)
CNChoices == {<<[key |-> 1, score |-> 0]>>, <<[key |-> 1, score |-> 0], [key |-> 2, score |-> 500]>>}
MajChoices == {<<>>, <<[key |-> 1, raw |-> 0]>>, <<[key |-> 1, raw |-> 0], [key |-> 2, raw |-> 600]>>}
Orders(S) == {o \in [1..Cardinality(S) -> S] : \A a, b \in DOMAIN o : a # b => o[a] # o[b]}
Rescale(c, cn) == (2 * c * (cn + U) + (P!MinCN + U)) \div (2 * (P!MinCN + U))
MinorFrom(raws) ==
    LET ks == {k \in DOMAIN selMaj : raws[k] >= 0}
        mk(k) == LET j == selMaj[k]
                     carried == raws[k] + majS[j].score - P!MinSelMajor
                 IN [key |-> k, maj |-> j, raw |-> raws[k], carried |-> carried,
                     final |-> Rescale(carried, cnS[majS[j].cn].score)]
    IN  [i \in 1..Cardinality(ks) |-> mk(CHOOSE k \in ks : Cardinality({q \in ks : q < k}) = i - 1)]

(* ---- joint actions -------------------------------------------------------------------- *)
GuardOnly ==          \* everything before the structure stage, and the guard errors
    /\ (G!NeutralEmpty \/ G!DiploidTooLow \/ G!Loaded \/ G!Prefix \/ G!AvgBelowMin \/ G!DepthOK \/ G!CNTooLow)
    /\ UNCHANGED pvars
Structure ==          \* cn.estimate_cn returned structures
    /\ (G!UserStructure \/ G!Estimated)
    /\ \E s \in CNChoices : P!EstimateCN(s)
NoStructure ==        \* ... or none
    /\ G!NoStructure /\ P!EstimateCN(<<>>)
Stages ==             \* the major / minor stages and the first selection: invisible to Guards
    /\ gpc = "stages" /\ UNCHANGED gvars
    /\ \/ \E s \in (IF struct = "del" THEN MajChoices \ {<<>>} ELSE MajChoices) : P!EstimateMajor(s)
       \/ \E o \in Orders({i \in DOMAIN majS : P!MajorSelected(i)}) : P!SelectMajor(o)
       \/ (ppc = "minor" /\ \E r \in [DOMAIN selMaj -> (IF struct = "del" THEN {0} ELSE {0, 2900, -1})] : P!EstimateMinor(MinorFrom(r)))
StagesFail ==         \* a stage returned nothing: "No ... solutions found"
    /\ ppc = "failed" /\ G!StagesFail /\ UNCHANGED pvars
Write ==              \* final selection and output
    /\ ppc = "final" /\ G!Write
    /\ \E o \in Orders({i \in DOMAIN minS : P!FinalSelected(i)}) : P!SelectFinal(o)

Next == GuardOnly \/ Structure \/ NoStructure \/ Stages \/ StagesFail \/ Write
Spec == Init /\ [][Next]_vars /\ WF_vars(Next)

(* ---- properties ------------------------------------------------------------------------ *)
(* of the components *)
NoCallFromNoData         == G!NoCallFromNoData
ErrorIsExplained         == G!ErrorIsExplained
SimpleOutputEmptyLine    == G!SimpleOutputEmptyLine
PseudogeneOnlyIsDeletion == G!PseudogeneOnlyIsDeletion
ReportIsArgminBand       == P!ReportIsArgminBand
CarryOver                == P!CarryOver
ErrorMeansNoReport       == P!ErrorMeansNoReport
(* of the coupling *)
SameVerdict ==            \* both components agree on "a genotype was reported"
    /\ (gpc = "done") <=> (ppc = "done")
    /\ (gpc = "done") => (greport # <<>> /\ preport # <<>>)
    /\ (preport # <<>>) => gpc = "done"
NoStageRunsWithoutData == \* no stage is ever entered for a sample the guards must reject
    (ppc # "cn" \/ cnS # <<>>) => ~G!MustFail(facts)
GuardFailureLeavesPipelineUntouched ==
    (gpc = "failed" /\ ppc = "cn") => (cnS = <<>> /\ majS = <<>> /\ minS = <<>> /\ preport = <<>>)
Terminates == <>(gpc \in {"done", "failed"})
(* anti-vacuity: expected to be VIOLATED (a run that reports two solutions exists, a stage failure exists) *)
NeverTwoReported == Len(preport) < 2
NeverStageFailure == ~(gpc = "failed" /\ ppc = "failed")
=============================================================================
