----------------------------- MODULE Linearise -----------------------------
(***************************************************************************)
(* The two linearisation helpers of aldy.lpinterface (C05):                *)
(*   prod(res, terms):  res <= t for every term,  res >= sum(terms)-(n-1)  *)
(*   abssum(vars):      one helper a >= 0 per var with a+v >= 0, a-v >= 0  *)
(* Checked here at constant level (TLC evaluates the ASSUMEs) and emitted  *)
(* as replay cases for the real helpers (binding A).                       *)
(***************************************************************************)
EXTENDS Integers, FiniteSets, Sequences, TLC, Json, IOUtils, SequencesExt, FiniteSetsExt

MaxN == 4
K == 2                                       \* pinned values range over -K..K

SumF(f) == FoldFunction(LAMBDA x, y : x + y, 0, f)
Abs(x) == IF x < 0 THEN -x ELSE x
And(f) == IF \A i \in DOMAIN f : f[i] = 1 THEN 1 ELSE 0

(* feasible region the helper constraints leave for the result variable *)
ProdFeasible(f, r) == (\A i \in DOMAIN f : r <= f[i]) /\ r >= SumF(f) - (Len(f) - 1)
AbsFeasible(v, a)  == a >= 0 /\ a + v >= 0 /\ a - v >= 0

Factors == UNION {[1..n -> {0, 1}] : n \in 1..MaxN}
ProdOK == \A f \in Factors : \A r \in {0, 1} : ProdFeasible(f, r) <=> r = And(f)
AbsOK  == \A v \in (-K)..K : \A a \in 0..(2 * K) : AbsFeasible(v, a) <=> a >= Abs(v)
(* with a positive objective coefficient the optimum pushes the helper to its lower bound *)
AbsMinOK == \A v \in (-K)..K :
    LET feasA == {a \in 0..(2 * K) : AbsFeasible(v, a)}
    IN  (CHOOSE a \in feasA : \A b \in feasA : a <= b) = Abs(v)
(* with coefficient 0 the helper is NOT pinned: explicit side condition of abssum *)
AbsFreeAtZeroCoeff == \E v \in (-K)..K : \E a \in 0..(2 * K) : AbsFeasible(v, a) /\ a # Abs(v)

ASSUME ProdOK
ASSUME AbsOK
ASSUME AbsMinOK
ASSUME AbsFreeAtZeroCoeff

(* ---- replay cases ------------------------------------------------------- *)
Values == UNION {[1..n -> (-K)..K] : n \in 1..MaxN}
Coeffs(n, kind) == [i \in 1..n |-> IF kind = 1 THEN 1 ELSE IF kind = 2 THEN i ELSE (IF i = 1 THEN 0 ELSE i)]
                   \* all ones / 1,2,3,4 / 0,2,3,4 (a term switched off: its helper is not pinned, its weight is 0)
ProdCases == {[k |-> "prod", f |-> f, expect |-> And(f)] : f \in Factors}
AbsCases  == {[k |-> "abs", v |-> v, c |-> Coeffs(Len(v), kind),
               expect |-> SumF([i \in DOMAIN v |-> Coeffs(Len(v), kind)[i] * Abs(v[i])]),
               helpers |-> [i \in DOMAIN v |-> Abs(v[i])]]
              : v \in Values, kind \in {1, 2, 3}}
ASSUME ndJsonSerialize(IOEnv.OUT_FILE, SetToSeq(ProdCases) \o SetToSeq(AbsCases))
ASSUME PrintT(<<"V", "CASES", Cardinality(ProdCases), Cardinality(AbsCases)>>)

VARIABLE x
Init == x = 0
Next == x' = x
Spec == Init /\ [][Next]_x
=============================================================================
