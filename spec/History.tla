------------------------------ MODULE History ------------------------------
(***************************************************************************)
(* C14 -- sequences of public operations over one (or several) aldy        *)
(* processes: genotyping is deterministic, isolated and leaves the         *)
(* database untouched.                                                     *)
(*                                                                         *)
(* The model IS the claim: every public operation is a pure function of    *)
(* its arguments, of the loaded catalogue of the genes it reads and of the *)
(* evidence of the sample it reads; the only genuinely shared mutable      *)
(* state of a process is the debug dictionary aldy.common.json, which is   *)
(* written and never read.  One action per public call.                    *)
(*                                                                         *)
(*   db[g]     catalogue digest of the loaded gene object g (a version     *)
(*             number: 0 = what a fresh load gives)                        *)
(*   ev[g]     evidence digest of the Coverage object of gene g / sample   *)
(*   memo      first result seen per (operation, arguments) -- the         *)
(*             monitor's memory; it survives FreshProcess                  *)
(*   store     the process-wide debug dictionary (key -> what was written) *)
(*   hashSeed  PYTHONHASHSEED of the current process                       *)
(*   hist      the operations performed so far (the generated history)     *)
(*   last      the operation performed by the last step and its result     *)
(*                                                                         *)
(* Operations are records [k, a, g, n]: kind, name/argument text, sequence *)
(* of gene (or candidate) names, a number (hash seed).  Results are        *)
(* records [tag, d, e, x, per]: d/e = digests of the catalogue/evidence    *)
(* the call READ (a result may depend on nothing else), x = any further    *)
(* dependency (0 in the design; the hazard actions put the hash seed or a  *)
(* stale entry there), per = per-gene (per-candidate) parts.               *)
(*                                                                         *)
(* Hazard actions (AccessorMutatesDb, FilterFromLastCandidate,             *)
(* TieBreakFromHashOrder; ResultFromStore, FailingGeneLeaks) are           *)
(* transcriptions of code found in /repo (solutions.py:88-95,              *)
(* minor.py:57-74, minor.py:444-450) or of plausible regressions (a cache  *)
(* keyed by gene name only; state surviving a failed gene); they are NOT   *)
(* part of Next.  NextH adds the ones named in Hazards, and each   *)
(* of them breaks the monitor property it is named after (anti-vacuity).   *)
(***************************************************************************)
EXTENDS Naturals, Sequences, FiniteSets, TLC

CONSTANTS Ops,        \* the operation alphabet (set of operation records)
          AllGenes,   \* every gene database name that occurs in Ops
          Failing,    \* the ones whose genotyping ends with a reported error
          Struct,     \* candidate major solution -> its gene structure (text)
          MaxLen,     \* bound on the history length
          Hazards     \* names of the hazard actions added to Next

VARIABLES db, ev, memo, store, hashSeed, hist, last
vars == <<db, ev, memo, store, hashSeed, hist, last>>

Op(k, a, g, n) == [k |-> k, a |-> a, g |-> g, n |-> n]
KeyOf(op) == [k |-> op.k, a |-> op.a, g |-> op.g]          \* (operation, arguments)
NoOp == Op("Init", "", <<>>, 0)
NoRes == [of |-> KeyOf(NoOp), tag |-> "none", d |-> <<>>, e |-> <<>>, x |-> 0, per |-> <<>>]
ResultOps == {"Genotype", "GenotypeMulti", "Stage", "Accessor", "Write", "Query", "Refine"}

SeqRange(s) == {s[i] : i \in DOMAIN s}
Last(s) == s[Len(s)]
OkGenes(s) == SelectSeq(s, LAMBDA g : g \notin Failing)

(* ------------------------------------------------------------------------ *)
(* Semantic layer: what a call returns, as a function of what it may read.  *)
(* D, E: the catalogue / evidence functions, X: the extra dependency.       *)
(* ------------------------------------------------------------------------ *)
PerGene(key, D, E, X) ==       \* key: the (operation, arguments) of the single-gene call this part answers
    [of |-> key, tag |-> IF key.g[1] \in Failing THEN "error" ELSE "ok", d |-> D[key.g[1]], e |-> E[key.g[1]], x |-> X]
SingleOf(p) == [of |-> p.of, tag |-> p.tag, d |-> <<p.d>>, e |-> <<p.e>>, x |-> p.x, per |-> <<>>]
SingleKey(g, a) == [k |-> "Genotype", a |-> a, g |-> <<g>>]
CandKey(c) == [k |-> "RefineCand", a |-> "", g |-> <<c>>]
ResultOf(op, D, E, X) ==
    CASE op.k = "Genotype" ->
            SingleOf(PerGene(KeyOf(op), D, E, X))
      [] op.k = "GenotypeMulti" ->
            \* one part per gene that did not fail, in list order; a failing gene contributes nothing
            [of |-> KeyOf(op), tag |-> "multi", d |-> <<>>, e |-> <<>>, x |-> 0,
             per |-> [i \in DOMAIN OkGenes(op.g) |-> PerGene(SingleKey(OkGenes(op.g)[i], op.a), D, E, X)]]
      [] op.k = "Refine" ->
            \* Stage(minor, L): the refinement of candidate c is a function of c (its own structure)
            [of |-> KeyOf(op), tag |-> "refine", d |-> <<>>, e |-> <<>>, x |-> 0,
             per |-> [i \in DOMAIN op.g |-> [of |-> CandKey(op.g[i]), tag |-> Struct[op.g[i]], d |-> 0, e |-> 0, x |-> X]]]
      [] OTHER ->
            [of |-> KeyOf(op), tag |-> "ok", d |-> [i \in DOMAIN op.g |-> D[op.g[i]]],
             e |-> [i \in DOMAIN op.g |-> E[op.g[i]]], x |-> X, per |-> <<>>]
Fresh == [g \in AllGenes |-> 0]
Sem(op) == ResultOf(op, Fresh, Fresh, 0)       \* the oracle: fresh catalogue, fresh evidence, nothing else
Impl(op) == ResultOf(op, db, ev, 0)            \* what the design computes in the current state

(* ------------------------------------------------------------------------ *)
(* The monitor's memory.                                                    *)
(* ------------------------------------------------------------------------ *)
Entries(op, res) ==          \* the (key, value) pairs one call contributes
    CASE op.k = "GenotypeMulti" -> {<<res.per[i].of, SingleOf(res.per[i])>> : i \in DOMAIN res.per}
                                   \cup {<<KeyOf(op), res>>}
      [] op.k = "Refine" -> {<<res.per[i].of, SingleOf(res.per[i])>> : i \in DOMAIN res.per}
      [] op.k \in ResultOps -> {<<KeyOf(op), res>>}
      [] OTHER -> {}
MemoOK(m, key, val) == key \notin DOMAIN m \/ m[key] = val
RECURSIVE RememberAll(_, _)
RememberAll(m, S) ==
    IF S = {} THEN m
    ELSE LET kv == CHOOSE x \in S : TRUE
         IN RememberAll(IF kv[1] \in DOMAIN m THEN m ELSE (kv[1] :> kv[2]) @@ m, S \ {kv})

(* ------------------------------------------------------------------------ *)
(* Actions.                                                                  *)
(* ------------------------------------------------------------------------ *)
Init ==
    /\ db = Fresh /\ ev = Fresh
    /\ memo = <<>> /\ store = <<>> /\ hashSeed = 0
    /\ hist = <<>> /\ last = [op |-> NoOp, res |-> NoRes]

Record(op, res) ==
    /\ last' = [op |-> op, res |-> res]
    /\ memo' = RememberAll(memo, Entries(op, res))
    /\ hist' = Append(hist, op)

(* any operation that returns something: a pure call; it leaves a note in the debug store *)
Call(op) ==
    /\ Len(hist) < MaxLen /\ op \in Ops /\ op.k \in ResultOps
    /\ Record(op, Impl(op))
    /\ store' = (KeyOf(op) :> Impl(op)) @@ store
    /\ UNCHANGED <<db, ev, hashSeed>>

(* the environment empties or litters the debug store between two calls *)
StoreOp(op) ==
    /\ Len(hist) < MaxLen /\ op \in Ops /\ op.k = "Store"
    /\ store' = IF op.a = "clear" THEN <<>>
                ELSE [key \in DOMAIN store |-> [store[key] EXCEPT !.tag = "poison", !.x = 99]]
    /\ Record(op, NoRes)
    /\ UNCHANGED <<db, ev, hashSeed>>

(* a new interpreter with another hash seed: everything is loaded afresh, the store is empty *)
FreshProcess(op) ==
    /\ Len(hist) < MaxLen /\ op \in Ops /\ op.k = "FreshProcess"
    /\ hist # <<>> /\ Last(hist).k # "FreshProcess" /\ op.n # hashSeed
    /\ hashSeed' = op.n /\ db' = Fresh /\ ev' = Fresh /\ store' = <<>>
    /\ Record(op, NoRes)

Next == \E op \in Ops : Call(op) \/ StoreOp(op) \/ FreshProcess(op)

(* ---- hazards (from the code; NOT part of Next) --------------------------- *)
(* solutions.py:88-95: SolvedAllele.mutations() does |= / -= on the set stored in the gene *)
AccessorMutatesDb(op) ==
    /\ Len(hist) < MaxLen /\ op \in Ops /\ op.k = "Accessor"
    /\ Record(op, Impl(op))
    /\ db' = [db EXCEPT ![op.g[1]] = @ + 1]
    /\ store' = (KeyOf(op) :> Impl(op)) @@ store
    /\ UNCHANGED <<ev, hashSeed>>
(* minor.py:57-74: the evidence filter uses the structure of the LAST candidate of the list for all *)
FilterFromLastCandidate(op) ==
    /\ Len(hist) < MaxLen /\ op \in Ops /\ op.k = "Refine"
    /\ LET r0 == Impl(op)
           r == [r0 EXCEPT !.per = [i \in DOMAIN op.g |-> [r0.per[i] EXCEPT !.tag = Struct[Last(op.g)]]]]
       IN Record(op, r) /\ store' = (KeyOf(op) :> r) @@ store
    /\ UNCHANGED <<db, ev, hashSeed>>
(* minor.py:444-450: a tie-break weight handed out in the iteration order of a set of tuples with strings *)
TieBreakFromHashOrder(op) ==
    /\ Len(hist) < MaxLen /\ op \in Ops /\ op.k \in {"Genotype", "Stage"}
    /\ LET r == ResultOf(op, db, ev, hashSeed)
       IN Record(op, r) /\ store' = (KeyOf(op) :> r) @@ store
    /\ UNCHANGED <<db, ev, hashSeed>>
(* a regression: results read back from the debug store under a key that ignores the arguments *)
ResultFromStore(op) ==
    /\ Len(hist) < MaxLen /\ op \in Ops /\ op.k \in ResultOps \ {"Refine", "GenotypeMulti"}
    /\ \E key \in DOMAIN store :
         /\ key.k = op.k /\ key.g = op.g
         /\ Record(op, store[key])
    /\ UNCHANGED <<db, ev, hashSeed, store>>

(* a regression: state left behind by a gene that failed reaches the genes processed after it in a multi-gene run *)
FailingGeneLeaks(op) ==
    /\ Len(hist) < MaxLen /\ op \in Ops /\ op.k = "GenotypeMulti"
    /\ LET before(g) == Cardinality({j \in DOMAIN op.g : op.g[j] \in Failing /\ \E i \in DOMAIN op.g : op.g[i] = g /\ j < i})
           r0 == Impl(op)
           r == [r0 EXCEPT !.per = [i \in DOMAIN r0.per |-> [r0.per[i] EXCEPT !.x = before(r0.per[i].of.g[1])]]]
       IN Record(op, r) /\ store' = (KeyOf(op) :> r) @@ store
    /\ UNCHANGED <<db, ev, hashSeed>>

NextH == \/ Next
         \/ \E op \in Ops :
              \/ ("AccessorMutatesDb" \in Hazards /\ AccessorMutatesDb(op))
              \/ ("FilterFromLastCandidate" \in Hazards /\ FilterFromLastCandidate(op))
              \/ ("TieBreakFromHashOrder" \in Hazards /\ TieBreakFromHashOrder(op))
              \/ ("ResultFromStore" \in Hazards /\ ResultFromStore(op))
              \/ ("FailingGeneLeaks" \in Hazards /\ FailingGeneLeaks(op))
Spec == Init /\ [][NextH]_vars

(* ------------------------------------------------------------------------ *)
(* The property, as action properties over <<vars, vars'>>.                  *)
(* ------------------------------------------------------------------------ *)
(* an operation with the same arguments returns memo[op, args] if defined *)
DeterministicStep == \A kv \in Entries(last'.op, last'.res) :
                        kv[1].k # "RefineCand" => MemoOK(memo, kv[1], kv[2])
Deterministic == [][DeterministicStep]_vars
(* no operation other than a (re)load changes the catalogue / the evidence *)
DbUntouchedStep == last'.op.k # "FreshProcess" => \A g \in AllGenes : db'[g] = db[g]
DbUntouched == [][DbUntouchedStep]_vars
EvUntouchedStep == last'.op.k # "FreshProcess" => \A g \in AllGenes : ev'[g] = ev[g]
EvUntouched == [][EvUntouchedStep]_vars
(* ... and after any history they equal a fresh load *)
EqualsFreshLoad == db = Fresh /\ ev = Fresh
(* per gene the multi-gene result is the single-gene result; a failing gene contributes nothing and changes nothing *)
MultiStep ==
    last'.op.k = "GenotypeMulti" =>
        LET op == last'.op
            res == last'.res
            ok == OkGenes(op.g)
        IN /\ Len(res.per) = Len(ok)
           /\ \A i \in DOMAIN res.per :
                /\ res.per[i].of = SingleKey(ok[i], op.a)
                /\ SingleOf(res.per[i]) = Sem(Op("Genotype", op.a, <<ok[i]>>, 0))
                /\ MemoOK(memo, SingleKey(ok[i], op.a), SingleOf(res.per[i]))
           /\ db' = db /\ ev' = ev
MultiIsUnionOfSingles == [][MultiStep]_vars
(* Stage(minor, L) restricted to candidate c is the same for every list L containing c, in every order *)
RefinementStep ==
    last'.op.k = "Refine" =>
        \A i \in DOMAIN last'.res.per :
            /\ MemoOK(memo, last'.res.per[i].of, SingleOf(last'.res.per[i]))
            /\ last'.res.per[i].tag = Struct[last'.res.per[i].of.g[1]]
RefinementIndependent == [][RefinementStep]_vars
(* results are functions of the arguments (and of what the call may read) only; the store may grow *)
StoreStep == last'.op.k \in ResultOps => last'.res = Sem(last'.op)
StoreIsWriteOnly == [][StoreStep]_vars

TypeOK == /\ Len(hist) <= MaxLen
          /\ hashSeed \in Nat
          /\ \A g \in AllGenes : db[g] \in Nat /\ ev[g] \in Nat
=============================================================================
