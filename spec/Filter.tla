------------------------------- MODULE Filter -------------------------------
(***************************************************************************)
(* Evidence and its filters (coverage.py:143-176,212-229; major.py:247-289; *)
(* minor.py:57-74).                                                         *)
(*                                                                          *)
(* Abstract evidence: a sequence of site records                            *)
(*   [pos, ops: Seq([op, good, low, ins, var, tab, elig])]                  *)
(* `good' / `low' = number of observations of that (site, op) that meet /   *)
(* do not meet BOTH quality thresholds (base quality >= min_quality and     *)
(* mapping quality >= min_mapq);  `ins' marks insertions (they do not count *)
(* towards the depth of a site);  `var' = index of the catalogued variant   *)
(* (0 if none; the reference op "_" has var = 0);  `tab' = <<>> or          *)
(* <<off, on>> = entry of the indel-realignment table, which overrides the  *)
(* pileup counts of that op and is not subject to the quality filter;      *)
(* `elig' = FALSE for ops a stage does not consider at all (minor stage:    *)
(* non-catalogued changes in introns), TRUE otherwise.                      *)
(*                                                                          *)
(* Parameters (record p): thrN/thrD = single-copy fraction threshold,       *)
(* minCov10 = 10 * min_coverage, cnMax.                                     *)
(***************************************************************************)
EXTENDS Core

HasTab(o) == o.tab # <<>>
(* step 1: quality filter -- only good observations remain *)
QCov(o) == IF HasTab(o) THEN o.tab[2] ELSE o.good
QPresent(o) == IF HasTab(o) THEN o.tab[2] > 0 ELSE o.good > 0
QDepth(s) == SumDom(s.ops, LAMBDA i : IF s.ops[i].ins \/ HasTab(s.ops[i]) THEN 0 ELSE s.ops[i].good)
QTotal(s, o) == IF HasTab(o) THEN o.tab[1] + o.tab[2] ELSE QDepth(s)

(* step 2: threshold filter.  cov >= max(min_coverage, total * thr / X), compared exactly; *)
(* X = cnMax for every op, and additionally X = cn(site) + 1/2 for non-reference ops.        *)
(* Returns "yes" | "no" | "edge" (exact equality with a fractional bound: float dependent).   *)
Cmp3(lhs, rhs) == IF lhs > rhs THEN "yes" ELSE IF lhs < rhs THEN "no" ELSE "edge"
And3(a, b) == IF a = "no" \/ b = "no" THEN "no" ELSE IF a = "edge" \/ b = "edge" THEN "edge" ELSE "yes"
MinCovOK(p, o) == 10 * QCov(o) >= p.minCov10
ThrMax(p, s, o) == Cmp3(QCov(o) * p.thrD * p.cnMax, QTotal(s, o) * p.thrN)
ThrCn(p, s, o, cn) == Cmp3(QCov(o) * p.thrD * (2 * cn + 1), 2 * QTotal(s, o) * p.thrN)
Passes3(p, s, o, cn) ==
    IF ~o.elig \/ ~QPresent(o) \/ ~MinCovOK(p, o) THEN "no"
    ELSE IF o.op = "_" THEN ThrMax(p, s, o)
    ELSE And3(ThrMax(p, s, o), ThrCn(p, s, o, cn))
(* an exact tie `cov = total*thr/X` passes in exact arithmetic; the code's floating-point     *)
(* evaluation may round either way, so callers treat "edge" as undecided.                     *)
Passes(p, s, o, cn) == Passes3(p, s, o, cn) # "no"

(* evidence after both filters *)
FCov(p, s, o, cn) == IF Passes(p, s, o, cn) THEN QCov(o) ELSE 0
FDepth(p, s, cn) ==
    SumDom(s.ops, LAMBDA i : IF s.ops[i].ins \/ HasTab(s.ops[i]) THEN 0 ELSE FCov(p, s, s.ops[i], cn))
FTotal(p, s, o, cn) == IF HasTab(o) THEN o.tab[1] + o.tab[2] ELSE FDepth(p, s, cn)
HasEdge(p, s, cn) == \E i \in DOMAIN s.ops : Passes3(p, s, s.ops[i], cn) = "edge"

(* observed copy number of op o at site s in fixed point: cov * cn / max(1, total) *)
ObsNum(p, s, o, cn) == FCov(p, s, o, cn) * cn
ObsDen(p, s, o, cn) == Max2(1, FTotal(p, s, o, cn))
Obs(p, s, o, cn) == IF cn = 0 THEN 0 ELSE FixDiv(ObsNum(p, s, o, cn), ObsDen(p, s, o, cn))
ObsExact(p, s, o, cn) == cn = 0 \/ FixExact(ObsNum(p, s, o, cn), ObsDen(p, s, o, cn))

(* C15: low-quality observations are invisible to everything above *)
StripLow(s) == [s EXCEPT !.ops = [i \in DOMAIN s.ops |-> [s.ops[i] EXCEPT !.low = 0]]]
LowInvisible(p, s, cn) ==
    \A i \in DOMAIN s.ops :
        /\ Passes3(p, s, s.ops[i], cn) = Passes3(p, StripLow(s), StripLow(s).ops[i], cn)
        /\ FCov(p, s, s.ops[i], cn) = FCov(p, StripLow(s), StripLow(s).ops[i], cn)
=============================================================================
