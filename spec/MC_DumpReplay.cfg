INVARIANT SnapshotCoversReads
INVARIANT RestoreIsSnapshotInverse
INVARIANT SameResult
INVARIANT SameResultIffRestored
INVARIANT PhaseLemma
INVARIANT DepthsAgree
INVARIANT DropBreaks
