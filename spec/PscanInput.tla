------------------------------ MODULE PscanInput ------------------------------
(***************************************************************************)
(* X01 (extension) - Pharmacoscan probe tables are turned into matching    *)
(* evidence (aldy/sam.py:_load_pscan, _make_coverage; aldy/coverage.py;    *)
(* reached through detect_genome -> kind "pscan" -> genotype()).           *)
(*                                                                         *)
(* A table is a sequence of probe rows  [chrom, pos, ref, alts, gt] :      *)
(*   chrom  the Chr_id column as text                                      *)
(*   pos    0-based site named by the Start column (Start - 1, origin      *)
(*          subtracted): first REF base; for a REF "-" row (insertion) the *)
(*          base the inserted sequence FOLLOWS (the catalogue's key)       *)
(*   ref    Ref_Allele as a sequence of one-letter strings, <<"-">> = the  *)
(*          empty allele                                                   *)
(*   alts   Alt_Allele split at "//", each a sequence of letters           *)
(*   gt     the call split at "/": the called alleles AS TEXTS             *)
(*          ("A/G" -> <<A, G>>, "-/CT", "---" -> one text: not diploid)    *)
(* The evidence is  norm[site]  (reference pseudo-reads, FULL = 20 where   *)
(* nothing was recorded) and  muts[<<site, op>>]  (UNIT = 10 pseudo-reads  *)
(* per called alternative allele copy), op spelled as the catalogue spells *)
(* it ("A>G", "delAC", "insT").                                            *)
(*                                                                         *)
(* Operational layer (one action per critical step of the loop):           *)
(*   Fetch -> SkipOtherChrom | SkipOutside | SkipNonDiploid | Accept       *)
(*         -> KeepOrientation | Swap | SkipUnspecified                     *)
(*         -> CountRef | CountUnnamed | CountAlt (x2) -> EndRow ; Close    *)
(* working on a register `cur` (start, ref, alts, j) the way the loop      *)
(* rewrites its locals; prefix trimming is the iterative Trim.             *)
(* Semantic layer (the oracle: what the statement says): Entries / Eff /   *)
(* Copies by counting over the whole table, common prefix by Off.          *)
(* The invariants relate the two; spec/trace/PscanTrace.tla relates the    *)
(* semantic layer to what the real Coverage object shows.                  *)
(*                                                                         *)
(* Where the statement is silent the row is FREE (no claim; a no-op here,  *)
(* its sites are not compared with the code):                              *)
(*   - REF matches neither the reference nor (single ALT) is swapped       *)
(*   - a called alternative whose shape after trimming the common prefix   *)
(*     is none of substitution / deletion / insertion (MNP, delins)        *)
(***************************************************************************)
EXTENDS Integers, Sequences, FiniteSets, TLC, SequencesExt, FiniteSetsExt, Functions

UNIT == 10                  \* pseudo-reads of one allele copy
FULL == 2 * UNIT            \* a site of a two-copy sample
FREE == "?"                 \* kind of a called allele the statement does not cover
GAP  == <<"-">>             \* the empty allele as the table writes it
DNA  == {"A", "C", "G", "T"}

VARIABLES
    gene,       \* [chr, spans, segs, cat, alleles]  (see below)
    table,      \* rows fetched so far
    norm,       \* [touched sites -> reference pseudo-reads]
    muts,       \* [<<site, op>> -> pseudo-reads]
    pc,         \* "fetch" | "filter" | "orient" | "count" | "done"
    cur         \* working register of the row being processed
vars == <<gene, table, norm, muts, pc, cur>>

(***************************************************************************)
(* gene.chr     chromosome name                                            *)
(* gene.spans   Seq([lo, hi]) : the sites that lie in the gene (mapped to  *)
(*              its RefSeq), inclusive intervals                           *)
(* gene.segs    Seq([lo, b]) : genome-oriented reference, "N" elsewhere    *)
(* gene.cat     set of <<site, op>> : catalogued variants as loaded        *)
(* gene.alleles Seq([name, vs]) : alleles of the default structure, the    *)
(*              first one is the reference (no variants)                   *)
(***************************************************************************)
Max2(a, b) == IF a > b THEN a ELSE b
Min2(a, b) == IF a < b THEN a ELSE b
Get(f, k, d) == IF k \in DOMAIN f THEN f[k] ELSE d
Put(f, k, v) == [x \in DOMAIN f \cup {k} |-> IF x = k THEN v ELSE f[x]]
Str(s) == FoldLeft(LAMBDA a, b : a \o b, "", s)          \* <<"A","C">> -> "AC"
SumOver(S, F(_)) == FoldSet(LAMBDA x, acc : acc + F(x), 0, S)

InSeg(sg, s) == s >= sg.lo /\ s < sg.lo + Len(sg.b)
Base(g, s) ==
    IF \E i \in DOMAIN g.segs : InSeg(g.segs[i], s)
    THEN LET i == CHOOSE j \in DOMAIN g.segs : InSeg(g.segs[j], s)
         IN  g.segs[i].b[s - g.segs[i].lo + 1]
    ELSE "N"
Bases(g, a, b) == [i \in 1..(b - a + 1) |-> Base(g, a + i - 1)]     \* sites a..b

(* ---- one row: which rows count ------------------------------------------ *)
Txt(a) == IF a = GAP THEN <<>> ELSE a                     \* "-" is the empty allele
SameChrom(g, r) == r.chrom = g.chr
Inside(g, r) == \E i \in DOMAIN g.spans : g.spans[i].lo <= r.pos /\ r.pos <= g.spans[i].hi
Diploid(r) == Len(r.gt) = 2
Counted(g, r) == SameChrom(g, r) /\ Inside(g, r) /\ Diploid(r)

(* ---- orientation against the genome reference --------------------------- *)
IsInsRow(r) == r.ref = GAP
RefWindow(g, r) == Bases(g, r.pos, r.pos + Len(r.ref) - 1)     \* the reference under the REF column
Matches(g, r) == IsInsRow(r) \/ r.ref = RefWindow(g, r)
Swapped(g, r) == ~Matches(g, r) /\ Len(r.alts) = 1 /\ r.alts[1] = RefWindow(g, r)
Unspecified(g, r) == ~Matches(g, r) /\ ~Swapped(g, r)
Unswap(r) == [r EXCEPT !.ref = r.alts[1], !.alts = <<r.ref>>]
Orient(g, r) == IF Swapped(g, r) THEN Unswap(r) ELSE r

(* ---- REF/ALT -> catalogue spelling (declarative) ------------------------ *)
Off(ref, alt) ==                                          \* length of the common prefix
    LET n == Min2(Len(ref), Len(alt)) IN
    IF \A i \in 1..n : ref[i] = alt[i] THEN n
    ELSE CHOOSE k \in 0..(n - 1) : ref[k + 1] # alt[k + 1] /\ \A i \in 1..k : ref[i] = alt[i]

Ent(s, o, k) == [site |-> s, op |-> o, k |-> k]
Key(e) == <<e.site, e.op>>

(* ref is the (oriented) reference text at pos, alt the called alternative; both without "-".    *)
(* An insertion is keyed by the base it follows: the Start column itself for a REF "-" row, the *)
(* last base shared by REF and ALT for an anchored row.                                          *)
VariantOf(g, pos, ref, alt) ==
    LET off == Off(ref, alt) IN
    IF Len(ref) - off = 1 /\ Len(alt) - off = 1 THEN
        Ent(pos + off, Base(g, pos + off) \o ">" \o alt[off + 1], "sub")
    ELSE IF Len(alt) = off /\ Len(ref) > off THEN
        Ent(pos + off, "del" \o Str(Bases(g, pos + off, pos + Len(ref) - 1)), "del")
    ELSE IF Len(ref) = off /\ Len(alt) > off THEN
        Ent(IF off = 0 THEN pos ELSE pos + off - 1, "ins" \o Str(SubSeq(alt, off + 1, Len(alt))), "ins")
    ELSE Ent(pos, FREE, FREE)

(* what one called allele of an oriented row o expresses *)
AlleleEntry(g, o, a) ==
    IF a = o.ref THEN Ent(o.pos, "_", "_")                                   \* the reference: nothing
    ELSE IF \E i \in DOMAIN o.alts : o.alts[i] = a
         THEN VariantOf(g, o.pos, Txt(o.ref), Txt(a))                        \* the alternative actually called
    ELSE Ent(o.pos, "x", "x")                                                \* a text the row does not name: nothing
(* the two called alleles of a row (<<>> for a row that is ignored or not covered) *)
Entries(g, r) ==
    IF ~Counted(g, r) \/ Unspecified(g, r) THEN <<>>
    ELSE LET o == Orient(g, r) IN [j \in 1..2 |-> AlleleEntry(g, o, r.gt[j])]
Effective(e) == e.k \in {"sub", "del", "ins"}
HasEffect(g, r) == \E j \in DOMAIN Entries(g, r) : Effective(Entries(g, r)[j])
FreeRow(g, r) == Counted(g, r) /\ (Unspecified(g, r) \/ \E j \in DOMAIN Entries(g, r) : Entries(g, r)[j].k = FREE)

(* ---- evidence state ------------------------------------------------------ *)
Empty == [norm |-> <<>>, muts |-> <<>>]
NormAt(st, s) == Get(st.norm, s, FULL)
AddEntry(st, e) ==
    IF ~Effective(e) THEN st
    ELSE [norm |-> Put(st.norm, e.site, Max2(0, NormAt(st, e.site) - UNIT)),
          muts |-> Put(st.muts, Key(e), Get(st.muts, Key(e), 0) + UNIT)]
ApplyRow(g, st, r) ==
    LET es == Entries(g, r) IN
    IF es = <<>> THEN st ELSE AddEntry(AddEntry(st, es[1]), es[2])
FinalState(g, f) == FoldLeft(LAMBDA st, r : ApplyRow(g, st, r), Empty, f)
(* canonical form: untouched entries dropped *)
Canon(st) == [norm |-> Restrict(st.norm, {s \in DOMAIN st.norm : st.norm[s] # FULL}),
              muts |-> Restrict(st.muts, {k \in DOMAIN st.muts : st.muts[k] # 0})]

(* ---- operational layer ----------------------------------------------------- *)
Row == table[Len(table)]
Idle == [start |-> 0, ref |-> <<>>, alts |-> <<>>, j |-> 0]

RECURSIVE Trim(_, _, _, _)
Trim(start, ref, alt, n) ==                               \* one shared leading base at a time
    IF ref # <<>> /\ alt # <<>> /\ Head(ref) = Head(alt)
    THEN Trim(start + 1, Tail(ref), Tail(alt), n + 1)
    ELSE [start |-> start, ref |-> ref, alt |-> alt, n |-> n]
Spell(g, t) ==
    IF Len(t.ref) = 1 /\ Len(t.alt) = 1 THEN Ent(t.start, Base(g, t.start) \o ">" \o t.alt[1], "sub")
    ELSE IF t.alt = <<>> /\ t.ref # <<>> THEN Ent(t.start, "del" \o Str(Bases(g, t.start, t.start + Len(t.ref) - 1)), "del")
    ELSE IF t.ref = <<>> /\ t.alt # <<>> THEN Ent(IF t.n = 0 THEN t.start ELSE t.start - 1, "ins" \o Str(t.alt), "ins")
    ELSE Ent(t.start, FREE, FREE)

Fetch(r) ==
    /\ pc = "fetch"
    /\ table' = Append(table, r)
    /\ cur' = [start |-> r.pos, ref |-> r.ref, alts |-> r.alts, j |-> 0]
    /\ pc' = "filter"
    /\ UNCHANGED <<gene, norm, muts>>
Drop == pc' = "fetch" /\ cur' = Idle /\ UNCHANGED <<gene, table, norm, muts>>
SkipOtherChrom == pc = "filter" /\ ~SameChrom(gene, Row) /\ Drop
SkipOutside    == pc = "filter" /\ SameChrom(gene, Row) /\ ~Inside(gene, Row) /\ Drop
SkipNonDiploid == pc = "filter" /\ SameChrom(gene, Row) /\ Inside(gene, Row) /\ ~Diploid(Row) /\ Drop
Accept ==
    /\ pc = "filter" /\ Counted(gene, Row)
    /\ pc' = "orient" /\ UNCHANGED <<gene, table, norm, muts, cur>>
KeepOrientation ==
    /\ pc = "orient" /\ (cur.ref = GAP \/ cur.ref = RefWindow(gene, Row))
    /\ pc' = "count" /\ UNCHANGED <<gene, table, norm, muts, cur>>
Swap ==         \* the REF column is not the reference, the (only) ALT column is: exchange them
    /\ pc = "orient" /\ cur.ref # GAP /\ cur.ref # RefWindow(gene, Row)
    /\ Len(cur.alts) = 1 /\ cur.alts[1] = RefWindow(gene, Row)
    /\ cur' = [cur EXCEPT !.ref = cur.alts[1], !.alts = <<cur.ref>>]
    /\ pc' = "count" /\ UNCHANGED <<gene, table, norm, muts>>
SkipUnspecified ==
    /\ pc = "orient" /\ cur.ref # GAP /\ cur.ref # RefWindow(gene, Row)
    /\ ~(Len(cur.alts) = 1 /\ cur.alts[1] = RefWindow(gene, Row))
    /\ Drop
Called == Row.gt[cur.j + 1]
Advance == cur' = [cur EXCEPT !.j = @ + 1] /\ pc' = pc
CountRef ==
    /\ pc = "count" /\ cur.j < 2 /\ Called = cur.ref
    /\ Advance /\ UNCHANGED <<gene, table, norm, muts>>
CountUnnamed ==
    /\ pc = "count" /\ cur.j < 2 /\ Called # cur.ref /\ \A i \in DOMAIN cur.alts : cur.alts[i] # Called
    /\ Advance /\ UNCHANGED <<gene, table, norm, muts>>
CountAlt ==     \* pick the called alternative, trim, spell, move one copy's worth
    /\ pc = "count" /\ cur.j < 2 /\ Called # cur.ref /\ \E i \in DOMAIN cur.alts : cur.alts[i] = Called
    /\ LET e == Spell(gene, Trim(cur.start, Txt(cur.ref), Txt(Called), 0))
           st == AddEntry([norm |-> norm, muts |-> muts], e)
       IN  norm' = st.norm /\ muts' = st.muts
    /\ Advance /\ UNCHANGED <<gene, table>>
EndRow ==
    /\ pc = "count" /\ cur.j = 2 /\ Drop
Close ==
    /\ pc = "fetch" /\ pc' = "done" /\ UNCHANGED <<gene, table, norm, muts, cur>>
RowSteps ==
    \/ SkipOtherChrom \/ SkipOutside \/ SkipNonDiploid \/ Accept
    \/ KeepOrientation \/ Swap \/ SkipUnspecified
    \/ CountRef \/ CountUnnamed \/ CountAlt \/ EndRow

(* ---- semantic layer (counting; no state) ----------------------------------- *)
(* Eff(g, f): the effective allele entries of a table, flattened (a bag as a sequence); computed *)
(* once per table and passed down.                                                                *)
Eff(g, f) == FoldLeft(LAMBDA acc, r : acc \o SelectSeq(Entries(g, r), Effective), <<>>, f)
Copies(E, k) == Cardinality({i \in DOMAIN E : Key(E[i]) = k})
RawAt(E, site) == Cardinality({i \in DOMAIN E : E[i].site = site})
KeysOf(g, E) == {Key(E[i]) : i \in DOMAIN E} \cup g.cat
(* a site is well formed when the rows give it at most two alternative copies *)
WellFormed(E, site) == RawAt(E, site) <= 2

State == [norm |-> norm, muts |-> muts]
Done == pc = "done"

(* ---- the statement ------------------------------------------------------------ *)
(* one copy's worth per called alternative allele, to exactly its variant *)
SupportProportional == Done =>
    LET E == Eff(gene, table) IN
    \A k \in KeysOf(gene, E) \cup DOMAIN muts : Get(muts, k, 0) = UNIT * Copies(E, k)
(* ... and one copy's worth of reference support removed at that site *)
ReferenceReduced == Done =>
    LET E == Eff(gene, table) IN
    \A s \in {k[1] : k \in KeysOf(gene, E)} \cup DOMAIN norm : WellFormed(E, s) =>
        NormAt(State, s) = FULL - UNIT * RawAt(E, s)
(* positions no row mentions keep full two-copy reference support *)
Untouched == Done =>
    LET E == Eff(gene, table) IN
    \A s \in {k[1] : k \in KeysOf(gene, E)} \cup DOMAIN norm \cup {k[1] : k \in DOMAIN muts} :
        RawAt(E, s) = 0 => NormAt(State, s) = FULL /\ \A k \in DOMAIN muts : k[1] = s => muts[k] = 0
(* called alleles equal to the reference, and texts the row does not name, contribute nothing *)
ReferenceCallsAreSilent == Done =>
    \A i \in DOMAIN table : LET es == Entries(gene, table[i]) IN
        \A j \in DOMAIN es : (table[i].gt[j] = Orient(gene, table[i]).ref) => ~Effective(es[j])
(* other chromosome / outside the gene / not a diploid call *)
IgnoredAreNoOps == Done =>
    Canon(State) = Canon(FinalState(gene, SelectSeq(table, LAMBDA r : HasEffect(gene, r))))
IgnoredStepNoOp ==
    [][(pc = "filter" /\ ~Counted(gene, Row)) => (pc' = "fetch" /\ UNCHANGED <<norm, muts>>)]_vars
(* a swapped row yields what the same row written the right way round yields, and every         *)
(* substitution / deletion is spelled against the genome reference, never against the REF column *)
SpelledAgainstReference(g, e, maxlen) ==
    CASE e.k = "sub" -> \E x \in DNA : e.op = Base(g, e.site) \o ">" \o x /\ x # Base(g, e.site)
      [] e.k = "del" -> \E n \in 1..maxlen : e.op = "del" \o Str(Bases(g, e.site, e.site + n - 1))
      [] OTHER -> TRUE
SwappedReexpressed == Done =>
    \A i \in DOMAIN table : LET r == table[i] IN (Counted(gene, r) /\ Swapped(gene, r)) =>
        /\ Entries(gene, r) = Entries(gene, Unswap(r))
        /\ \A j \in 1..2 : LET e == Entries(gene, r)[j] IN
             Effective(e) => SpelledAgainstReference(gene, e, Len(r.ref)) /\ Get(muts, Key(e), 0) >= UNIT
(* with several alternatives every called allele is credited to ITS alternative, the others to none *)
Narrow(r, i) == [r EXCEPT !.alts = <<r.alts[i]>>]
MultiAltPicksCalled == Done =>
    \A n \in DOMAIN table : LET r == table[n] IN
        (Counted(gene, r) /\ Matches(gene, r) /\ Len(r.alts) > 1) =>
            \A j \in 1..2 :
                /\ \A i \in DOMAIN r.alts : r.gt[j] = r.alts[i] => Entries(gene, r)[j] = Entries(gene, Narrow(r, i))[j]
                /\ (\A i \in DOMAIN r.alts : r.gt[j] # r.alts[i]) => ~Effective(Entries(gene, r)[j])
OrderIndependent == Done => Canon(FinalState(gene, table)) = Canon(FinalState(gene, Reverse(table)))
OperationalIsFinal == Done => Canon(State) = Canon(FinalState(gene, table))
(* between rows the operational state is the semantic state of the rows read so far *)
OperationalTracksRows == (pc = "fetch") => Canon(State) = Canon(FinalState(gene, table))
Conserved ==    \* pseudo-reads are moved, never created: 20 per well-formed site
    LET E == Eff(gene, table) IN
    \A s \in DOMAIN norm : (pc \in {"fetch", "done"} /\ WellFormed(E, s)) =>
        norm[s] + SumOver({k \in DOMAIN muts : k[1] = s}, LAMBDA k : muts[k]) = FULL

(* ---- end-to-end consequence --------------------------------------------------- *)
(* With 20 pseudo-reads for two gene copies one copy is worth UNIT. *)
CopiesSeen(st, k) == Get(st.muts, k, 0) \div UNIT
Has(a, k) == IF k \in a.vs THEN 1 ELSE 0
Explains(g, st, a, b) == \A k \in g.cat : CopiesSeen(st, k) = Has(a, k) + Has(b, k)
(* the table is written from the diplotype a/b: every variant gets as many called copies as a and b carry *)
CarriesPairE(g, E, a, b) == \A k \in KeysOf(g, E) : Copies(E, k) = Has(a, k) + Has(b, k)
CarriesPair(g, f, a, b) == CarriesPairE(g, Eff(g, f), a, b)
BagOfPair(g, a, b) == [k \in g.cat |-> Has(a, k) + Has(b, k)]
(* the evidence of such a table is explained by a/b and only by pairs with the same variant multiset *)
DiplotypeRecovered == Done =>
    \A i, j \in DOMAIN gene.alleles : LET a == gene.alleles[i]
                                          b == gene.alleles[j] IN
        (i <= j /\ CarriesPair(gene, table, a, b)) =>
            /\ Explains(gene, State, a, b)
            /\ \A m, l \in DOMAIN gene.alleles :
                 Explains(gene, State, gene.alleles[m], gene.alleles[l]) =>
                    BagOfPair(gene, gene.alleles[m], gene.alleles[l]) = BagOfPair(gene, a, b)
=============================================================================
