------------------------------ MODULE CNRoute ------------------------------
(***************************************************************************)
(* The non-ILP routes of the structure stage (cn.py:46-55, 341-361;        *)
(* genotype.py:160-176): a user-supplied structure is used verbatim,       *)
(* unknown configuration names are rejected, and where copy-number calling *)
(* is unavailable exactly two default copies are assumed (one for an       *)
(* X/Y-linked gene of a sample declared male).                              *)
(***************************************************************************)
EXTENDS Core

SameBag(s, t) == Len(s) = Len(t) /\ \A x \in SeqToSet(s) \cup SeqToSet(t) : CountIn(s, x) = CountIn(t, x)

(* what each route must produce: <<"error">> or <<"ok", bag>> *)
UserStructure(given, known) ==
    IF \E i \in DOMAIN given : given[i] \notin SeqToSet(known) THEN <<"error">> ELSE <<"ok", given>>
DefaultStructure(def, male, sexLinked) ==
    IF male /\ sexLinked THEN <<"ok", <<def>>>> ELSE <<"ok", <<def, def>>>>

RouteVerdict(r) ==
    LET want == IF r.route = "user" THEN UserStructure(r.given, r.known)
                ELSE DefaultStructure(r.defname, r.male, r.sex)
    IN
    IF want[1] = "error" THEN
        (IF r.err = "AldyException" /\ r.n = 0 THEN "" ELSE "UnknownNameRejected")
    ELSE IF r.err # "" THEN "RouteRaised"
    ELSE IF r.n # 1 THEN "ExactlyOneStructure"
    ELSE IF ~SameBag(r.got, want[2]) THEN (IF r.route = "user" THEN "UserStructureVerbatim" ELSE "DefaultTwoCopies")
    ELSE IF ~r.score0 THEN "UserScoreZero"
    ELSE ""
=============================================================================
