---------------------------- MODULE MajorEncoding ----------------------------
(***************************************************************************)
(* ENCODING LAYER of the major star-allele model (major.py:88-197): the     *)
(* constraints the code documents, over explicit binaries                   *)
(*   VA   one binary per (candidate allele a, copy index i < copies of the  *)
(*        allele's configuration)             -- a set of pairs <<a, i>>    *)
(*   VN   one binary per observed core variant ("novel")   -- a set of vars *)
(* with the auxiliary variables eliminated: the error terms E are forced by *)
(* the CFUNC equations, OR_m / XOR_m / NOVEL are quantified existentially    *)
(* over 0..1 exactly as the inequalities of the code constrain them.        *)
(* Every named rule K is an operator guarded by On(K); `Drop' switches      *)
(* rules off (rule-sensitivity witnesses, DESIGN 3.2 (C)).                  *)
(*                                                                          *)
(* Rules:  CAND      candidate filter (every core variant of a candidate is *)
(*                   observed; dropped: every allele of a called            *)
(*                   configuration is a candidate)                          *)
(*         CORD      A[a,i] <= A[a,i-1]           (symmetry breaking)       *)
(*         CSAT_LE / CSAT_GE   sum of A over a configuration = its count    *)
(*         COR_UB    OR_m <= sum of carriers;  COR_LB  OR_m >= each carrier *)
(*         CXOR      XOR_m = OR_m xor N_m  and  XOR_m >= 1                  *)
(*         CONE      at most one novel non-insertion variant per site       *)
(*         CFUNC_VAR / CFUNC_REF  the equations that force the error terms  *)
(*                   of variants / of reference sites                       *)
(*         REFCOV    a copy counts as reference at a site only if its       *)
(*                   configuration has gene copies there                    *)
(*         INSREF    an insertion does not stop a copy from showing the     *)
(*                   reference at its site                                  *)
(*         NOVEL_UB  NOVEL >= N_m;   NOVEL_LB  NOVEL <= sum N_m             *)
(*         NOVEL_UNIT the 0.1 per novel variant                             *)
(***************************************************************************)
EXTENDS MajorModel
CONSTANT Drop
Rules == {"CAND", "CORD", "CSAT_LE", "CSAT_GE", "COR_UB", "COR_LB", "CXOR", "CONE", "CFUNC_VAR", "CFUNC_REF",
          "REFCOV", "INSREF", "NOVEL_UB", "NOVEL_LB", "NOVEL_UNIT"}
ASSUME Drop \subseteq Rules
On(K) == K \notin Drop

(* ---- variables ------------------------------------------------------------------------- *)
EncCand(c, d) ==
    IF On("CAND") THEN d.cand
    ELSE {a \in DOMAIN c.alleles : c.alleles[a].cfg \in StructCfgs(c)}
SlotsOf(c, a) == {<<a, i>> : i \in 0..(StructCount(c, c.alleles[a].cfg) - 1)}
AllSlots(c, d) == UNION {SlotsOf(c, a) : a \in EncCand(c, d)}

(* ---- constraints on the allele binaries ------------------------------------------------- *)
CORD(VA) == \A s \in VA : s[2] > 0 => <<s[1], s[2] - 1>> \in VA
CfgSum(c, VA, g) == Cardinality({s \in VA : c.alleles[s[1]].cfg = g})
CSAT_LE(c, VA) == \A k \in DOMAIN c.struct : CfgSum(c, VA, c.struct[k].cfg) <= c.struct[k].n
CSAT_GE(c, VA) == \A k \in DOMAIN c.struct : CfgSum(c, VA, c.struct[k].cfg) >= c.struct[k].n
AlleleRules(c, VA) ==
    /\ On("CORD") => CORD(VA)
    /\ On("CSAT_LE") => CSAT_LE(c, VA)
    /\ On("CSAT_GE") => CSAT_GE(c, VA)

(* ---- constraints that tie the novel binaries to the allele binaries ---------------------- *)
CarrierSlots(c, VA, m) == {s \in VA : m \in Core(c, s[1])}
B(x) == IF x THEN 1 ELSE 0
COR_UB(vor, nCarr) == vor <= nCarr
COR_LB(vor, nCarr) == nCarr > 0 => vor >= 1            \* OR_m >= A for every selected carrier
CXOR(vxor, vnew, vor) ==
    /\ vxor <= vnew + vor /\ vxor <= 2 - vnew - vor
    /\ vxor >= vnew - vor /\ vxor >= vor - vnew
    /\ vxor >= 1
CONE(c, d, VN) ==
    \A i \in d.sites : Cardinality({m \in VN : c.vars[m].si = i /\ ~c.vars[m].ins}) <= 1
NovelRules(c, d, VA, VN) ==
    /\ \A m \in d.obs :
          LET n == Cardinality(CarrierSlots(c, VA, m)) IN
          \E vor \in 0..1 : \E vxor \in 0..1 :
              /\ On("COR_UB") => COR_UB(vor, n)
              /\ On("COR_LB") => COR_LB(vor, n)
              /\ On("CXOR") => CXOR(vxor, B(m \in VN), vor)
    /\ On("CONE") => CONE(c, d, VN)

(* the feasible points <<VA, VN>> *)
Points(c, d) ==
    LET vas == {VA \in SUBSET AllSlots(c, d) : AlleleRules(c, VA)} IN
    UNION {{<<VA, VN>> : VN \in {N \in SUBSET d.obs : NovelRules(c, d, VA, N)}} : VA \in vas}

(* ---- objective (minimum over the eliminated auxiliaries) --------------------------------- *)
(* CFUNC:  sum of carriers + N_m + E_m = observed copies   =>  E_m forced *)
ErrVar(c, d, VA, VN, m) == d.vobs[m] - U * (Cardinality(CarrierSlots(c, VA, m)) + B(m \in VN))
CountsAsRef(c, a, i) ==
    /\ On("REFCOV") => c.cfgs[c.alleles[a].cfg].cn[i] > 0
    /\ ~\E v \in Core(c, a) : c.vars[v].si = i /\ (On("INSREF") => ~c.vars[v].ins)
ErrRef(c, d, VA, i) == d.robs[i] - U * Cardinality({s \in VA : CountsAsRef(c, s[1], i)})
NovelZ(VN) ==           \* feasible values of the NOVEL indicator
    {z \in 0..1 : /\ On("NOVEL_UB") => (VN # {} => z >= 1)
                  /\ On("NOVEL_LB") => z <= Cardinality(VN)}
Objective(c, d, VA, VN) ==
      (IF On("CFUNC_VAR") THEN SumOver(d.obs, LAMBDA m : Abs(ErrVar(c, d, VA, VN, m))) ELSE 0)
    + (IF On("CFUNC_REF") THEN SumOver(d.sites, LAMBDA i : Abs(ErrRef(c, d, VA, i))) ELSE 0)
    + c.p.novelPen * MinSet(NovelZ(VN))
    + (IF On("NOVEL_UNIT") THEN (U \div 10) * Cardinality(VN) ELSE 0)

(* ---- projection onto the semantic objects: <<allele multiset, novel set, score>> ---------- *)
ProjBag(c, VA) == [a \in DOMAIN c.alleles |-> Cardinality({s \in VA : s[1] = a})]
SemBag(c, x) == [a \in DOMAIN c.alleles |-> Cardinality({i \in DOMAIN x : x[i] = a})]
EncTable(c, d) == {<<ProjBag(c, p[1]), p[2], Objective(c, d, p[1], p[2])>> : p \in Points(c, d)}
SemTable(c, d) == {<<SemBag(c, x), Novel(c, d, x), Score(c, d, x)>> : x \in AdmissibleCombos(c, d)}
(* one score per projected object: the minimum over the points that project onto it *)
MinTable(T) == {t \in T : \A u \in T : (u[1] = t[1] /\ u[2] = t[2]) => u[3] >= t[3]}

(* THEOREM (checked by TLC with Drop = {}): the projection of the feasible set is exactly the  *)
(* admissible set and the encoded objective is exactly Score                                    *)
EncodingRefinesSemantics(c) ==
    LET d == Derive(c) IN MergedStruct(c) => MinTable(EncTable(c, d)) = SemTable(c, d)

(* allowed outputs at gap gN/gD: everything within (1+gap) of the best score *)
Best(T) == MinSet({t[3] : t \in T})
Within(T, gN, gD) == IF T = {} THEN {} ELSE {t \in T : t[3] * gD <= (gD + gN) * Best(T)}
=============================================================================
