------------------------------ MODULE Pipeline ------------------------------
(***************************************************************************)
(* genotype() for one gene (genotype.py:222-335, minor.py:89-110): stage   *)
(* order, score carry-over, selection of the candidates that go on, final  *)
(* selection, errors.  The three stages are ORACLES here (their contracts  *)
(* are CNModel / MajorModel / MinorModel): each action takes what the      *)
(* stage returned as a parameter.  Scores are integers in units of 1/U.    *)
(*                                                                         *)
(*   cnS    Seq([key, score])                 structures, in processing order*)
(*   majS   Seq([key, cn, raw, score])        major candidates: cn = index  *)
(*          into cnS, raw = stage score, score = raw + (cn score - min cn)  *)
(*   selMaj Seq(index into majS)              the ones handed to refinement *)
(*   minS   Seq([key, maj, raw, carried, final]) refined candidates          *)
(*   report Seq(index into minS)                                            *)
(***************************************************************************)
EXTENDS Core

PrecU == U \div 100     \* SOLUTION_PRECISION (1e-2) in units

VARIABLES pc, cnS, majS, selMaj, minS, report, err, todo,
          gapU           \* the gap parameter in units (additive in the two selections)
vars == <<pc, cnS, majS, selMaj, minS, report, err, todo, gapU>>
GapU == gapU

MinOf(S, F(_)) == MinSet({F(x) : x \in S})
MinCN == MinOf(DOMAIN cnS, LAMBDA i : cnS[i].score)
(* the code's ordering key: (floor(1000*score), text); only the numeric part is specified *)
Key1000(s) == s \div (U \div 1000)
SortedByKey(seq, F(_)) == \A i \in 1..(Len(seq) - 1) : Key1000(F(seq[i])) <= Key1000(F(seq[i + 1]))

Init ==
    /\ gapU \in Nat
    /\ pc = "cn" /\ cnS = <<>> /\ majS = <<>> /\ selMaj = <<>> /\ minS = <<>>
    /\ report = <<>> /\ err = "" /\ todo = 0

(* estimate_cn returned `sols` (a sequence of [key, score]); they are processed best first *)
EstimateCN(sols) ==
    /\ pc = "cn"
    /\ IF Len(sols) = 0
         THEN pc' = "failed" /\ err' = "cn" /\ cnS' = cnS /\ todo' = todo
         ELSE /\ SortedByKey(sols, LAMBDA x : x.score)
              /\ cnS' = sols /\ pc' = "major" /\ err' = err /\ todo' = 1
    /\ UNCHANGED <<majS, selMaj, minS, report, gapU>>

(* estimate_major for structure number `todo` returned `sols` (Seq([key, raw])) *)
EstimateMajor(sols) ==
    /\ pc = "major" /\ todo <= Len(cnS)
    /\ majS' = majS \o [k \in DOMAIN sols |->
                [key |-> sols[k].key, cn |-> todo, raw |-> sols[k].raw,
                 score |-> sols[k].raw + cnS[todo].score - MinCN]]
    /\ todo' = todo + 1
    /\ UNCHANGED <<pc, cnS, selMaj, minS, report, err, gapU>>

MinMajor == MinOf(DOMAIN majS, LAMBDA i : majS[i].score)
MajorSelected(i) == majS[i].score - MinMajor - GapU < PrecU
(* all structures done: keep the candidates within gap + precision of the best, best first *)
SelectMajor(order) ==       \* order: a sequence of indices into majS (the list handed on)
    /\ pc = "major" /\ todo = Len(cnS) + 1
    /\ IF Len(majS) = 0
         THEN pc' = "failed" /\ err' = "major" /\ selMaj' = selMaj
         ELSE /\ SeqToSet(order) = {i \in DOMAIN majS : MajorSelected(i)}
              /\ Len(order) = Cardinality(SeqToSet(order))
              /\ SortedByKey(order, LAMBDA i : majS[i].score)
              /\ selMaj' = order /\ pc' = "minor" /\ err' = err
    /\ UNCHANGED <<cnS, majS, minS, report, todo, gapU>>

MinSelMajor == MinOf(SeqToSet(selMaj), LAMBDA i : majS[i].score)
(* exact rescaling final = carried * (cn + 1) / (min cn + 1), as a cross-multiplied test *)
RescaleOK(final, carried, cn) ==
    LET A == (MinCN + U) \div 10  B == (cn + U) \div 10  f == final \div 10  c == carried \div 10
    IN  Abs(f * A - c * B) <= A + B + f + c + 2
(* estimate_minor returned `sols`: Seq([key, maj (index into majS), raw, carried, final]) *)
EstimateMinor(sols) ==
    /\ pc = "minor"
    /\ \A k \in DOMAIN sols :
         /\ sols[k].maj \in SeqToSet(selMaj)
         /\ sols[k].carried = sols[k].raw + majS[sols[k].maj].score - MinSelMajor
         /\ RescaleOK(sols[k].final, sols[k].carried, cnS[majS[sols[k].maj].cn].score)
    /\ IF Len(sols) = 0
         THEN pc' = "failed" /\ err' = "minor" /\ minS' = minS
         ELSE minS' = sols /\ pc' = "final" /\ err' = err
    /\ UNCHANGED <<cnS, majS, selMaj, report, todo, gapU>>

MinFinal == MinOf(DOMAIN minS, LAMBDA i : minS[i].final)
FinalSelected(i) == minS[i].final - MinFinal - GapU < PrecU
SelectFinal(order) ==
    /\ pc = "final"
    /\ SeqToSet(order) = {i \in DOMAIN minS : FinalSelected(i)}
    /\ Len(order) = Cardinality(SeqToSet(order))
    /\ SortedByKey(order, LAMBDA i : minS[i].final)
    /\ report' = order /\ pc' = "done"
    /\ UNCHANGED <<cnS, majS, selMaj, minS, err, todo, gapU>>

(* ---- properties (C10) ------------------------------------------------------------------ *)
(* the combined score of a refined candidate, defined from the stage scores alone *)
Combined(i) ==
    LET m == minS[i]  j == m.maj  c == majS[j].cn IN
    <<m.raw + (majS[j].raw + cnS[c].score - MinCN) - MinSelMajor, cnS[c].score>>
ReportIsArgminBand ==
    pc = "done" => SeqToSet(report) = {i \in DOMAIN minS : minS[i].final - MinFinal - GapU < PrecU}
BestFirst == pc = "done" => SortedByKey(report, LAMBDA i : minS[i].final)
NoDupReport == Len(report) = Cardinality(SeqToSet(report))
ErrorMeansNoReport == (pc = "failed") => (report = <<>> /\ err # "")
ReportMeansAllStagesNonEmpty == report # <<>> => (cnS # <<>> /\ majS # <<>> /\ minS # <<>> /\ err = "")
CarryOver ==         \* every refined candidate carries the score differences of its ancestors
    \A i \in DOMAIN minS :
        LET j == minS[i].maj IN
        /\ majS[j].score = majS[j].raw + cnS[majS[j].cn].score - MinCN
        /\ minS[i].carried = minS[i].raw + majS[j].score - MinSelMajor
RefinedOnlyFromSelected == \A i \in DOMAIN minS : minS[i].maj \in SeqToSet(selMaj)
BestStructureFirst == cnS # <<>> => SortedByKey(cnS, LAMBDA x : x.score)
=============================================================================
