CONSTANTS
  MaxAvg = 3
  Mins = {2}
SPECIFICATION Spec
INVARIANT NoCallFromNoData
INVARIANT ErrorIsExplained
INVARIANT SimpleOutputEmptyLine
INVARIANT PseudogeneOnlyIsDeletion
INVARIANT ReportIsArgminBand
INVARIANT CarryOver
INVARIANT ErrorMeansNoReport
INVARIANT SameVerdict
INVARIANT NoStageRunsWithoutData
INVARIANT GuardFailureLeavesPipelineUntouched
PROPERTY Terminates
