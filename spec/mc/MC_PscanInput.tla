---------------------------- MODULE MC_PscanInput ----------------------------
(***************************************************************************)
(* Bounded exhaustive check of PscanInput.                                 *)
(* Alphabet {A, C} plus "-" (the empty allele).                            *)
(* Reference window  C A A C C A C A  (sites 0..7); the gene spans sites   *)
(* -20..39 of chromosome "20".                                             *)
(* Catalogue: <<1,"A>C">> <<2,"delA">> <<3,"insA">> <<3,"delCC">>          *)
(*            <<4,"C>A">>  (the insertion's anchor is also a deleted site) *)
(* alleles *1 = {} (reference), *2..*5 one variant each, *6 = both         *)
(* substitutions.                                                          *)
(* U1: EVERY row at Start sites 1..4 of chromosome 20 with REF in          *)
(*     {-, A, C, AA, AC, CA, CC}, one or two (ordered, distinct) ALT       *)
(*     alleles from the same seven texts (ALT # REF), and every call:      *)
(*     all 49 diploid calls over the seven texts and five non-diploid      *)
(*     calls ("---", "NoCall", "A", "A/C/A", ""): 4 x 252 x 54 = 54,432    *)
(*     rows; plus the single-ALT rows on chromosome 21, outside the gene   *)
(*     (site -25, inside the padded pile-up) and far outside (site -1015): *)
(*     3 x 42 x 54 = 6,804 rows.  Single-row tables.                       *)
(* U2: 31 focused rows (standard / swapped / "-" style / anchored indels,  *)
(*     multi-ALT, rows sharing a site, unnamed called texts, ignored rows, *)
(*     rows the statement does not cover): every two-row table in BOTH     *)
(*     orders (U2 x U2).                                                   *)
(* Plans: for each of the 21 diplotypes the table with one standard row    *)
(*     per catalogued variant, in ascending and descending order.          *)
(* Every row runs through Fetch / filter / orient / count x2 / EndRow.     *)
(* MC_PscanInput.cfg: 305,693 distinct states (about 20 s on 8 workers);    *)
(* MC_PscanInput_quick.cfg (U2 tables and plans only): 6,938 states;        *)
(* MC_PscanInput_hazard.cfg (reference count not cumulative) is EXPECTED to *)
(* violate ReferenceReduced.                                                *)
(***************************************************************************)
EXTENDS PscanInput

tA == <<"A">>
tC == <<"C">>
tAA == <<"A", "A">>
tAC == <<"A", "C">>
tCA == <<"C", "A">>
tCC == <<"C", "C">>
Strs == {GAP, tA, tC, tAA, tAC, tCA, tCC}

Window == <<"C", "A", "A", "C", "C", "A", "C", "A">>
(* the catalogue with the standard row of each variant: [site, op, pos, ref, alt] *)
MCCat == << [site |-> 1, op |-> "A>C",   pos |-> 1, ref |-> tA,  alt |-> tC],
            [site |-> 2, op |-> "delA",  pos |-> 2, ref |-> tA,  alt |-> GAP],
            [site |-> 3, op |-> "insA",  pos |-> 3, ref |-> GAP, alt |-> tA],
            [site |-> 3, op |-> "delCC", pos |-> 3, ref |-> tCC, alt |-> GAP],
            [site |-> 4, op |-> "C>A",   pos |-> 4, ref |-> tC,  alt |-> tA] >>
MCGene == [chr |-> "20",
           spans |-> << [lo |-> 0 - 20, hi |-> 39] >>,
           segs |-> << [lo |-> 0, b |-> Window] >>,
           cat |-> {<<MCCat[i].site, MCCat[i].op>> : i \in DOMAIN MCCat},
           alleles |-> << [name |-> "1", vs |-> {}],
                          [name |-> "2", vs |-> {<<1, "A>C">>}],
                          [name |-> "3", vs |-> {<<2, "delA">>}],
                          [name |-> "4", vs |-> {<<3, "insA">>}],
                          [name |-> "5", vs |-> {<<3, "delCC">>}],
                          [name |-> "6", vs |-> {<<1, "A>C">>, <<4, "C>A">>}] >>]

NoCall3 == <<"-", "-", "-">>
NoCallW == <<"N", "o", "C", "a", "l", "l">>
Dip == {<<a, b>> : a, b \in Strs}
NonDip == {<<NoCall3>>, <<NoCallW>>, <<tA>>, <<tA, tC, tA>>, << <<>> >>}
GTs == Dip \cup NonDip
AltLists(rf) == {<<a>> : a \in Strs \ {rf}}
                \cup {<<x[1], x[2]>> : x \in {y \in (Strs \ {rf}) \X (Strs \ {rf}) : y[1] # y[2]}}
AltOf == [rf \in Strs |-> AltLists(rf)]
Rec(c, p, rf, al, g) == [chrom |-> c, pos |-> p, ref |-> rf, alts |-> al, gt |-> g]
Elsewhere == {<<"21", 1>>, <<"20", 0 - 25>>, <<"20", 0 - 1015>>}

(* U1 is never materialised here (the action quantifies); spec/gen/PscanInputGen.tla emits it. *)
Focus == {
    <<"20", 1, tA, <<tC>>, {<<tA, tC>>, <<tC, tA>>, <<tC, tC>>, <<tA, tA>>}>>,     \* catalogued substitution, standard
    <<"20", 1, tC, <<tA>>, {<<tA, tC>>, <<tC, tC>>}>>,                             \* the same with REF/ALT swapped
    <<"20", 2, tA, <<GAP>>, {<<GAP, tA>>, <<GAP, GAP>>}>>,                         \* catalogued deletion, "-" style
    <<"20", 1, tA, <<GAP>>, {<<tA, GAP>>}>>,                                       \* deletion at the substitution's site
    <<"20", 3, tCC, <<GAP>>, {<<GAP, tCC>>}>>,                                     \* two-base deletion
    <<"20", 1, tAA, <<tA>>, {<<tAA, tA>>}>>,                                       \* deletion, anchored style (delA at 2)
    <<"20", 3, GAP, <<tA>>, {<<GAP, tA>>, <<tA, tA>>}>>,                           \* catalogued insertion, "-" style
    <<"20", 3, tC, <<tCA>>, {<<tC, tCA>>}>>,                                       \* insertion, anchored style (insA at 3)
    <<"20", 1, GAP, <<tCC>>, {<<GAP, tCC>>, <<tC, tC>>}>>,                         \* insertion; called text "C" is not named by the row
    <<"20", 1, tA, <<tC, GAP>>, {<<tA, tC>>, <<GAP, tC>>, <<tA, GAP>>, <<tC, tC>>}>>,  \* multi-ALT: substitution or deletion
    <<"20", 4, tC, <<tA, tCC>>, {<<tC, tA>>, <<tA, tCC>>}>>,                       \* multi-ALT: substitution or anchored insertion
    <<"20", 4, tC, <<tA>>, {<<tC, tA>>, <<tA, tA>>}>>,                             \* second catalogued substitution
    <<"20", 1, tA, <<tC>>, {<<NoCall3>>, <<tA, tC, tA>>, <<tA>>}>>,                \* not a diploid call
    <<"21", 1, tA, <<tC>>, {<<tC, tC>>}>>,                                         \* other chromosome
    <<"20", 0 - 25, tA, <<tC>>, {<<tC, tC>>}>>,                                    \* outside the gene
    <<"20", 1, tC, <<tCC>>, {<<tC, tCC>>}>>,                                       \* REF is neither reference nor swapped (free)
    <<"20", 1, tAA, <<tCC>>, {<<tAA, tCC>>}>> }                                    \* multi-base substitution (free)
U2 == UNION {{Rec(f[1], f[2], f[3], f[4], g) : g \in f[5]} : f \in Focus}

(* ---- tables written from a diplotype ---------------------------------------- *)
CallFor(c, n) == IF n = 0 THEN <<c.ref, c.ref>> ELSE IF n = 1 THEN <<c.ref, c.alt>> ELSE <<c.alt, c.alt>>
PlanOf(a, b) == [i \in DOMAIN MCCat |->
                    LET c == MCCat[i] IN Rec("20", c.pos, c.ref, <<c.alt>>, CallFor(c, Has(a, <<c.site, c.op>>) + Has(b, <<c.site, c.op>>)))]
Plans == UNION {{PlanOf(MCGene.alleles[x[1]], MCGene.alleles[x[2]]), Reverse(PlanOf(MCGene.alleles[x[1]], MCGene.alleles[x[2]]))} :
                   x \in {y \in (DOMAIN MCGene.alleles) \X (DOMAIN MCGene.alleles) : y[1] <= y[2]}}

ASSUME \A r \in U2 : r.ref \in Strs /\ r.alts \in AltOf[r.ref] /\ r.gt \in GTs
ASSUME \A P \in Plans : \A i \in DOMAIN P : P[i].alts \in AltOf[P[i].ref] /\ P[i].gt \in GTs
ASSUME \A i \in DOMAIN MCCat :      \* the standard row of a catalogued variant spells that variant
          LET c == MCCat[i] IN Key(VariantOf(MCGene, c.pos, Txt(c.ref), Txt(c.alt))) = <<c.site, c.op>>

MCInit == gene = MCGene /\ table = <<>> /\ norm = <<>> /\ muts = <<>> /\ pc = "fetch" /\ cur = Idle
FetchPlan == \E P \in Plans : Len(table) < Len(P) /\ table = SubSeq(P, 1, Len(table)) /\ Fetch(P[Len(table) + 1])
FetchPair == \E r \in U2 : Len(table) <= 1 /\ (Len(table) = 1 => table[1] \in U2) /\ Fetch(r)
FetchSingle ==
    /\ Len(table) = 0
    /\ \/ \E p \in 1..4 : \E rf \in Strs : \E al \in AltOf[rf] : \E g \in GTs : Fetch(Rec("20", p, rf, al, g))
       \/ \E w \in Elsewhere : \E rf \in Strs : \E a \in Strs \ {rf} : \E g \in GTs : Fetch(Rec(w[1], w[2], rf, <<a>>, g))
MCNext == FetchSingle \/ FetchPair \/ FetchPlan \/ RowSteps \/ Close
MCSpec == MCInit /\ [][MCNext]_vars

(* the quick configuration: single rows over U2, all two-row tables, all plans *)
MCNextQuick == FetchPair \/ FetchPlan \/ RowSteps \/ Close
MCSpecQuick == MCInit /\ [][MCNextQuick]_vars

(* ---- hazard: the reference support of a site set from the row at hand only ----------------- *)
(* (what `norm[pos] = norm[pos][:20 - m]` does): CountAlt with a NON-cumulative reference count.  *)
(* MC_PscanInput_hazard.cfg must report a violation (two rows sharing a site).                    *)
HazardCountAlt ==
    /\ pc = "count" /\ cur.j < 2 /\ Called # cur.ref /\ \E i \in DOMAIN cur.alts : cur.alts[i] = Called
    /\ LET e == Spell(gene, Trim(cur.start, Txt(cur.ref), Txt(Called), 0))
           m == Cardinality({x \in 1..(cur.j + 1) : Row.gt[x] = Called})
       IN  IF Effective(e)
           THEN norm' = Put(norm, e.site, FULL - UNIT * m) /\ muts' = Put(muts, Key(e), Get(muts, Key(e), 0) + UNIT)
           ELSE UNCHANGED <<norm, muts>>
    /\ Advance /\ UNCHANGED <<gene, table>>
HazardRowSteps ==
    \/ SkipOtherChrom \/ SkipOutside \/ SkipNonDiploid \/ Accept
    \/ KeepOrientation \/ Swap \/ SkipUnspecified
    \/ CountRef \/ CountUnnamed \/ HazardCountAlt \/ EndRow
MCSpecHazard == MCInit /\ [][FetchPair \/ HazardRowSteps \/ Close]_vars

(* every plan carries its diplotype (so DiplotypeRecovered is not vacuous) *)
PlansCarry == (Done /\ table \in Plans) =>
    \E i, j \in DOMAIN gene.alleles : CarriesPair(gene, table, gene.alleles[i], gene.alleles[j])
=============================================================================
