------------------------------ MODULE MC_Aldy ------------------------------
(* Bounded exhaustive run of the composition: all well-formed fact records (depths 0..MaxAvg,     *)
(* min_avg_coverage in Mins, routes, outputs, single/multi-gene) x the small stage oracles of Aldy. *)
EXTENDS Aldy
=============================================================================
