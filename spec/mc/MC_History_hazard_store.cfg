CONSTANT Ops <- MCOps
CONSTANT AllGenes <- MCGenes
CONSTANT Failing <- MCFailing
CONSTANT Struct <- MCStruct
CONSTANT MaxLen = 4
CONSTANT Hazards <- HzStore
SPECIFICATION Spec
INVARIANT TypeOK
PROPERTY StoreIsWriteOnly
CHECK_DEADLOCK FALSE
