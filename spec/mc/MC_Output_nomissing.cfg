CONSTANTS
  MaxSols = 2
  MaxCopies = 2
  bug = "nomissing"
  VT <- Tab
SPECIFICATION MCSpec
INVARIANT InvParseBackVcf
