CONSTANTS
  Nums = {1, 2, 4, 13}
  Sufs = {0, 3}
  MaxN = 5
  TandemChoices <- TC_all
  Fix = TRUE
  DelKey = 5
SPECIFICATION MCSpec
INVARIANT Completes
INVARIANT Conserved
INVARIANT InvEachCopyOnce
INVARIANT InvBothNonEmpty
INVARIANT InvDeletionShown
INVARIANT InvTandemsAdjacent
INVARIANT InvNaturalOrder
INVARIANT InvTandemUnitsInOrder
INVARIANT InvOrderFree12
INVARIANT InvArrangeIsMachine
