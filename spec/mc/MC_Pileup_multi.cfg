CONSTANTS
  G <- MCGene
  MaxOps = 1
  MaxLen = 1
  NReads = 3
  Mode = "multi3"
SPECIFICATION MCSpec
INVARIANT OperationalEqualsDeclarative
INVARIANT DepthConservation
INVARIANT SubCounts
INVARIANT SplitInvariant
INVARIANT PhaseRecordSound
INVARIANT QualityKept
INVARIANT MnpQualityKept
INVARIANT OrderIndependent
