SPECIFICATION Spec
CONSTANTS
  L = 6
  SeqAlpha = {0, 1}
  AltAlpha = {0, 2}
  MaxGap = 1
  BothGaps = FALSE
INVARIANT WellFormed
INVARIANT MapsOK
INVARIANT TheoremHolds
INVARIANT GenomeAlleleOK
INVARIANT RoundTrip
INVARIANT AnchorsAgree
INVARIANT NeverDroppedWhenAligned
