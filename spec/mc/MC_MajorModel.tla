--------------------------- MODULE MC_MajorModel ---------------------------
(***************************************************************************)
(* Design-level check of the major-stage semantics (C02, last sentence):   *)
(* on noise-free evidence planted from ANY admissible multiset of          *)
(* catalogued alleles the planted multiset is admissible, scores exactly 0 *)
(* and is optimal; every other multiset scoring 0 explains the same        *)
(* variants with the same multiplicities; the within-gap set grows with    *)
(* the gap.  Small fixed catalogue: 3 sites, variants v1,v2 (substitutions *)
(* sharing site 1), v3 (insertion at site 2), v4 (substitution at site 3); *)
(* configuration 1 = default, 2 = a fusion that lost site 1; alleles       *)
(* a1 {} a2 {v1} a3 {v2,v4} a4 {v3} (default) and a5 {v4} (fusion);        *)
(* structures of 1-3 copies; depth D per copy; optionally one op is        *)
(* perturbed by +-Noise reads (then only the generic invariants apply).    *)
(***************************************************************************)
EXTENDS MajorModel
CONSTANTS D, Noise

Vars == << [si |-> 1, ins |-> FALSE], [si |-> 1, ins |-> FALSE], [si |-> 2, ins |-> TRUE], [si |-> 3, ins |-> FALSE] >>
Cfgs == << [name |-> "1", cn |-> <<1, 1, 1>>], [name |-> "f", cn |-> <<0, 1, 1>>] >>
Alleles == << [name |-> "a1", cfg |-> 1, core |-> <<>>], [name |-> "a2", cfg |-> 1, core |-> <<1>>],
              [name |-> "a3", cfg |-> 1, core |-> <<2, 4>>], [name |-> "a4", cfg |-> 1, core |-> <<3>>],
              [name |-> "a5", cfg |-> 2, core |-> <<4>>] >>
Structs == { <<[cfg |-> 1, n |-> 1]>>, <<[cfg |-> 1, n |-> 2]>>, <<[cfg |-> 1, n |-> 3]>>,
             <<[cfg |-> 1, n |-> 1], [cfg |-> 2, n |-> 1]>>, <<[cfg |-> 2, n |-> 2]>> }
P == [thrN |-> 1, thrD |-> 2, minCov10 |-> 20, cnMax |-> 20, novelPen |-> 21 * U, gapN |-> 0, gapD |-> 1]

VARIABLES case, planted, noisy
vars == <<case, planted, noisy>>

OpRec(name, n, ins, v) == [op |-> name, good |-> n, low |-> 0, ins |-> ins, var |-> v, tab |-> <<>>, elig |-> TRUE]
CoreOf(a) == SeqToSet(Alleles[a].core)
(* reads of one copy of allele a at site i: D at the variant op it carries there, else D at the reference *)
CopiesWith(x, v) == Cardinality({k \in DOMAIN x : v \in CoreOf(x[k])})
HasCn(a, i) == Cfgs[Alleles[a].cfg].cn[i] > 0
RefCopies(x, i) == Cardinality({k \in DOMAIN x : HasCn(x[k], i) /\ ~\E v \in CoreOf(x[k]) : Vars[v].si = i /\ ~Vars[v].ins})
SiteOf(x, i, bump) ==
    LET vs == {v \in DOMAIN Vars : Vars[v].si = i}
        cnt(v) == D * CopiesWith(x, v) + (IF bump[1] = v THEN bump[2] ELSE 0)
        ref == D * RefCopies(x, i) + (IF bump[1] = 10 + i THEN bump[2] ELSE 0)
        ops == <<OpRec("_", IF ref < 0 THEN 0 ELSE ref, FALSE, 0)>>
               \o SetToSeq({OpRec("v", IF cnt(v) < 0 THEN 0 ELSE cnt(v), Vars[v].ins, v) : v \in {w \in vs : cnt(w) > 0}})
    IN [pos |-> i, ops |-> ops]
MkCase(st, x, bump) ==
    [p |-> P, sites |-> [i \in 1..3 |-> SiteOf(x, i, bump)], vars |-> Vars, cfgs |-> Cfgs, struct |-> st, alleles |-> Alleles]

BagsFor(st) == LET c0 == [p |-> P, sites |-> <<>>, vars |-> Vars, cfgs |-> Cfgs, struct |-> st, alleles |-> Alleles]
                   dAll == [obs |-> DOMAIN Vars, cand |-> DOMAIN Alleles]
               IN CombosFrom(c0, dAll, 1)
Bumps == {<<0, 0>>} \cup {<<t, s * Noise>> : t \in {1, 2, 3, 4, 11, 12, 13}, s \in {-1, 1}}

Init == \E st \in Structs : \E x \in BagsFor(st) : \E b \in Bumps :
            /\ case = MkCase(st, x, b) /\ planted = x /\ noisy = (b[2] # 0)
Next == UNCHANGED vars
Spec == Init /\ [][Next]_vars

Dv == Derive(case)
Adm == AdmissibleCombos(case, Dv)
VariantBag(x) == [v \in DOMAIN Vars |-> CopiesWith(x, v)]
RefBag(x) == [i \in 1..3 |-> RefCopies(x, i)]

NoiseFreePlantedAtZero == ~noisy => (planted \in Adm /\ Score(case, Dv, planted) = 0)
ScoresNonNegative == \A x \in Adm : Score(case, Dv, x) >= 0
ZeroScoreExplainsSameVariants ==
    ~noisy => \A x \in Adm : Score(case, Dv, x) = 0 => (VariantBag(x) = VariantBag(planted) /\ RefBag(x) = RefBag(planted))
NovelNeverCarried == \A x \in Adm : \A v \in Novel(case, Dv, x) : Carriers(case, x, v) = 0
Within(g, best) == {x \in Adm : Score(case, Dv, x) * g[2] <= (g[2] + g[1]) * best}
GapMonotone == Adm # {} =>
    LET best == MinSet({Score(case, Dv, x) : x \in Adm})
    IN Within(<<0, 1>>, best) \subseteq Within(<<1, 10>>, best) /\ Within(<<1, 10>>, best) \subseteq Within(<<1, 2>>, best)
           /\ Within(<<0, 1>>, best) # {}
=============================================================================
